#!/bin/sh
# Offline setup: nothing is built; only check that the tools the checks rely on respond.
set -e
python3-vt -c "import z3; print('z3', z3.get_version_string())"
/usr/bin/cvc5 --version | head -1
/venv/bin/python -c "import sys; sys.path.insert(0,'/repo/src'); import stabilize; print('stabilize importable')"
python3-vt -c "import sys; sys.path.insert(0,'.'); from pyvc.index import Index; i=Index(); print('indexed modules', len(i.modules), 'parse errors', len(i.errors))"
