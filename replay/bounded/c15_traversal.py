"""C15 reset-set clause, bounded: get_resettable_downstream_stages(E, t) is the least set R with s in R iff prereqs(s) != {} and
prereqs(s) subset of {t} u R; same for get_skippable_downstream_stages; get_downstream_stages is the transitive dependents;
get_skipped_stages = skippable(source) minus ({target} u downstream(target)).
Bound: every DAG with <= 5 stages (edges only from earlier to later stages in list order, and also the reversed list order)."""
import itertools

from _b import *
from stabilize.handlers.jump_to_stage.traversal import (get_downstream_stages, get_resettable_downstream_stages,
                                                        get_skippable_downstream_stages, get_skipped_stages)
from stabilize.models.stage import StageExecution
from stabilize.models.workflow import Workflow

tier = sys.argv[1] if len(sys.argv) > 1 else "quick"
N = 5 if tier == "thorough" else 4


def lfp(prereq, t):
    R = set()
    changed = True
    while changed:
        changed = False
        for s, p in prereq.items():
            if s != t and s not in R and p and p <= ({t} | R):
                R.add(s)
                changed = True
    return R


def dependents(prereq, t):
    out, todo = set(), [t]
    while todo:
        u = todo.pop()
        for s, p in prereq.items():
            if u in p and s not in out:
                out.add(s)
                todo.append(s)
    return out


failures, cases, nontrivial, samples = [], 0, 0, []
names = ["a", "b", "c", "d", "e"]
for n in range(1, N + 1):
    pairs = [(i, j) for j in range(n) for i in range(j)]
    for mask in range(1 << len(pairs)):
        prereq = {names[j]: set() for j in range(n)}
        for b, (i, j) in enumerate(pairs):
            if mask >> b & 1:
                prereq[names[j]].add(names[i])
        for rev in (False, True):
            order = list(prereq)[::-1] if rev else list(prereq)
            stages = [StageExecution(ref_id=r, type="t", name=r, requisite_stage_ref_ids=set(prereq[r])) for r in order]
            wf = Workflow.create(application="x", name="x", stages=stages)
            by = {s.ref_id: s for s in wf.stages}
            for t in order:
                cases += 1
                want = lfp(prereq, t)
                nontrivial += bool(want)
                for fn, nm in ((get_resettable_downstream_stages, "resettable"), (get_skippable_downstream_stages, "skippable")):
                    got = [s.ref_id for s in fn(wf, t)]
                    if set(got) != want or len(got) != len(set(got)):
                        failures.append({"fn": nm, "prereq": {k: sorted(v) for k, v in prereq.items()}, "target": t, "got": got, "want": sorted(want)})
                gd = [s.ref_id for s in get_downstream_stages(wf, t)]
                if set(gd) != dependents(prereq, t) or len(gd) != len(set(gd)):
                    failures.append({"fn": "downstream", "prereq": {k: sorted(v) for k, v in prereq.items()}, "target": t, "got": gd,
                                     "want": sorted(dependents(prereq, t))})
                for tgt in order:
                    if tgt == t:
                        continue
                    ws = lfp(prereq, t) - ({tgt} | dependents(prereq, tgt))
                    gs = {s.ref_id for s in get_skipped_stages(wf, by[t], by[tgt])}
                    if gs != ws:
                        failures.append({"fn": "skipped", "prereq": {k: sorted(v) for k, v in prereq.items()}, "source": t, "target": tgt,
                                         "got": sorted(gs), "want": sorted(ws)})
            if len(samples) < 3 and mask:
                samples.append({"prereq": {k: sorted(v) for k, v in prereq.items()}})
done(cases, nontrivial, failures, f"all DAGs with <= {N} stages, both list orders, every target", samples)
