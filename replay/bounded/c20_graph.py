"""C20 graph clause, bounded: validate_stage_graph succeeds exactly for acyclic graphs with unique, known references and
no self edge, and Workflow.create gives the same verdict; topological_sort lists every stage after all of its dependencies.
Bound: all graphs with <= 3 stages (ref ids from {a,b,c}, requisites any subset of {a,b,c,z}); with 4 stages: all graphs
with distinct refs a..d and requisites any subset of {a,b,c,d,z} in the thorough tier, a seeded sample of them in quick."""
import itertools
import random

from _b import *
from stabilize.models.workflow import Workflow
from stabilize.dag.topological import CircularDependencyError, InvalidStageGraphError, topological_sort, validate_stage_graph
from stabilize.models.stage import StageExecution

tier = sys.argv[1] if len(sys.argv) > 1 else "quick"
seed = int(sys.argv[2]) if len(sys.argv) > 2 else 0


def acyclic(graph):  # graph: ref -> set(refs); independent DFS colouring
    color = {}

    def visit(u):
        color[u] = 1
        for v in graph.get(u, ()):
            if v not in graph:
                continue
            if color.get(v) == 1:
                return False
            if color.get(v) is None and not visit(v):
                return False
        color[u] = 2
        return True

    return all(visit(u) for u in graph if color.get(u) is None)


def spec_ok(refs, reqs):
    if len(set(refs)) != len(refs):
        return False
    known = set(refs)
    for r, q in zip(refs, reqs):
        if r in q or not set(q) <= known:
            return False
    return acyclic({r: set(q) for r, q in zip(refs, reqs)})


def check(refs, reqs, failures):
    stages = [StageExecution(ref_id=r, type="t", name=r, requisite_stage_ref_ids=set(q)) for r, q in zip(refs, reqs)]
    want = spec_ok(refs, reqs)
    try:
        validate_stage_graph(stages)
        got, exc = True, None
    except (InvalidStageGraphError, CircularDependencyError) as e:
        got, exc = False, type(e).__name__
    except BaseException as e:  # any other exception type escapes the documented contract
        failures.append({"refs": refs, "reqs": [sorted(q) for q in reqs], "why": f"unexpected exception {type(e).__name__}: {e}"})
        return want
    if got != want:
        failures.append({"refs": refs, "reqs": [sorted(q) for q in reqs], "validate_ok": got, "spec_ok": want, "exc": exc})
    # "creating a workflow succeeds exactly when ...": the public factory gives the same verdict and keeps every stage
    try:
        wf = Workflow.create("app", "wf", list(stages))
        made = True
    except (InvalidStageGraphError, CircularDependencyError):
        made = False
    except BaseException as e:  # noqa
        failures.append({"refs": refs, "reqs": [sorted(q) for q in reqs], "why": f"Workflow.create raised {type(e).__name__}: {e}"})
        return want
    if made != want:
        failures.append({"refs": refs, "reqs": [sorted(q) for q in reqs], "create_ok": made, "spec_ok": want})
    elif made and [s.ref_id for s in wf.stages] != list(refs):
        failures.append({"refs": refs, "why": "Workflow.create changed the stage list", "got": [s.ref_id for s in wf.stages]})
    if want:
        order = topological_sort(stages)
        pos = {s.ref_id: i for i, s in enumerate(order)}
        if sorted(pos) != sorted(refs) or len(order) != len(refs) or any(pos[d] >= pos[r] for r, q in zip(refs, reqs) for d in q):
            failures.append({"refs": refs, "reqs": [sorted(q) for q in reqs], "order": [s.ref_id for s in order], "why": "order"})
    return want


def subsets(xs):
    return [set(c) for k in range(len(xs) + 1) for c in itertools.combinations(xs, k)]


failures, cases, valid = [], 0, 0
samples = []
for n in (0, 1, 2, 3):
    alpha = ["a", "b", "c"][:max(n, 1)]
    for refs in itertools.product(alpha, repeat=n):
        for reqs in itertools.product(subsets(alpha + ["z"]), repeat=n):
            cases += 1
            valid += check(list(refs), list(reqs), failures)
# reference names that are easy to special-case: the default "" (a stage created without a ref_id), a blank, a name that is a
# prefix of another -- two stages sharing any of them are duplicates like any other
for odd in (["", ""], ["", "a", ""], [" ", " "], ["a", "ab", "a"], ["", "a"], ["a", "ab"]):
    for reqs in itertools.product([set(), {odd[0]}], repeat=len(odd)):
        cases += 1
        valid += check(list(odd), [set(q) for q in reqs], failures)
refs4 = ["a", "b", "c", "d"]
subs4 = subsets(refs4 + ["z"])
if tier == "thorough":
    it4 = itertools.product(subs4, repeat=4)
else:
    rnd = random.Random(seed)
    it4 = ([rnd.choice(subs4) for _ in range(4)] for _ in range(20000))
for reqs in it4:
    cases += 1
    valid += check(refs4, list(reqs), failures)
    if len(samples) < 3:
        samples.append({"refs": refs4, "reqs": [sorted(q) for q in reqs]})
done(cases, valid, failures, "graphs with <= 3 stages exhaustively (+ empty / blank / prefix reference names); 4 distinct stages: " + ("exhaustive" if tier == "thorough" else "20000 seeded samples"), samples)
