"""C16 current-iteration clause, bounded: a stage planned in one loop iteration, re-armed by a jump (reset_stage_for_retry) and
planned again -- and re-armed and planned a third time -- sees, for every key it does not set itself, the value its ancestors
produced in the CURRENT iteration; a key the stage sets itself keeps the stage's value in every iteration.
Bound: keys {p, q}; own context C over {absent, 1, [1]}; ancestor outputs of iteration 1 and 2 over {absent, 1, 2, [1], [2]}
per key; no reducers."""
import copy
import itertools
from unittest.mock import MagicMock

from _b import *
from stabilize.handlers.jump_to_stage.reset import reset_stage_for_retry
from stabilize.handlers.start_stage.handler import StartStageHandler
from stabilize.models.stage import StageExecution
from stabilize.models.task import TaskExecution
from stabilize.models.workflow import Workflow

ABS = object()
OWN = [ABS, 1, [1]]
ANC = [ABS, 1, 2, [1], [2]]
failures, cases, nontrivial, samples = [], 0, 0, []


def mk(d):
    return {k: copy.deepcopy(v) for k, v in d.items() if v is not ABS}


def expect(A, C):
    """one planning step on a stage whose OWN values are C, with ancestor outputs A"""
    want = dict(mk(A))
    for k, v in mk(C).items():
        if k in want and isinstance(want[k], list) and isinstance(v, list):
            want[k] = list(want[k])
            for x in v:
                if x not in want[k]:
                    want[k].append(x)
        else:
            want[k] = v
    return want


for cp, cq in itertools.product(OWN, repeat=2):
    for a1p, a1q, a2p, a2q in itertools.product(ANC, repeat=4):
        C = {"p": cp, "q": cq}
        A1, A2 = {"p": a1p, "q": a1q}, {"p": a2p, "q": a2q}
        repo = MagicMock()
        repo.get_upstream_stages.return_value = []
        h = StartStageHandler(queue=MagicMock(), repository=repo)
        stage = StageExecution(ref_id="s", type="t", name="s", context=mk(C),
                               tasks=[TaskExecution.create(name="t", implementing_class="x", stage_start=True, stage_end=True)])
        wf = Workflow.create(application="a", name="w", stages=[stage])  # keep a reference: stages hold the workflow weakly
        try:
            repo.get_merged_ancestor_outputs.return_value = mk(A1)
            h._plan_stage(stage)
            first = {k: (copy.deepcopy(stage.context[k]) if k in stage.context else ABS) for k in ("p", "q")}
            reset_stage_for_retry(stage)
            repo.get_merged_ancestor_outputs.return_value = mk(A2)
            h._plan_stage(stage)
        except Exception as e:  # noqa
            failures.append({"C": mk(C), "A1": mk(A1), "A2": mk(A2), "why": f"raised {type(e).__name__}: {e}"})
            continue
        # a third iteration (the loop goes round once more): the ancestors now produce iteration 1's values again, which
        # differ from iteration 2's wherever A1 != A2 -- a key inherited twice must still follow its ancestors
        try:
            reset_stage_for_retry(stage)
            second = {k: (copy.deepcopy(stage.context[k]) if k in stage.context else ABS) for k in ("p", "q")}
            repo.get_merged_ancestor_outputs.return_value = mk(A1)
            h._plan_stage(stage)
        except Exception as e:  # noqa
            failures.append({"C": mk(C), "A1": mk(A1), "A2": mk(A2), "why": f"third planning raised {type(e).__name__}: {e}"})
            continue
        got3 = {k: stage.context.get(k, ABS) for k in ("p", "q")}
        w3 = expect(A1, C)
        exp3 = {k: w3.get(k, ABS) for k in ("p", "q")}
        decided3 = [k for k in ("p", "q") if (C[k] is not ABS or (A1[k] is not ABS and A2[k] is not ABS))
                    and not (isinstance(C[k], list) and (isinstance(A1[k], list) or isinstance(A2[k], list)))]
        if any(got3[k] != exp3[k] for k in decided3):
            show3 = lambda d: {k: (None if v is ABS else v) for k, v in d.items()}
            failures.append({"own": mk(C), "ancestors_iteration_1_and_3": mk(A1), "ancestors_iteration_2": mk(A2),
                             "seen_iteration_3": show3(got3), "want_iteration_3": show3(exp3)})
            continue
        cases += 1
        w1, w2 = expect(A1, C), expect(A2, C)
        got2_saved = second
        got2 = got2_saved
        exp1 = {k: w1.get(k, ABS) for k in ("p", "q")}
        exp2 = {k: w2.get(k, ABS) for k in ("p", "q")}
        # only keys the current iteration's ancestors still provide are decided by the property (a key no ancestor
        # provides any more has no 'current' value; what the stage then sees is not specified)
        # and a key for which the stage's own LIST was concatenated with an ancestor's list in iteration 1 is stored as one
        # list: which of its items are 'own' is no longer known, so its second-iteration value is not decided either
        decided = [k for k in ("p", "q") if (C[k] is not ABS or A2[k] is not ABS) and not (isinstance(C[k], list) and isinstance(A1[k], list))]
        nontrivial += any(A1[k] is not ABS and A2[k] is not ABS and A1[k] != A2[k] and C[k] is ABS for k in ("p", "q"))
        bad1 = first != exp1
        bad2 = any(got2[k] != exp2[k] for k in decided)
        if bad1 or bad2:
            show = lambda d: {k: (None if v is ABS else v) for k, v in d.items()}
            failures.append({"own": mk(C), "ancestors_iteration_1": mk(A1), "ancestors_iteration_2": mk(A2),
                             "seen_iteration_1": show(first), "seen_iteration_2": show(got2), "want_iteration_2": show(exp2)})
        if len(samples) < 3 and mk(A1) and mk(A2) and mk(A1) != mk(A2):
            samples.append({"own": mk(C), "A1": mk(A1), "A2": mk(A2)})
done(cases, nontrivial, failures, "keys p,q; own absent/1/[1]; ancestors of iteration 1 and 2 absent/1/2/[1]/[2] per key; no reducers", samples)
