"""C09 filter clause, bounded: the in-memory filter never reports an id it has been told about as new; reset revokes
authority and only a hydration grants it; setting a bit never clears another.
Bound: filters of 5 sizes (expected_items 1..5000) x seeded id sets of up to 400 ids (ascii, unicode, empty, long)."""
import random

from _b import *
from stabilize.queue.dedup import BloomDeduplicator

tier = sys.argv[1] if len(sys.argv) > 1 else "quick"
seed = int(sys.argv[2]) if len(sys.argv) > 2 else 0
rnd = random.Random(seed)
failures, cases, nontrivial, samples = [], 0, 0, []
ROUNDS = 30 if tier == "thorough" else 6


def rid():
    k = rnd.random()
    if k < 0.05:
        return ""
    if k < 0.2:
        return "".join(chr(rnd.randrange(0x20, 0x2fff)) for _ in range(rnd.randrange(1, 12)))
    if k < 0.25:
        return "x" * rnd.randrange(100, 2000)
    return str(rnd.randrange(10 ** rnd.randrange(1, 12)))


for exp_items, fp in ((1, 0.5), (3, 0.01), (50, 0.001), (1000, 0.01), (5000, 0.001)):
    for _ in range(ROUNDS):
        d = BloomDeduplicator(expected_items=exp_items, false_positive_rate=fp)
        cases += 1
        if d.authoritative:
            failures.append({"why": "fresh filter is authoritative", "expected_items": exp_items})
        ids = [rid() for _ in range(rnd.randrange(1, 400))]
        half = len(ids) // 2
        for i in ids[:half]:
            before = bytes(d._bit_array)
            d.mark_seen(i)
            after = bytes(d._bit_array)
            if any(b & ~a for b, a in zip(before, after)):
                failures.append({"why": "mark_seen cleared a bit", "id": i})
            pos = d._get_hash_positions(i)
            if any(p < 0 or p >= d._size for p in pos) or len(pos) != d._num_hashes or pos != d._get_hash_positions(i):
                failures.append({"why": "hash positions out of range / not deterministic", "id": i})
        n = d.hydrate(ids[half:])
        nontrivial += 1
        if not d.authoritative:
            failures.append({"why": "hydrate did not grant authority"})
        missed = [i for i in ids if not d.maybe_seen(i)]
        if missed:
            failures.append({"why": "false negative", "expected_items": exp_items, "ids": missed[:3], "told": len(ids)})
        d.reset()
        if d.authoritative:
            failures.append({"why": "reset kept authority"})
        d.mark_seen("after-reset")
        if d.authoritative or not d.maybe_seen("after-reset"):
            failures.append({"why": "mark_seen after reset"})
        if len(samples) < 3:
            samples.append({"expected_items": exp_items, "ids": ids[:4], "n": len(ids)})
done(cases, nontrivial, failures, f"5 filter sizes x {ROUNDS} seeded id sets of <= 400 ids", samples)
