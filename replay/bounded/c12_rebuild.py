"""C12 rebuild clauses, bounded: with one replayer / one snapshot store used for a whole sequence of queries,
  rebuild(as_of = p)              == fold of exactly the events with sequence <= p      (oracle: a fresh replayer without snapshots)
  rebuild() with a snapshot at k  == full replay without snapshots
for every snapshot position k, every prefix p, and the queries asked in ascending, descending and full-first order.
Bound: a synthetic log of one workflow (3 stages x 2 tasks, started / completed / failed / canceled kinds, context updates)
interleaved with another workflow's events; every snapshot position; every prefix; 3 query orders."""
import copy
import shutil
import tempfile

from _b import *
from stabilize.events import SqliteEventStore
from stabilize.events.base import EventMetadata, EventType, create_stage_event, create_task_event, create_workflow_event
from stabilize.events.replay import EventReplayer
from stabilize.events.snapshots import SnapshotStore

tier = sys.argv[1] if len(sys.argv) > 1 else "quick"
failures, cases, nontrivial, samples = [], 0, 0, []
md = lambda w: EventMetadata(correlation_id=w)


def log(w):
    ev = [create_workflow_event(event_type=EventType.WORKFLOW_CREATED, workflow_id=w, version=1, data={"application": "a", "name": "n"}, metadata=md(w)),
          create_workflow_event(event_type=EventType.WORKFLOW_STARTED, workflow_id=w, version=1, data={"context": {"k": 1}}, metadata=md(w))]
    for si, (fin, st_) in enumerate(((EventType.STAGE_COMPLETED, "SUCCEEDED"), (EventType.STAGE_FAILED, "TERMINAL"), (EventType.STAGE_CANCELED, "CANCELED"))):
        sid = f"{w}-s{si}"
        ev.append(create_stage_event(event_type=EventType.STAGE_STARTED, stage_id=sid, workflow_id=w, version=1, data={"name": sid}, metadata=md(w)))
        for ti in range(2):
            tid = f"{sid}-t{ti}"
            ev.append(create_task_event(event_type=EventType.TASK_STARTED, task_id=tid, workflow_id=w, version=1, data={"stage_id": sid}, metadata=md(w)))
            ev.append(create_task_event(event_type=EventType.TASK_COMPLETED if ti == 0 else EventType.TASK_FAILED, task_id=tid, workflow_id=w, version=1,
                                        data={"status": "SUCCEEDED" if ti == 0 else "FAILED_CONTINUE", "stage_id": sid}, metadata=md(w)))
        ev.append(create_stage_event(event_type=fin, stage_id=sid, workflow_id=w, version=1, data={"status": st_}, metadata=md(w)))
        ev.append(create_workflow_event(event_type=EventType.CONTEXT_UPDATED, workflow_id=w, version=1, data={"context": {f"after{si}": si}}, metadata=md(w)))
    ev.append(create_workflow_event(event_type=EventType.WORKFLOW_FAILED, workflow_id=w, version=1, data={"status": "TERMINAL"}, metadata=md(w)))
    return ev


scratch = tempfile.mkdtemp(prefix="c12_rb_")
try:
    es = SqliteEventStore(f"sqlite:///{scratch}/events.db", create_tables=True)
    a, b = log("w1"), log("w2")
    mixed = [x for pair in zip(a, b) for x in pair]
    stored = es.append_batch(mixed)
    seqs = [e.sequence for e in stored if e.workflow_id == "w1"]
    plain = EventReplayer(es)  # oracle: no snapshots, a fold of the prefix
    want = {p: plain.rebuild_workflow_state("w1", as_of_sequence=p) for p in seqs}
    want_full = plain.rebuild_workflow_state("w1")
    ks = seqs if tier == "thorough" else seqs[1::3]
    for k in ks:
        for order in ("ascending", "descending", "full-first"):
            es2 = SqliteEventStore(f"sqlite:///{scratch}/events_{k}_{order}.db", create_tables=True)
            es2.append_batch([copy.deepcopy(x) for x in mixed])
            snaps = SnapshotStore(es2)
            rep = EventReplayer(es2, snaps)
            snaps.create_workflow_snapshot(copy.deepcopy(want[k]), "w1", version=1, sequence=k)
            qs = list(seqs)
            if order == "descending":
                qs = qs[::-1]
            got_full_first = rep.rebuild_workflow_state("w1") if order == "full-first" else None
            for p in qs:
                cases += 1
                nontrivial += p >= k
                got = rep.rebuild_workflow_state("w1", as_of_sequence=p)
                if got != want[p]:
                    failures.append({"snapshot_at": k, "as_of": p, "query_order": order, "why": "rebuild as of p differs from the fold of the events up to p",
                                     "got_status": got.get("status"), "want_status": want[p].get("status")})
                    break
            got_full = rep.rebuild_workflow_state("w1")
            cases += 1
            for name, g in (("after the prefix queries", got_full), ("asked first", got_full_first)):
                if g is not None and g != want_full:
                    failures.append({"snapshot_at": k, "query_order": order, "why": f"snapshot + later events ({name}) differs from the full replay"})
            if len(samples) < 3:
                samples.append({"snapshot_at": k, "query_order": order})
finally:
    shutil.rmtree(scratch, ignore_errors=True)
done(cases, nontrivial, failures, "one synthetic log (3 stages x 2 tasks, interleaved with a second workflow); snapshot positions: %s; every prefix; 3 query orders"
     % ("all" if tier == "thorough" else "every third"), samples)
