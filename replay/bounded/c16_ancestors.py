"""C16 ancestor clause, bounded: get_merged_ancestor_outputs returns outputs of exactly the transitive dependencies; for a
scalar key set by ancestors that are totally ordered by dependency the nearest one wins (else: one of the maximal
setters, left unspecified); list values accumulate without duplicates.
Bound: every DAG with <= 3 stages plus (thorough: all, quick: seeded sample of) DAGs with 4 stages; one scalar key set by
any subset of stages, one list key with values from a pool of 3 lists; the target is every stage."""
import itertools
import json as js
import random
import sqlite3

from _b import *
from stabilize.persistence.sqlite.queries import get_merged_ancestor_outputs

tier = sys.argv[1] if len(sys.argv) > 1 else "quick"
seed = int(sys.argv[2]) if len(sys.argv) > 2 else 0
conn = sqlite3.connect(":memory:")
conn.row_factory = sqlite3.Row
conn.execute("CREATE TABLE stage_executions (execution_id TEXT, ref_id TEXT, requisite_stage_ref_ids TEXT, outputs TEXT)")
names = ["a", "b", "c", "d"]
LISTS = [None, ["x"], ["x", "y"]]


def ancestors(prereq, t):
    out, todo = set(), [t]
    while todo:
        for p in prereq[todo.pop()]:
            if p not in out:
                out.add(p)
                todo.append(p)
    return out


def check(prereq, scal, lst, failures):
    conn.execute("DELETE FROM stage_executions")
    for r in prereq:
        o = {}
        if scal[r]:
            o["k"] = "from_" + r
        if lst[r] is not None:
            o["l"] = list(lst[r])
        conn.execute("INSERT INTO stage_executions VALUES ('e', ?, ?, ?)", (r, js.dumps(sorted(prereq[r])), js.dumps(o)))
    nt = 0
    for t in prereq:
        anc = ancestors(prereq, t)
        got = get_merged_ancestor_outputs(conn, "e", t)
        setters = [a for a in anc if scal[a]]
        nt += bool(setters)
        case = {"prereq": {k: sorted(v) for k, v in prereq.items()}, "scalar_setters": [r for r in prereq if scal[r]],
                "lists": {r: lst[r] for r in prereq if lst[r] is not None}, "target": t, "got": got}
        if set(got) - {"k", "l"}:
            failures.append(dict(case, why="foreign key"))
        if ("k" in got) != bool(setters):
            failures.append(dict(case, why="scalar presence"))
        elif setters:
            # maximal setters: no other setter depends on them
            maximal = [s for s in setters if not any(s in ancestors(prereq, o) for o in setters if o != s)]
            if got["k"] not in {"from_" + m for m in maximal}:
                failures.append(dict(case, why="nearest ancestor does not win", maximal=maximal))
        items = [x for a in anc if lst[a] is not None for x in lst[a]]
        if ("l" in got) != bool([a for a in anc if lst[a] is not None]):
            failures.append(dict(case, why="list presence"))
        elif "l" in got and (sorted(set(got["l"])) != sorted(set(items)) or len(got["l"]) != len(set(got["l"]))):
            failures.append(dict(case, why="list accumulation"))
    return nt


failures, cases, nontrivial, samples = [], 0, 0, []
rnd = random.Random(seed)
for n in (1, 2, 3, 4):
    pairs = [(i, j) for j in range(n) for i in range(j)]
    for mask in range(1 << len(pairs)):
        prereq = {names[j]: set() for j in range(n)}
        for b, (i, j) in enumerate(pairs):
            if mask >> b & 1:
                prereq[names[j]].add(names[i])
        combos = itertools.product(itertools.product([False, True], repeat=n), itertools.product(LISTS, repeat=n))
        if n == 4 and tier != "thorough":
            allc = list(combos)
            combos = rnd.sample(allc, 40)
        for sc, ls in combos:
            cases += 1
            nontrivial += check(prereq, dict(zip(prereq, sc)), dict(zip(prereq, ls)), failures)
            if len(samples) < 3 and mask and any(sc):
                samples.append({"prereq": {k: sorted(v) for k, v in prereq.items()}, "scalar": sc, "lists": ls})
# ---- chains (a total order, so the fold is fully specified): one key whose value changes kind along the chain -- absent, a scalar,
# lists that overlap: a nearer ancestor's scalar or first list REPLACES what was accumulated, two lists in a row accumulate without
# duplicates, in order
POOL = [None, "s", ["h1"], ["h1", "h2"], ["h4", "h1"], ["h3"]]
LMAX = 5
for n in range(1, LMAX + 1):
    chain = [f"s{i}" for i in range(n)] + ["reader"]
    for vals in itertools.product(POOL, repeat=n):
        conn.execute("DELETE FROM stage_executions")
        for i, r in enumerate(chain):
            o = {} if (i >= n or vals[i] is None) else {"m": vals[i]}
            conn.execute("INSERT INTO stage_executions VALUES ('e', ?, ?, ?)", (r, js.dumps([chain[i - 1]] if i else []), js.dumps(o)))
        want = None
        for v in vals:
            if v is None:
                continue
            if isinstance(want, list) and isinstance(v, list):
                want = want + [x for x in dict.fromkeys(v) if x not in want]
            else:
                want = list(v) if isinstance(v, list) else v
        got = get_merged_ancestor_outputs(conn, "e", "reader")
        cases += 1
        nontrivial += want is not None
        if got.get("m") != want or set(got) - {"m"}:
            failures.append({"chain_values": list(vals), "got": got, "want": want, "why": "fold along a chain"})
done(cases, nontrivial, failures, "chains of <= 5 ancestors x one key over absent / scalar / 4 overlapping lists; all DAGs with <= 3 stages x all output assignments; 4 stages: " + ("all" if tier == "thorough" else "40 seeded assignments per DAG"), samples)
