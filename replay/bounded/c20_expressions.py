"""C20 expression clause, bounded: evaluate_expression(text, ctx) returns a value or raises ExpressionError -- nothing else --,
never calls anything and never mutates the context.
Bound: every expression of nesting depth <= 2 over the grammar below (supported and unsupported constructs), against 3
contexts holding a value of every JSON tag plus an instrumented object; plus a list of hostile texts."""
import copy
import itertools

from _b import *
from stabilize.expressions import ExpressionError, evaluate_expression

tier = sys.argv[1] if len(sys.argv) > 1 else "quick"


class Spy:
    calls = 0

    def __call__(self, *a, **k):
        Spy.calls += 1
        return 1

    def __getattr__(self, n):
        Spy.calls += 1
        raise AttributeError(n)

    def __eq__(self, o):
        return False

    def __hash__(self):
        return 1


CTXS = [
    {"n": None, "b": True, "i": 3, "f": 1.5, "s": "txt", "l": [1, "a", None], "d": {"a": 1, "l": [2]}, "e": {}, "el": []},
    {"n": 0, "b": False, "i": -1, "f": 0.0, "s": "", "l": [[1], {"k": 2}], "d": {"a": {"b": None}}, "e": {"x": []}, "el": [0]},
    {"spy": Spy(), "i": 10 ** 30, "s": "a" * 50, "l": list(range(5)), "d": {"1": 1}},
]
ATOMS = ["n", "b", "i", "f", "s", "l", "d", "e", "el", "missing", "spy", "1", "0", "'a'", "None", "True", "false", "2.5", "[]", "()",
         "d.a", "d.a.b", "s.x", "l[0]", "l[9]", "l[-1]", "d['a']", "d[l]", "d[d]", "l[s]", "l[b]", "i[0]", "n.x", "x.y.z"]
UN = ["not {}", "-{}", "+{}", "~{}"]
BIN = ["{} == {}", "{} != {}", "{} < {}", "{} >= {}", "{} in {}", "{} not in {}", "{} is {}", "{} is not {}", "{} and {}", "{} or {}",
       "{} + {}", "{} * {}", "{} if {} else 1", "[{}, {}]", "({}, {})", "{}[{}]", "{} < {} < 3", "{}({})", "{{{}: {}}}", "{{{}, {}}}",
       "{} in {{{}, 1}}", "{}[{}:]", "[*{}, {}]"]
HOSTILE = ["", "   ", "__import__('os').system('true')", "(lambda: 1)()", "[x for x in l]", "exec('1')", "d.__class__", "a = 1", "1 +", "((((",
           "x := 1", "f'{s}'", "*l", "not", "'unterminated", "1 if", "d[", "\x00", "spy()", "spy.attr", "l[0:1]", "-" * 50 + "i", "not " * 40 + "b",
           "(" * 30 + "1" + ")" * 30, "i ** 100", "s % s", "await x", "yield 1", "...", "True", "1", "0", "false", "TRUE", "null", "none",
           "{l}", "{[]}", "{d}", "{1, 2}", "{s, i}", "i in {l}", "{[1]: 1}", "{d: 1}", "{**d}", "{*l}", "[*l]", "(*l, 1)", "l[::2]", "l[b:i]",
           "{x for x in l}", "{k: 1 for k in l}", "(x for x in l)", "(yield 1)", "(yield from l)", "(await spy)", "lambda: 1", "f'{s!r:>{i}}'",
           "b'x'", "1j", "(w := 1)", "s if b else l", "(s, l) in [(s, l)]", "[l] == [l]", "not [d]", "-(1,)", "~b"]
failures, cases, nontrivial, samples = [], 0, 0, []


def run(text):
    global cases, nontrivial
    for ctx in CTXS:
        before = copy.deepcopy({k: v for k, v in ctx.items() if k != "spy"})
        Spy.calls = 0
        cases += 1
        try:
            evaluate_expression(text, ctx)
            nontrivial += 1
        except ExpressionError:
            pass
        except BaseException as e:  # noqa
            failures.append({"text": text, "ctx_keys": sorted(ctx), "escaped": f"{type(e).__name__}: {e}"})
            continue
        if {k: v for k, v in ctx.items() if k != "spy"} != before:
            failures.append({"text": text, "why": "context mutated"})
        if Spy.calls:
            failures.append({"text": text, "why": "a context object was called / introspected"})


# every expression node class of this interpreter's grammar occurs in the corpus (a class the evaluator starts to accept is then
# exercised with hashable and unhashable operands); a class missing here is a gap of the harness, reported as an error, not a violation
import ast

seen_nodes = set()


def note(text):
    try:
        for nd in ast.walk(ast.parse(text.strip(), mode="eval")):
            seen_nodes.add(type(nd))
    except (SyntaxError, ValueError, RecursionError, MemoryError):
        pass


for t in HOSTILE + ATOMS:
    note(t)
    run(t)
lvl1 = [u.format(a) for u in UN for a in ATOMS] + [b.format(x, y) for b in BIN for x, y in itertools.product(ATOMS[:22], repeat=2)]
for t in lvl1:
    run(t)
if tier == "thorough":
    some = lvl1[::7]
    for u in UN:
        for t in some:
            run(u.format("(" + t + ")"))
    for b in BIN[:12]:
        for x in some[::5]:
            for y in ATOMS[:12]:
                run(b.format("(" + x + ")", y))
else:
    for u in UN:
        for t in lvl1[::29]:
            run(u.format("(" + t + ")"))
for t in lvl1[::11]:
    note(t)
missing_nodes = sorted(c.__name__ for c in ast.expr.__subclasses__() if c not in seen_nodes and c.__module__ in ("ast", "_ast")
                       and c.__name__ not in ("Num", "Str", "Bytes", "NameConstant", "Ellipsis"))
if missing_nodes:
    print("harness gap: no corpus text contains the expression node classes", missing_nodes, file=sys.stderr)
    sys.exit(3)
samples = [lvl1[3], lvl1[400], HOSTILE[2]]
done(cases, nontrivial, failures, f"grammar depth <= {'3 (subsampled)' if tier == 'thorough' else '2'} x 3 contexts + {len(HOSTILE)} hostile texts", samples)
