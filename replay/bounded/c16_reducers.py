"""C16 reducer clause, bounded: apply_output_reducers(reducers, branches)[k] is defined iff some branch has k and equals
reducer(k) applied to the branch values in branch order; sum / max / min give the same result for every permutation of the
branches; unknown reducer names raise ValueError.
collect / append / extend flatten list values, keep duplicates and give the same multiset in every branch order; merge is a
shallow merge in branch order.
Bound: up to 4 branches (quick: 3); scalar values from {None, 0, 1, 2, 5, -3}, list values from {1, [1], [1,2], [2,3], [], None},
dict values from {{a:1}, {a:2,b:1}, {b:3}, {}, None, 7}; every permutation."""
import itertools

from _b import *
from stabilize.reducers import apply_output_reducers

tier = sys.argv[1] if len(sys.argv) > 1 else "quick"
N = 4 if tier == "thorough" else 3
VALS = [None, 0, 1, 2, 5, -3]
MISSING = object()
failures, cases, nontrivial, samples = [], 0, 0, []


def spec(name, vs):
    if name == "sum":
        return sum(v for v in vs if v is not None)
    if name == "max":
        return max(v for v in vs if v is not None)
    if name == "min":
        return min(v for v in vs if v is not None)
    if name in ("collect", "append"):
        return list(vs)
    if name == "extend":
        return [v for v in vs if v is not None]
    if name == "first":
        return vs[0]
    if name == "last":
        return vs[-1]


for n in range(0, N + 1):
    for combo in itertools.product(VALS + [MISSING], repeat=n):
        branches = [({} if v is MISSING else {"k": v}) for v in combo]
        present = [v for v in combo if v is not MISSING]
        for name in ("sum", "max", "min", "collect", "append", "extend", "first", "last"):
            if name in ("max", "min") and present and all(v is None for v in present):
                continue  # max() of an empty generator: ValueError, outside the clause (no value to reduce)
            cases += 1
            try:
                got = apply_output_reducers({"k": name}, branches)
            except Exception as e:  # noqa
                failures.append({"reducer": name, "branches": branches, "why": f"raised {type(e).__name__}: {e}"})
                continue
            if ("k" in got) != bool(present):
                failures.append({"reducer": name, "branches": branches, "got": got, "why": "defined iff some branch has the key"})
                continue
            if present:
                nontrivial += 1
                if got["k"] != spec(name, present):
                    failures.append({"reducer": name, "branches": branches, "got": got, "want": spec(name, present)})
                if name in ("sum", "max", "min"):
                    for perm in itertools.permutations(branches):
                        if apply_output_reducers({"k": name}, list(perm)) != got:
                            failures.append({"reducer": name, "branches": branches, "perm": list(perm), "why": "order-sensitive"})
                            break
        if len(samples) < 3 and n == N:
            samples.append({"branches": branches})
# ---- list-valued branches (collect / append / extend flatten a branch's list, keep duplicates, keep a scalar as one element) and
# dict-valued branches (merge: shallow, a later branch wins); collect / append / extend combine ALL values: the result is the
# same multiset whatever the branch order
LVALS = [1, [1], [1, 2], [2, 3], [], None]


def lspec(name, vs):
    out = []
    for v in vs:
        if isinstance(v, list):
            out.extend(v)
        elif name in ("collect", "append") or v is not None:
            out.append(v)
    return out


for n in range(1, N + 1):
    for combo in itertools.product(LVALS, repeat=n):
        branches = [{"k": v} for v in combo]
        for name in ("collect", "append", "extend"):
            cases += 1
            nontrivial += any(isinstance(v, list) and v for v in combo)
            got = apply_output_reducers({"k": name}, [dict(b) for b in branches])
            want = lspec(name, list(combo))
            if got.get("k") != want:
                failures.append({"reducer": name, "branches": branches, "got": got, "want": want})
                continue
            key = lambda xs: sorted(map(repr, xs))
            for perm in itertools.permutations(branches):
                g2 = apply_output_reducers({"k": name}, [dict(b) for b in perm])
                if key(g2["k"]) != key(want):
                    failures.append({"reducer": name, "branches": branches, "perm": list(perm), "got": g2, "why": "not the same multiset in another branch order"})
                    break
DVALS = [{"a": 1}, {"a": 2, "b": 1}, {"b": 3}, {}, None, 7]
for n in range(1, N + 1):
    for combo in itertools.product(DVALS, repeat=n):
        cases += 1
        want = {}
        for v in combo:
            if isinstance(v, dict):
                want.update(v)
        got = apply_output_reducers({"k": "merge"}, [{"k": v} for v in combo])
        if got.get("k") != want:
            failures.append({"reducer": "merge", "branches": list(combo), "got": got, "want": want})
try:
    apply_output_reducers({"k": "no_such_reducer"}, [{"k": 1}])
    failures.append({"why": "unknown reducer accepted"})
except ValueError:
    pass
cases += 1
done(cases, nontrivial, failures, f"<= {N} branches; scalars {VALS} or missing, lists {LVALS}, dicts {DVALS}; all permutations for sum/max/min/collect/append/extend", samples)
