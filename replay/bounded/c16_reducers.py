"""C16 reducer clause, bounded: apply_output_reducers(reducers, branches)[k] is defined iff some branch has k and equals
reducer(k) applied to the branch values in branch order; sum / max / min give the same result for every permutation of the
branches; unknown reducer names raise ValueError.
Bound: up to 4 branches, values from {None, 0, 1, 2, 5, -3} (ints), every permutation; quick uses 3 branches."""
import itertools

from _b import *
from stabilize.reducers import apply_output_reducers

tier = sys.argv[1] if len(sys.argv) > 1 else "quick"
N = 4 if tier == "thorough" else 3
VALS = [None, 0, 1, 2, 5, -3]
MISSING = object()
failures, cases, nontrivial, samples = [], 0, 0, []


def spec(name, vs):
    if name == "sum":
        return sum(v for v in vs if v is not None)
    if name == "max":
        return max(v for v in vs if v is not None)
    if name == "min":
        return min(v for v in vs if v is not None)
    if name in ("collect", "append"):
        return list(vs)
    if name == "extend":
        return [v for v in vs if v is not None]
    if name == "first":
        return vs[0]
    if name == "last":
        return vs[-1]


for n in range(0, N + 1):
    for combo in itertools.product(VALS + [MISSING], repeat=n):
        branches = [({} if v is MISSING else {"k": v}) for v in combo]
        present = [v for v in combo if v is not MISSING]
        for name in ("sum", "max", "min", "collect", "append", "extend", "first", "last"):
            if name in ("max", "min") and present and all(v is None for v in present):
                continue  # max() of an empty generator: ValueError, outside the clause (no value to reduce)
            cases += 1
            try:
                got = apply_output_reducers({"k": name}, branches)
            except Exception as e:  # noqa
                failures.append({"reducer": name, "branches": branches, "why": f"raised {type(e).__name__}: {e}"})
                continue
            if ("k" in got) != bool(present):
                failures.append({"reducer": name, "branches": branches, "got": got, "why": "defined iff some branch has the key"})
                continue
            if present:
                nontrivial += 1
                if got["k"] != spec(name, present):
                    failures.append({"reducer": name, "branches": branches, "got": got, "want": spec(name, present)})
                if name in ("sum", "max", "min"):
                    for perm in itertools.permutations(branches):
                        if apply_output_reducers({"k": name}, list(perm)) != got:
                            failures.append({"reducer": name, "branches": branches, "perm": list(perm), "why": "order-sensitive"})
                            break
        if len(samples) < 3 and n == N:
            samples.append({"branches": branches})
try:
    apply_output_reducers({"k": "no_such_reducer"}, [{"k": 1}])
    failures.append({"why": "unknown reducer accepted"})
except ValueError:
    pass
cases += 1
done(cases, nontrivial, failures, f"<= {N} branches, values in {VALS} or missing, all permutations for sum/max/min", samples)
