"""C12 event-store clause, bounded cross-check of the contract C12/event-store/get_events_for_workflow on the real SQLite file:
every event of the workflow after `from_sequence` is returned, in sequence order, and nothing of another workflow.
Bound: N events of one workflow interleaved with M of another, N in {0, 1, 999, 1000, 1001, 2500} (thorough: + 10001)."""
from _b import *
from stabilize.events import SqliteEventStore
import shutil
import tempfile

from stabilize.events.base import EventMetadata, EventType, create_workflow_event

tier = sys.argv[1] if len(sys.argv) > 1 else "quick"
failures, cases, nontrivial, samples = [], 0, 0, []
for n in [0, 1, 999, 1000, 1001, 2500] + ([10001] if tier == "thorough" else []):
    scratch = tempfile.mkdtemp(prefix="c12_es_")
    es = SqliteEventStore(f"sqlite:///{scratch}/events.db", create_tables=True)
    try:
        evs = []
        for i in range(n):
            evs.append(create_workflow_event(event_type=EventType.CONTEXT_UPDATED, workflow_id="w1", version=1, data={"i": i}, metadata=EventMetadata(correlation_id="w1")))
            if i % 3 == 0:
                evs.append(create_workflow_event(event_type=EventType.CONTEXT_UPDATED, workflow_id="w2", version=1, data={"i": i}, metadata=EventMetadata(correlation_id="w2")))
        stored = es.append_batch(evs) if evs else []
        mine = [e for e in stored if e.workflow_id == "w1"]
        for frm in sorted({0, 1, mine[len(mine) // 2].sequence if mine else 0, mine[-1].sequence if mine else 0}):
            cases += 1
            got = es.get_events_for_workflow("w1", from_sequence=frm)
            want = [e.sequence for e in mine if e.sequence > frm]
            nontrivial += len(want) > 1000
            if [e.sequence for e in got] != want or any(e.workflow_id != "w1" for e in got):
                failures.append({"events_of_workflow": n, "from_sequence": frm, "returned": len(got), "expected": len(want)})
        if len(samples) < 3:
            samples.append({"events_of_workflow": n})
    finally:
        shutil.rmtree(scratch, ignore_errors=True)
done(cases, nontrivial, failures, "one workflow's events interleaved with another's; N in 0, 1, 999, 1000, 1001, 2500 (+10001 thorough); 4 from_sequence values", samples)
