"""C19 read-back clause, bounded stand-in for the ASSEMBLY loops of SqliteWorkflowStore.retrieve / retrieve_stage (their row
converters are under contract; the loops over result sets with ORDER BY are not): a stored workflow is read back with the same
stages, dependencies, statuses, context, outputs and -- per stage -- the same tasks in the same order.
Bound: 1-3 stages, 0-3 tasks per stage, every creation order of the tasks ACROSS the stages (task ids are ULIDs: creation order
is id order) for <= 5 tasks in total (quick: seeded sample of the orders above 4), statuses / context values from small pools."""
import itertools
import random

from _b import *
from stabilize import SqliteWorkflowStore
from stabilize.models.stage import StageExecution
from stabilize.models.status import WorkflowStatus
from stabilize.models.task import TaskExecution
from stabilize.models.workflow import Workflow

tier = sys.argv[1] if len(sys.argv) > 1 else "quick"
seed = int(sys.argv[2]) if len(sys.argv) > 2 else 0
rnd = random.Random(seed)
store = SqliteWorkflowStore(connection_string="sqlite:///:memory:", create_tables=True)
STAT = [WorkflowStatus.NOT_STARTED, WorkflowStatus.RUNNING, WorkflowStatus.SUCCEEDED, WorkflowStatus.FAILED_CONTINUE]
CTX = [{}, {"k": 1, "n": None, "l": [1, "a", {"x": []}]}, {"u": "é中", "e": "", "d": {"a": {"b": [None]}}}]
failures, cases, nontrivial, samples = [], 0, 0, []


def view(stage):
    return {"ref": stage.ref_id, "status": stage.status.name, "req": sorted(stage.requisite_stage_ref_ids), "ctx": stage.context,
            "out": stage.outputs, "split": stage.split_conditions, "tasks": [(t.id, t.name, t.status.name, t.stage_start, t.stage_end) for t in stage.tasks]}


def run(counts, order, variant):
    """counts[i] tasks for stage i; `order` = the sequence of stage indexes in which the task objects are created"""
    global cases, nontrivial
    per = [[] for _ in counts]
    for n, si in enumerate(order):
        t = TaskExecution.create(name=f"s{si}.t{len(per[si])}", implementing_class="noop", stage_start=not per[si],
                                 stage_end=len(per[si]) == counts[si] - 1)
        t.status = STAT[(n + variant) % len(STAT)]
        per[si].append(t)
    stages = []
    for i, c in enumerate(counts):
        stages.append(StageExecution(ref_id=f"r{i}", type="t", name=f"S{i}", tasks=per[i], status=STAT[(i + variant) % len(STAT)],
                                     requisite_stage_ref_ids=set(f"r{j}" for j in range(i) if (variant >> j) & 1),
                                     context=dict(CTX[(i + variant) % len(CTX)]), outputs=dict(CTX[(i + 2 * variant + 1) % len(CTX)]),
                                     split_conditions={} if (i + variant) % 2 else {f"r{i + 1}": "x > 1"}))
    wf = Workflow.create(application="a", name="w", stages=stages, context=dict(CTX[variant % len(CTX)]))
    wf.status = STAT[variant % len(STAT)]
    want = {s.id: view(s) for s in wf.stages}
    store.store(wf)
    cases += 1
    nontrivial += len(order) > 1 and len(set(order)) > 1
    back = store.retrieve(wf.id)
    got = {s.id: view(s) for s in back.stages}
    case = {"tasks_per_stage": list(counts), "creation_order": list(order), "variant": variant}
    if back.status != wf.status or back.context != wf.context:
        failures.append(dict(case, why="workflow status / context", got=[back.status.name, back.context]))
    if got != want:
        bad = [k for k in want if got.get(k) != want[k]]
        failures.append(dict(case, why="retrieve(): stages read back differ", want=want[bad[0]] if bad else sorted(want), got=got.get(bad[0]) if bad else sorted(got)))
    for s in wf.stages:
        one = store.retrieve_stage(s.id)
        if view(one) != want[s.id]:
            failures.append(dict(case, why="retrieve_stage(): stage read back differs", want=want[s.id], got=view(one)))
            break
    # what is read back is a private copy: editing a loaded stage in place WITHOUT saving it changes nothing that a later read
    # of this or another workflow returns (no container shared between reads)
    for s in back.stages:
        s.context["__edited__"] = 1
        s.outputs["__edited__"] = 1
        s.split_conditions["__edited__"] = "true"
        s.requisite_stage_ref_ids.add("__edited__")
    again = store.retrieve(wf.id)
    dirty = [s.ref_id for s in again.stages if "__edited__" in s.context or "__edited__" in s.outputs or "__edited__" in s.split_conditions
             or "__edited__" in s.requisite_stage_ref_ids]
    if dirty:
        failures.append(dict(case, why="an unsaved in-place edit of a loaded stage shows up in a later read", stages=dirty))
    if len(samples) < 3 and len(set(order)) > 1:
        samples.append(case)


for ns in (1, 2, 3):
    for counts in itertools.product(range(4), repeat=ns):
        total = sum(counts)
        if total > (6 if tier == "thorough" else 5):
            continue
        base = [i for i, c in enumerate(counts) for _ in range(c)]
        orders = sorted(set(itertools.permutations(base)))
        if tier != "thorough" and len(orders) > 12:
            orders = rnd.sample(orders, 12)
        for order in orders:
            for variant in ((0, 3) if tier != "thorough" else (0, 1, 3, 6)):
                run(counts, order, variant)
done(cases, nontrivial, failures, "1-3 stages x 0-3 tasks (<= %d in total) x creation orders across stages (%s) x 2-4 value variants"
     % (6 if tier == "thorough" else 5, "all" if tier == "thorough" else "<= 12 seeded per shape"), samples)
