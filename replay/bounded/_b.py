"""Bounded stand-ins (never counted as proved): exhaustive / seeded comparison of a real function with its spec over a
stated finite domain.  Run under /venv/bin/python.  Output: one JSON line {cases, nontrivial, failures:[...], bound}."""
import json
import logging
import os
import sys

REPO = os.environ.get("PYVC_REPO", "/repo")
sys.path.insert(0, os.path.join(REPO, "src"))
logging.disable(logging.CRITICAL)


def done(cases, nontrivial, failures, bound, samples=None):
    print(json.dumps({"cases": cases, "nontrivial": nontrivial, "failures": failures[:5], "n_failures": len(failures), "bound": bound,
                      "samples": (samples or [])[:3]}, default=str))
    sys.exit(1 if failures else 0)
