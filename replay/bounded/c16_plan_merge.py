"""C16 planner-merge clause, bounded: what _plan_stage stores as the stage context, as a function of the merged ancestor
outputs A, the reducer results R, the stage's own context C and the reducer keys K:
  k in K            -> (A+R)[k]   (the stage's own value does not override a reducer key)
  k in C, not in K  -> C[k], except both lists: A[k] followed, in order, by each item of C[k] that the accumulated list does not hold yet
  k not in C        -> (A+R)[k]
Bound: keys {p, q}, values from {absent, 1, 2, [1], [1,2], [3], [1,1]} (a list with a repeated entry: two identical buffered signals), reducer on p or none, up to 2 upstream branches in every finished status that lets the join start."""
import itertools
from unittest.mock import MagicMock

from _b import *
from stabilize.handlers.start_stage.handler import StartStageHandler
from stabilize.models.stage import StageExecution
from stabilize.models.status import WorkflowStatus
from stabilize.models.task import TaskExecution
from stabilize.models.workflow import Workflow
from stabilize.reducers import apply_output_reducers

ABS = object()
VALS = [ABS, 1, 2, [1], [1, 2], [3], [1, 1]]
failures, cases, nontrivial, samples = [], 0, 0, []
# every upstream branch the join may start after -- SUCCEEDED, FAILED_CONTINUE, STOPPED, SKIPPED -- contributes what it published
tier = sys.argv[1] if len(sys.argv) > 1 else "quick"
SMALL = [VALS[0], VALS[1], VALS[3]]
DONE = ("SUCCEEDED", "FAILED_CONTINUE", "STOPPED", "SKIPPED")
BRANCHES = [([], ())] + [([{"p": 1}], (a,)) for a in DONE] + [([{"p": 1}, {"p": 2}], (a, b)) for a in DONE for b in DONE]


def mk(d):
    import copy

    return {k: copy.deepcopy(v) for k, v in d.items() if v is not ABS}


for ap, aq, cp, cq in itertools.product(VALS, repeat=4):
    for K in ({}, {"p": "sum"}, {"p": "collect"}):
        for branches, sts in BRANCHES:
            if not K and any(x != "SUCCEEDED" for x in sts):
                continue  # the branch status only matters where the branches are read again (the reducers)
            if tier != "thorough" and any(x != "SUCCEEDED" for x in sts) and not all(any(v is w for w in SMALL) for v in (ap, aq, cp, cq)):
                continue  # quick tier: the status dimension over the reduced value set
            A, C = mk({"p": ap, "q": aq}), mk({"p": cp, "q": cq})
            repo = MagicMock()
            repo.get_merged_ancestor_outputs.return_value = mk(A)
            ups = [StageExecution(ref_id=f"u{i}", type="t", name="u", outputs=dict(b), status=WorkflowStatus[st_])
                   for i, (b, st_) in enumerate(zip(branches, sts))]
            repo.get_upstream_stages.return_value = ups
            h = StartStageHandler(queue=MagicMock(), repository=repo)
            stage = StageExecution(ref_id="s", type="t", name="s", context=mk(C), output_reducers=dict(K),
                                   tasks=[TaskExecution.create(name="t", implementing_class="x", stage_start=True, stage_end=True)])
            wf = Workflow.create(application="a", name="w", stages=[stage])
            own = dict(stage.context)  # __post_init__ may add _output_reducers
            try:
                h._plan_stage(stage)
            except Exception as e:  # noqa
                failures.append({"A": A, "C": C, "K": K, "branches": branches, "why": f"raised {type(e).__name__}: {e}"})
                continue
            cases += 1
            R = apply_output_reducers(K, [b for b in branches if b]) if K else {}
            M = dict(mk(A))
            M.update(R)
            want = dict(M)
            for k, v in own.items():
                if k in K:
                    continue
                if k in M and isinstance(M[k], list) and isinstance(v, list):
                    want[k] = list(M[k])
                    for x in v:  # "avoiding duplicates": an item is appended unless the accumulated list already holds it
                        if x not in want[k]:
                            want[k].append(x)
                else:
                    want[k] = v
            got = {k: stage.context.get(k, ABS) for k in ("p", "q")}
            exp = {k: want.get(k, ABS) for k in ("p", "q")}
            nontrivial += bool(A) and bool(C)
            if got != exp:
                failures.append({"A": A, "C": C, "K": K, "branches": branches, "got": {k: (None if v is ABS else v) for k, v in got.items()},
                                 "want": {k: (None if v is ABS else v) for k, v in exp.items()}})
            if len(samples) < 3 and A and C and K:
                samples.append({"A": A, "C": C, "K": K, "branches": branches})
# ---- "the same result whatever order the branches FINISHED in": the same three branches (same rows, same row order) with every
# assignment of finish times; values whose sum depends on the order of addition (0.1 + 0.2 + 0.3), so that feeding the reducer in
# finish order shows
for name, vals in (("sum", (0.1, 0.2, 0.3)), ("sum", (1, 2, 3)), ("max", (0.1, 0.3, 0.2)), ("min", (3, 1, 2))):
    seen = {}
    for times in itertools.permutations((1000, 2000, 3000)):
        repo = MagicMock()
        repo.get_merged_ancestor_outputs.return_value = {}
        repo.get_upstream_stages.return_value = [StageExecution(ref_id=f"u{i}", type="t", name="u", outputs={"p": v}, status=WorkflowStatus.SUCCEEDED,
                                                                start_time=1, end_time=t) for i, (v, t) in enumerate(zip(vals, times))]
        h = StartStageHandler(queue=MagicMock(), repository=repo)
        stage = StageExecution(ref_id="s", type="t", name="s", context={}, output_reducers={"p": name},
                               tasks=[TaskExecution.create(name="t", implementing_class="x", stage_start=True, stage_end=True)])
        wf2 = Workflow.create(application="a", name="w", stages=[stage])  # (kept alive: the stage holds a weak reference)
        h._plan_stage(stage)
        cases += 1
        nontrivial += 1
        seen[times] = stage.context.get("p")
    if len(set(map(repr, seen.values()))) != 1:
        failures.append({"reducer": name, "branch_values": vals, "why": "the result depends on the order the branches finished in",
                         "by_finish_times": {str(k): v for k, v in seen.items()}})
done(cases, nontrivial, failures, "keys p,q; values absent/1/2/[1]/[1,2]/[3]/[1,1]; reducer none|sum|collect on p; 0-2 branches, each SUCCEEDED / FAILED_CONTINUE / STOPPED / SKIPPED; 3 branches x every finish order for sum / max / min", samples)
