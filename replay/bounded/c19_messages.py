"""C19 message clause, bounded cross-check of the message round-trip contracts on the real queue: every message class, built
with values of every JSON kind in every field that takes them (nested dicts / lists, keys that start with an underscore, empty
and unicode strings, None), is delivered with the same type and field values -- pushed directly (queue.push) and inside a
transaction (txn.push_message) -- and the two paths store the same payload.
Bound: every Message subclass x 4 value variants per field kind."""
import dataclasses
import enum
import json
import shutil
import tempfile
import typing

from _b import *
from stabilize import SqliteQueue, SqliteWorkflowStore
from stabilize.models.status import WorkflowStatus
from stabilize.queue import messages as M
from stabilize.queue.sqlite.serialization import deserialize_message, serialize_message

failures, cases, nontrivial, samples = [], 0, 0, []
METADATA = {"message_id", "created_at", "attempts", "max_attempts"}
DICTS = [{}, {"k": 1, "_private": "kept?", "nested": {"_trace": "abc", "ok": [1, {"_x": None, "é": "中"}]}}, {"list": [{"_a": 1}, [], ""]}, {"n": None, "f": 1.5, "b": False}]
STRS = ["", "x", "é中  ", "_leading"]


def value_for(f, variant):
    t = str(f.type)
    if "dict" in t:
        return dict(DICTS[variant % len(DICTS)])
    if "list" in t:
        return [STRS[variant % len(STRS)], "b"]
    if "WorkflowStatus" in t:
        return list(WorkflowStatus)[variant % len(list(WorkflowStatus))]
    if "bool" in t:
        return bool(variant % 2)
    if "int" in t:
        return variant
    if "float" in t:
        return variant + 0.5
    if "str" in t:
        return STRS[variant % len(STRS)] if "None" in t or f.default is not dataclasses.MISSING else f"v{variant}"
    return None


classes = list(M.MESSAGE_TYPES.values())
scratch = tempfile.mkdtemp(prefix="c19_msg_")
try:
    url = f"sqlite:///{scratch}/q.db"
    store = SqliteWorkflowStore(url, create_tables=True)
    q = SqliteQueue(url, table_name="queue_messages")
    q._create_table()
    for cls in sorted(classes, key=lambda c: c.__name__):
        for variant in range(4):
            kw = {}
            for f in dataclasses.fields(cls):
                if f.name in METADATA or not f.init:
                    continue
                v = value_for(f, variant)
                if v is not None or "None" in str(f.type):
                    kw[f.name] = v
            try:
                msg = cls(**kw)
            except Exception:
                continue
            cases += 1
            nontrivial += any(isinstance(v, dict) and v for v in kw.values())
            back = deserialize_message(cls.__name__, serialize_message(msg))
            diffs = {}
            if type(back) is not cls:
                diffs["__type__"] = type(back).__name__
            else:
                for f in dataclasses.fields(cls):
                    if f.name not in METADATA and getattr(msg, f.name) != getattr(back, f.name):
                        diffs[f.name] = [repr(getattr(msg, f.name))[:120], repr(getattr(back, f.name))[:120]]
            # both real paths through the table
            q.clear()
            q.push(cls(**kw))
            with store.transaction(q) as txn:
                txn.push_message(cls(**kw))
            rows = q._get_connection().execute("SELECT message_type, payload FROM queue_messages ORDER BY id").fetchall()
            if len(rows) != 2:
                diffs["__rows__"] = len(rows)
            else:
                pa, pb = json.loads(rows[0]["payload"]), json.loads(rows[1]["payload"])
                for k in set(pa) | set(pb):
                    if k not in METADATA and pa.get(k) != pb.get(k):
                        diffs["two-serialisers:" + k] = [repr(pa.get(k))[:100], repr(pb.get(k))[:100]]
                for r in rows:
                    d = deserialize_message(r["message_type"], r["payload"])
                    for f in dataclasses.fields(cls):
                        if f.name not in METADATA and (type(d) is not cls or getattr(d, f.name) != getattr(msg, f.name)):
                            diffs["delivered:" + f.name] = [repr(getattr(msg, f.name))[:100], repr(getattr(d, f.name, None))[:100]]
            if diffs:
                failures.append({"message": cls.__name__, "variant": variant, "differences": diffs})
            if len(samples) < 3 and kw:
                samples.append({"message": cls.__name__, "fields": {k: repr(v)[:60] for k, v in kw.items()}})
finally:
    shutil.rmtree(scratch, ignore_errors=True)
done(cases, nontrivial, failures, f"{len(classes)} message classes x 4 value variants per field (nested dicts with underscore keys, unicode, None, empty)", samples)
