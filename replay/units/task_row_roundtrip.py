"""Native replay of C19/store/task-row-roundtrip(-update): build the REAL TaskExecution from the counter-model, store it with
the real upsert_task into a real SQLite database created from the real schema (into an empty table, or over an existing row
of the same id and version for the UPDATE branch), read the row back with the real row_to_task and compare the fields.
exit 0: round-trips (spurious model); exit 1: a field differs (violation reproduced); 3: harness error."""
import json
import os
import sqlite3
import sys

sys.path.insert(0, os.path.join(os.path.dirname(os.path.abspath(__file__)), ".."))
from native import build  # noqa: E402

FIELDS = ["id", "name", "implementing_class", "status", "start_time", "end_time", "stage_start", "stage_end", "loop_start", "loop_end",
          "task_exception_details"]


def main(path):
    spec = json.load(open(path))
    task = build(spec["args"]["task"])
    existing = "update" in spec["obligation"]
    from stabilize.models.status import WorkflowStatus
    from stabilize.models.task import TaskExecution
    from stabilize.persistence.sqlite.converters import row_to_task
    from stabilize.persistence.sqlite.helpers import upsert_task
    from stabilize.persistence.sqlite.schema import create_tables  # noqa

    conn = sqlite3.connect(":memory:")
    conn.row_factory = sqlite3.Row
    try:
        create_tables(conn)
    except TypeError:
        from stabilize.persistence.sqlite import schema

        schema.create_tables(conn)
    conn.execute("PRAGMA foreign_keys=OFF")
    if task.task_exception_details is None:
        task.task_exception_details = {}
    if existing:
        # a row of this task as some earlier store left it: different flags, same id and version
        old = TaskExecution.create(name="old", implementing_class="old", stage_start=not task.stage_start, stage_end=not task.stage_end)
        old.id, old.version = task.id, 0
        old.loop_start, old.loop_end = not task.loop_start, not task.loop_end
        old.status = WorkflowStatus.NOT_STARTED
        upsert_task(conn, old, "stage-1")
        task.version = 0
    else:
        task.version = 0
    upsert_task(conn, task, "stage-1")
    row = conn.execute("SELECT * FROM task_executions WHERE id = ?", (task.id,)).fetchone()
    back = row_to_task(row)
    diffs = {}
    for f in FIELDS:
        a, b = getattr(task, f), getattr(back, f)
        if a != b:
            diffs[f] = [repr(a), repr(b)]
    print(json.dumps({"obligation": spec["obligation"], "branch": "UPDATE" if existing else "INSERT", "task": repr(task)[:300], "differences": diffs}))
    return 1 if diffs else 0


if __name__ == "__main__":
    try:
        sys.exit(main(sys.argv[1]))
    except SystemExit:
        raise
    except BaseException as e:  # noqa
        import traceback

        print(json.dumps({"harness_error": f"{type(e).__name__}: {e}", "trace": traceback.format_exc(limit=6)}))
        sys.exit(3)
