"""Native replay of the store_stage contract (C04 / C06 / C07, both implementations): from the counter-model take the row the
database holds for the stage (present?, version, status) and the stage object the caller saves (in-memory version, status,
expected_phase); create a real SQLite store, put the row in that state, run the REAL store_stage (transactional or plain) and
check the compare-and-swap contract natively:
  - the save succeeds only if the row's version equals the in-memory version (and its status equals expected_phase if given);
  - on success the row holds version + 1 and the in-memory status; on failure ConcurrencyError is raised and the row is untouched.
exit 0: the contract holds on this input (spurious model); exit 1: violated (reproduced); 3: harness error."""
import json
import os
import sqlite3
import sys
import tempfile

sys.path.insert(0, os.path.join(os.path.dirname(os.path.abspath(__file__)), ".."))
from native import build  # noqa: E402

STATUSES = ["NOT_STARTED", "RUNNING", "PAUSED", "SUSPENDED", "SUCCEEDED", "FAILED_CONTINUE", "TERMINAL", "CANCELED", "REDIRECT", "STOPPED",
            "SKIPPED", "BUFFERED"]


def main(path):
    spec = json.load(open(path))
    from stabilize.errors import ConcurrencyError
    from stabilize.models.stage import StageExecution
    from stabilize.models.status import WorkflowStatus
    from stabilize.models.task import TaskExecution
    from stabilize.models.workflow import Workflow
    from stabilize.persistence.connection import ConnectionManager, SingletonMeta
    from stabilize.persistence.sqlite import SqliteWorkflowStore

    row = spec["rows"]["stage_executions"]
    st_arg = spec["args"]["stage"]["fields"]
    mem_version = int(st_arg.get("version") or 0)
    mem_status = st_arg.get("status", {}).get("member", "RUNNING") if isinstance(st_arg.get("status"), dict) else "RUNNING"
    exp = spec["args"].get("expected_phase")
    db_version = int(row["version"]["int"])
    db_status = row["status"]["text"] if row["status"]["text"] in STATUSES else "NOT_STARTED"
    if exp is not None:
        # strings of the model are arbitrary codes: keep what matters, whether expected_phase equals the row's status
        exp = db_status if exp == row["status"]["text"] else (exp if exp in STATUSES and exp != db_status else "SOME_OTHER_PHASE")
    if not row["exists"]:
        print(json.dumps({"obligation": spec["obligation"], "skipped": "the model's row does not exist: the INSERT path is not replayed here"}))
        return 0
    tmp = tempfile.mkdtemp(prefix="cas_replay_", dir=os.environ.get("TMPDIR", "/tmp"))
    try:
        SingletonMeta.reset(ConnectionManager)
        url = "sqlite:///" + os.path.join(tmp, "s.db")
        repo = SqliteWorkflowStore(url, create_tables=True)
        stage = StageExecution(ref_id="a", type="t", name="a", context={"k": 0},
                               tasks=[TaskExecution.create(name="t", implementing_class="x", stage_start=True, stage_end=True)])
        wf = Workflow.create(application="r", name="r", stages=[stage])
        repo.store(wf)
        con = sqlite3.connect(os.path.join(tmp, "s.db"))
        con.execute("UPDATE stage_executions SET version = ?, status = ? WHERE id = ?", (db_version, db_status, stage.id))
        con.commit()
        mine = repo.retrieve(wf.id).stages[0]
        mine.version = mem_version
        mine.status = WorkflowStatus[mem_status] if mem_status in STATUSES else WorkflowStatus.RUNNING
        mine.context["k"] = 1
        for t in mine.tasks:  # keep the task rows consistent so that only the stage guard decides
            t.version = con.execute("SELECT version FROM task_executions WHERE id = ?", (t.id,)).fetchone()[0]
        outcome, err = "saved", None
        try:
            if "AtomicTransaction" in spec["unit"]:
                class Q:  # the queue is not used by store_stage
                    pass

                from stabilize import SqliteQueue

                q = SqliteQueue(url, table_name="queue_messages")
                q._create_table()
                with repo.transaction(q) as txn:
                    txn.store_stage(mine, expected_phase=exp) if exp is not None else txn.store_stage(mine)
            else:
                repo.store_stage(mine, expected_phase=exp) if exp is not None else repo.store_stage(mine)
        except ConcurrencyError as e:
            outcome, err = "ConcurrencyError", str(e)[:120]
        after = con.execute("SELECT version, status, context FROM stage_executions WHERE id = ?", (stage.id,)).fetchone()
        con.close()
        should_succeed = (db_version == mem_version) and (exp is None or exp == db_status)
        problems = []
        if outcome == "saved" and not should_succeed:
            problems.append("a save based on a stale version / wrong phase was accepted")
        if outcome == "saved" and (after[0] != db_version + 1 or after[1] != mine.status.name):
            problems.append(f"after a successful save the row holds version {after[0]} status {after[1]}")
        if outcome == "ConcurrencyError" and (after[0] != db_version or after[1] != db_status or '"k": 1' in (after[2] or "")):
            problems.append("a refused save changed the row")
        if outcome == "ConcurrencyError" and should_succeed:
            problems.append("a save on the current version (and phase) was refused")
        print(json.dumps({"obligation": spec["obligation"], "database_row": {"version": db_version, "status": db_status},
                          "saved_object": {"version": mem_version, "status": mem_status, "expected_phase": exp}, "outcome": outcome,
                          "row_after": {"version": after[0], "status": after[1]}, "problems": problems}))
        return 1 if problems else 0
    finally:
        import shutil

        shutil.rmtree(tmp, ignore_errors=True)


if __name__ == "__main__":
    try:
        sys.exit(main(sys.argv[1]))
    except SystemExit:
        raise
    except BaseException as e:  # noqa
        import traceback

        print(json.dumps({"harness_error": f"{type(e).__name__}: {e}", "trace": traceback.format_exc(limit=8)}))
        sys.exit(3)
