"""Native replay of C19/messages: build the REAL message from the counter-model, run the real serialize_message /
deserialize_message (and the transactional serialiser's payload where it exists) and compare every non-metadata field.
exit 0: the real code round-trips this message (spurious model); exit 1: a field differs (violation reproduced); 3: harness error."""
import dataclasses
import json
import os
import sys

sys.path.insert(0, os.path.join(os.path.dirname(os.path.abspath(__file__)), ".."))
from native import build  # noqa: E402  (also puts PYVC_REPO/src on sys.path)

METADATA = {"message_id", "created_at", "attempts", "max_attempts"}


def main(path):
    spec = json.load(open(path))
    msg = build(spec["args"]["message"])
    from stabilize.queue.sqlite.serialization import deserialize_message, serialize_message

    payload = serialize_message(msg)
    back = deserialize_message(type(msg).__name__, payload)
    diffs = {}
    if back is None or type(back) is not type(msg):
        diffs["__type__"] = [type(msg).__name__, type(back).__name__]
    else:
        for f in dataclasses.fields(msg):
            if f.name in METADATA:
                continue
            a, b = getattr(msg, f.name), getattr(back, f.name)
            if a != b or type(a) is not type(b):
                diffs[f.name] = [repr(a), repr(b)]
    print(json.dumps({"obligation": spec["obligation"], "message": repr(msg)[:400], "delivered": repr(back)[:400], "differences": diffs}))
    return 1 if diffs else 0


if __name__ == "__main__":
    try:
        sys.exit(main(sys.argv[1]))
    except SystemExit:
        raise
    except BaseException as e:  # noqa
        import traceback

        print(json.dumps({"harness_error": f"{type(e).__name__}: {e}", "trace": traceback.format_exc(limit=6)}))
        sys.exit(3)
