"""Scenario for C05/final-status: stage context failPipeline=false + a terminally failing task => the stage ends STOPPED
and the workflow is reported SUCCEEDED although a top-level stage did not finish in a continuable status.
exit 1 = workflow SUCCEEDED with a STOPPED top-level stage."""
from _common import *

repo, q, p, r = fresh({})
wf = Workflow.create(application="t", name="p", stages=[st("a", "fail", ctx={"failPipeline": False}), st("b", "success")])
repo.store(wf)
r.start(wf)
p.process_all(timeout=5)
w = repo.retrieve(wf.id)
stopped = [s.ref_id for s in w.stages if s.status.name == "STOPPED"]
finish(w.status.name == "SUCCEEDED" and bool(stopped), f"workflow={w.status.name} stages={[(s.ref_id, s.status.name) for s in w.stages]}")
