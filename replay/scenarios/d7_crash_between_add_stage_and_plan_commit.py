"""Scenario for C01/RES/StartStage.synthetic-stages-inside-the-plan-commit: a stage whose builder creates a before-stage at plan
time.  _plan_stage persists the synthetic stage with repository.add_stage (its own commit) BEFORE the plan commit that stores the
planned parent and pushes the start messages.  A worker killed in between leaves: parent RUNNING without tasks, a NOT_STARTED
synthetic child, nothing queued.  StartStage's zombie re-plan fires only for "no tasks AND no synthetic stages", and the recovery
sweep can only send StartStage -- so the parent's own planning is never repeated: its tasks (built in memory by the builder, never stored) are lost.
exit 1 = after restart, recovery and draining the queue the outcome differs from the uninterrupted run -- the workflow hangs, or,
as observed, the parent is reported SUCCEEDED although its main task never ran (violation reproduced)."""
from _common import *
from stabilize.models.stage.enums import SyntheticStageOwner
from stabilize.stages.builder import StageDefinitionBuilder, get_default_factory


class WithSetupStageBuilder(StageDefinitionBuilder):
    @property
    def type(self):
        return "withsetup"

    def build_tasks(self, stage):
        return [TaskExecution.create(name="main", implementing_class="success", stage_start=True, stage_end=True)]

    def before_stages(self, stage, graph):
        setup = StageExecution.create_synthetic(type="test", name="setup", parent=stage, owner=SyntheticStageOwner.STAGE_BEFORE)
        setup.tasks = [TaskExecution.create(name="s", implementing_class="success", stage_start=True, stage_end=True)]
        graph.add(setup)


get_default_factory().register(WithSetupStageBuilder())


class Crash(BaseException):
    pass


def build():
    return Workflow.create(application="t", name="p", stages=[StageExecution(ref_id="a", type="withsetup", name="a", context={})])


def snapshot(repo, wf):
    w = repo.retrieve(wf.id)
    return w.status.name, sorted((s.name, s.status.name, [t.status.name for t in s.tasks]) for s in w.stages)


repo, q, p, r = fresh()
wf = build()
repo.store(wf)
r.start(wf)
p.process_all(timeout=10)
ref = snapshot(repo, wf)

repo, q, p, r = fresh()
wf = build()
repo.store(wf)
r.start(wf)
orig = type(repo).add_stage
armed = [True]


def add_then_die(self, s):
    orig(self, s)
    if armed[0]:
        armed[0] = False
        raise Crash()


type(repo).add_stage = add_then_die
try:
    p.process_all(timeout=10)
except Crash:
    pass
type(repo).add_stage = orig
mid = snapshot(repo, wf)
import sqlite3  # noqa: E402

con = sqlite3.connect(DB.replace("sqlite:///", ""))
con.execute("UPDATE queue_messages SET locked_until = NULL, deliver_at = datetime('now', 'utc', '-1 minute')")
con.commit()
con.close()
from stabilize.recovery import recover_on_startup  # noqa: E402

p2, r2, _ = setup_stabilize(repo, q)
recover_on_startup(repo, q)
p2.process_all(timeout=10)
recover_on_startup(repo, q)
p2.process_all(timeout=10)
end = snapshot(repo, wf)
obs = f"uninterrupted: {ref}; right after the kill between add_stage and the plan commit: {mid}; after restart + recovery (twice) + drain: {end}, queue={q.size()}"
finish(ref[0] == "SUCCEEDED" and end != ref, obs)
