"""Scenario for C01/T6/AddMultiInstance: the handler commits "parent stored + message processed", then adds the new instance
stage (second commit) and then pushes its StartStage (third commit).  A worker killed after the first commit loses the dynamic
instance for good: the message is already marked processed, so its redelivery is acknowledged without running the handler.
exit 1 = after the crash and restart the instance that the uninterrupted run creates and runs does not exist (violation reproduced)."""
from _common import *
from stabilize.models.multi_instance import MultiInstanceConfig
from stabilize.queue.messages import AddMultiInstance

RAN = {"reference": [], "crashed": []}
RUN = ["reference"]
GATE = {"open": False}


class Gate(Task):
    """stays RUNNING (polls) until the gate opens, so the parent is live while the instance is added"""

    def execute(self, stage):
        if stage.context.get("_mi_instance_index"):
            RAN[RUN[0]].append(stage.ref_id)
            return TaskResult.success()
        if GATE["open"]:
            return TaskResult.success()
        return TaskResult.running()


class Crash(BaseException):
    pass


def build():
    s = StageExecution(ref_id="mi", type="test", name="mi", context={}, mi_config=MultiInstanceConfig(allow_dynamic=True),
                       tasks=[TaskExecution.create(name="t", implementing_class="gate", stage_start=True, stage_end=True)])
    return Workflow.create(application="t", name="p", stages=[s])


def run(crash):
    GATE["open"] = False
    repo, q, p, r = fresh({"gate": Gate})
    wf = build()
    repo.store(wf)
    r.start(wf)
    for _ in range(6):
        p.process_one()
    stage = repo.retrieve(wf.id).stages[0]
    q.push(AddMultiInstance(execution_type=wf.type.value, execution_id=wf.id, stage_id=stage.id, instance_context={"item": 1}))
    if crash:
        orig = type(repo).add_stage

        def dying(self, s):
            raise Crash()

        type(repo).add_stage = dying
        try:
            for _ in range(50):
                if not p.process_one():
                    break
        except Crash:
            pass
        type(repo).add_stage = orig
        import sqlite3

        con = sqlite3.connect(DB.replace("sqlite:///", ""))
        con.execute("UPDATE queue_messages SET locked_until = NULL, deliver_at = datetime('now', 'utc', '-1 minute')")
        con.commit()
        con.close()
        p, r, _ = setup_stabilize(repo, q, extra_tasks={"gate": Gate})
        from stabilize.recovery import recover_on_startup

        recover_on_startup(repo, q)
    GATE["open"] = True
    con = None
    import sqlite3

    con = sqlite3.connect(DB.replace("sqlite:///", ""))
    con.execute("UPDATE queue_messages SET deliver_at = datetime('now', 'utc', '-1 minute')")
    con.commit()
    con.close()
    p.process_all(timeout=15)
    w = repo.retrieve(wf.id)
    return w, [s.ref_id for s in w.stages], q.size()


w1, stages1, _ = run(False)
RUN[0] = "crashed"
w2, stages2, qsize = run(True)
parent = [s for s in w2.stages if s.ref_id == "mi"][0]
obs = (f"uninterrupted: stages={stages1} instance ran={RAN['reference']} workflow={w1.status.name}; killed after the first commit of "
       f"AddMultiInstance: stages={stages2} instance ran={RAN['crashed']} parent _mi_instance_count={parent.context.get('_mi_instance_count')} "
       f"workflow={w2.status.name} queue={qsize}")
finish(len(stages1) == 2 and sorted(stages1) != sorted(stages2), obs)
