"""Scenario for C09/retention (cleanup_old_processed_messages keeps every record younger than the retention period): the
processed record of a message handled a moment ago must survive a retention sweep with a retention of hours; otherwise the
next delivery of that message (still unacknowledged, or redelivered after a lock expiry) runs its handler again.
The record's time is written by SQLite (`datetime('now')` = 'YYYY-MM-DD HH:MM:SS'), the cutoff by Python
(`isoformat()` = 'YYYY-MM-DDTHH:MM:SS+00:00'); compared as text, every record dated on the cutoff's day is 'older'.
exit 1 = a record written seconds ago is deleted by a sweep whose retention is an hour or more (violation reproduced)."""
from datetime import UTC, datetime, timedelta

from _common import *

repo, q, p, r = fresh()
now = datetime.now(UTC)
# a retention (>= 1 h) whose cutoff falls on today's UTC date; in the first hour of a day use the record of 'yesterday 23:59:30'
hours = 1.0
conn = repo._get_connection()
if (now - timedelta(hours=hours)).date() == now.date():
    repo.mark_message_processed("m-fresh", handler_type="RunTask", execution_id="e")
    age = "0 s"
else:
    ts = (now - timedelta(minutes=(now.hour * 60 + now.minute) + 1)).strftime("%Y-%m-%d %H:%M:%S")
    conn.execute("INSERT INTO processed_messages (message_id, processed_at, handler_type, execution_id) VALUES ('m-fresh', ?, 'RunTask', 'e')", (ts,))
    conn.commit()
    hours = 24.0
    age = "under 1 h 1 min"
before = repo.is_message_processed("m-fresh")
removed = repo.cleanup_old_processed_messages(max_age_hours=hours)
after = repo.is_message_processed("m-fresh")
obs = f"record of age {age}, retention {hours} h: processed before sweep={before}, sweep removed {removed}, processed after sweep={after}"
finish(before and not after, obs)
