"""Scenario for C01/REC/contract/push.StartTask.only-for-a-planned-stage: a worker killed between the claim commit and the plan
commit of StartStage(b) (b depends on a; b's tasks are declared up front) -- after restart the recovery sweep starts b's first
task directly, so the planning step (merge of the ancestors' outputs into the stage context) never runs.
exit 1 = b's task saw different upstream data than in the uninterrupted run (violation reproduced)."""
from _common import *

SEEN = {}


class Produce(Task):
    def execute(self, stage):
        return TaskResult.success(outputs={"from_a": 1})


class Observe(Task):
    def execute(self, stage):
        SEEN.setdefault(RUN[0], []).append(stage.context.get("from_a"))
        return TaskResult.success()


class Crash(BaseException):
    pass


RUN = ["reference"]


def build():
    return Workflow.create(application="t", name="p", stages=[st("a", "produce"), st("b", "observe", ["a"])])


# uninterrupted reference run
repo, q, p, r = fresh({"produce": Produce, "observe": Observe})
wf = build()
repo.store(wf)
r.start(wf)
p.process_all(timeout=10)
ref_status = repo.retrieve(wf.id).status.name

# crashing run: die between the claim commit and the plan commit of StartStage(b)
RUN[0] = "crashed"
repo, q, p, r = fresh({"produce": Produce, "observe": Observe})
from stabilize.handlers.start_stage.handler import StartStageHandler  # noqa: E402

orig_plan = StartStageHandler._plan_stage
armed = [True]


def dying_plan(self, stage):
    if stage.ref_id == "b" and armed[0]:
        armed[0] = False
        raise Crash()
    return orig_plan(self, stage)


StartStageHandler._plan_stage = dying_plan
wf = build()
repo.store(wf)
r.start(wf)
try:
    p.process_all(timeout=10)
except Crash:
    pass
StartStageHandler._plan_stage = orig_plan
mid = repo.retrieve(wf.id)
b_mid = [s for s in mid.stages if s.ref_id == "b"][0]
# restart: fresh processor, every lock expired, recovery sweep, drain
import sqlite3  # noqa: E402

con = sqlite3.connect(DB.replace("sqlite:///", ""))
con.execute("UPDATE queue_messages SET locked_until = NULL, deliver_at = datetime('now', 'utc', '-1 minute')")
con.commit()
con.close()
from stabilize.recovery import recover_on_startup  # noqa: E402

p2, r2, _ = setup_stabilize(repo, q, extra_tasks={"produce": Produce, "observe": Observe})
recover_on_startup(repo, q)
p2.process_all(timeout=10)
w = repo.retrieve(wf.id)
obs = (f"reference: workflow={ref_status} b saw from_a={SEEN.get('reference')}; after crash between claim and plan of b "
       f"(b was {b_mid.status.name}, tasks {[t.status.name for t in b_mid.tasks]}): workflow={w.status.name} "
       f"b saw from_a={SEEN.get('crashed')}")
finish(SEEN.get("crashed") != SEEN.get("reference") or w.status.name != ref_status, obs)
