"""Scenario for C14/attempts-carried: a task that always fails with a transient error must go terminal after the
documented maximum number of attempts.  exit 1 = it is still being retried after well more than max_attempts runs."""
import time

from _common import *
from stabilize import TransientError


class AlwaysTransient(Task):
    n = 0

    def execute(self, stage):
        AlwaysTransient.n += 1
        raise TransientError("nope", retry_after=0.0)


repo, q, p, r = fresh({"at": AlwaysTransient})
# make the back-off negligible so that the bound, not the clock, ends the run
import stabilize.handlers.run_task.result as res_mod
from datetime import timedelta

orig = res_mod.get_backoff_period
res_mod.get_backoff_period = lambda *a, **k: timedelta(seconds=0)
import stabilize.handlers.run_task.handler as h_mod

h_mod.get_backoff_period = res_mod.get_backoff_period
wf = Workflow.create(application="t", name="p", stages=[st("s", "at")])
repo.store(wf)
r.start(wf)
t0 = time.time()
while time.time() - t0 < 20 and AlwaysTransient.n <= 25:
    try:
        if not p.process_one():
            time.sleep(0.02)
    except Exception:
        pass
    w = repo.retrieve(wf.id)
    if w.status.is_complete:
        break
w = repo.retrieve(wf.id)
obs = f"executions={AlwaysTransient.n} workflow={w.status.name} stage={w.stages[0].status.name} max_attempts=10"
finish(AlwaysTransient.n > 12 and not w.status.is_complete, obs)
