"""Scenario for C16 (current-iteration clause): chain a -> b -> c where c jumps back to a once and a's output changes per
iteration.  On the second iteration b must see the value a produced in THAT iteration.
exit 1 = b saw the first iteration's value again (violation reproduced)."""
from _common import *

COUNT = {"a": 0, "c": 0}
SEEN = []


class A(Task):
    def execute(self, stage):
        COUNT["a"] += 1
        return TaskResult.success(outputs={"v": COUNT["a"]})


class B(Task):
    def execute(self, stage):
        SEEN.append(stage.context.get("v"))
        return TaskResult.success()


class C(Task):
    def execute(self, stage):
        COUNT["c"] += 1
        if COUNT["c"] == 1:
            return TaskResult.jump_to("a")
        return TaskResult.success()


repo, q, p, r = fresh({"ta": A, "tb": B, "tc": C})
wf = Workflow.create(application="t", name="p", stages=[st("a", "ta"), st("b", "tb", ["a"]), st("c", "tc", ["b"])])
repo.store(wf)
r.start(wf)
p.process_all(timeout=15)
w = repo.retrieve(wf.id)
obs = f"workflow={w.status.name} a ran {COUNT['a']}x producing v=1,2; b saw v={SEEN} (expected [1, 2])"
finish(SEEN != [1, 2] and len(SEEN) == 2, obs)
