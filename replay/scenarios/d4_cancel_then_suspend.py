"""Scenario for C06/T3/process_result: a cancel handled by another worker while the task executes, the task then
returns suspend().  exit 1 = a durable status change leaves a completed status (CANCELED -> SUSPENDED/RUNNING)."""
from _common import *

state = {}


class SuspendAfterCancel(Task):
    def execute(self, stage):
        if not state.get("done"):
            state["done"] = True
            state["runner"].cancel(state["wf"], user="op", reason="test")  # second worker handles the cancel meanwhile
            for _ in range(10):
                try:
                    if not state["p2"].process_one():
                        break
                except Exception:
                    break
        return TaskResult.suspend()


repo, q, p, r = fresh({"sac": SuspendAfterCancel})
conn = repo._get_connection()
conn.execute("CREATE TABLE audit(seq INTEGER PRIMARY KEY AUTOINCREMENT, tbl TEXT, id TEXT, old TEXT, new TEXT)")
conn.execute("CREATE TRIGGER t_s AFTER UPDATE OF status ON stage_executions BEGIN INSERT INTO audit(tbl,id,old,new) "
             "VALUES('stage', NEW.ref_id, OLD.status, NEW.status); END")
conn.execute("CREATE TRIGGER t_t AFTER UPDATE OF status ON task_executions BEGIN INSERT INTO audit(tbl,id,old,new) "
             "VALUES('task', NEW.name, OLD.status, NEW.status); END")
conn.commit()
wf = Workflow.create(application="t", name="p", stages=[st("a", "sac")])
repo.store(wf)
state.update(runner=r, wf=wf, p2=p)
r.start(wf)
try:
    p.process_all(timeout=8)
except Exception:
    pass
from stabilize.models.status import can_transition

rows = [tuple(x) for x in conn.execute("select tbl,id,old,new from audit where old!=new order by seq")]
bad = [x for x in rows if not can_transition(WorkflowStatus[x[2]], WorkflowStatus[x[3]])]
finish(bool(bad), f"illegal durable transitions: {bad}; all: {rows}")
