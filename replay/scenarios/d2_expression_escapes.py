"""Scenario for C20 expression totality: evaluate_expression must return or raise ExpressionError for any text and
context; an OR-split condition that raises anything else crashes CompleteStage (the stage goes TERMINAL) instead of
skipping the branch.  exit 1 = another exception type escapes."""
from _common import *
from stabilize.expressions import ExpressionError, evaluate_expression

bad = []
for text, ctx in (("-x", {"x": None}), ("-x", {"x": "s"}), ("x[y]", {"x": {}, "y": []}), ("x[y]", {"x": {"a": 1}, "y": {}})):
    try:
        evaluate_expression(text, ctx)
    except ExpressionError:
        pass
    except BaseException as e:  # noqa
        bad.append(f"{text!r} with {ctx!r}: {type(e).__name__}: {e}")
finish(bool(bad), "; ".join(bad) or "only ExpressionError")
