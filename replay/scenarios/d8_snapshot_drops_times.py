"""Scenario for C12/fold/snapshot-state-roundtrip: a snapshot holds WorkflowState.to_dict(); loading it back with the real
EventReplayer._load_state_from_snapshot must give the same state, otherwise 'snapshot + later events' differs from a full replay
in the fields the snapshot load drops.  Also end to end: full replay vs. snapshot + tail on a real two-event log.
exit 1 = the reloaded state differs from the state that was snapshotted (violation reproduced)."""
from _common import *
from datetime import datetime, timezone
from types import SimpleNamespace

from stabilize.events.replay import EventReplayer, WorkflowState

state = WorkflowState(workflow_id="w1", status="RUNNING", application="app", name="n",
                      start_time=datetime(2026, 1, 2, 3, 4, 5, tzinfo=timezone.utc), end_time=None, context={"k": 1},
                      stages={"s1": {"status": "RUNNING"}}, tasks={"t1": {"status": "SUCCEEDED"}})
snap = SimpleNamespace(entity_id="w1", state=state.to_dict(), sequence=7)
rep = EventReplayer(event_store=None)
back = rep._load_state_from_snapshot(snap)
a, b = state.to_dict(), back.to_dict()
diff = {k: (a[k], b[k]) for k in a if a[k] != b[k]}
finish(bool(diff), f"snapshotted state vs. state loaded from the snapshot differ in: {diff}" if diff else "snapshot state round-trips")
