"""Scenario for C13/T4/SkipStage: an optimistic-lock conflict inside the skip transaction (injected once) must not
leave a STAGE_SKIPPED event for a skip that did not commit.
exit 1 = more STAGE_SKIPPED events than committed skips (a phantom event survived the rolled-back transaction)."""
from _common import *
from stabilize.errors import ConcurrencyError
from stabilize.events import SqliteEventStore, configure_event_sourcing, reset_event_bus, reset_event_recorder
from stabilize.persistence.sqlite.transaction import AtomicTransaction
from stabilize.queue.messages import SkipStage

reset_event_bus()
reset_event_recorder()
repo, q, p, r = fresh({})
es = SqliteEventStore(DB, create_tables=True)
configure_event_sourcing(es)
wf = Workflow.create(application="t", name="p", stages=[st("a", "success"), st("b", "success", ["a"])])
repo.store(wf)
orig = AtomicTransaction.store_stage
state = {"n": 0}


def flaky(self, stage, expected_phase=None):
    if stage.ref_id == "a" and state["n"] == 0:
        state["n"] += 1
        raise ConcurrencyError("injected optimistic-lock conflict")
    return orig(self, stage, expected_phase)


AtomicTransaction.store_stage = flaky
a = [s for s in wf.stages if s.ref_id == "a"][0]
q.push(SkipStage(execution_type="PIPELINE", execution_id=wf.id, stage_id=a.id))
for _ in range(3):
    try:
        if not p.process_one():
            break
    except Exception:
        pass
w = repo.retrieve(wf.id)
sa = [s for s in w.stages if s.ref_id == "a"][0]
skipped_events = [e for e in es.get_events_for_workflow(wf.id) if e.event_type.name == "STAGE_SKIPPED" and e.entity_id == sa.id]
committed = 1 if sa.status.name == "SKIPPED" else 0
finish(len(skipped_events) > committed, f"stage a={sa.status.name} STAGE_SKIPPED events={len(skipped_events)} committed skips={committed}")
