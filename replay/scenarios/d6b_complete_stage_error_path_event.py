"""Scenario for C13/T4/CompleteStage (event-with-completion): the error branch of CompleteStageHandler commits TERMINAL for
the stage; a completion committed by the stage-completion step must not lack its event.
Fault injection: planning of after-stages raises (stands for a stage builder that fails).
exit 1 = the stage is durably TERMINAL and the event log holds no completion/failure event for it."""
from _common import *
from stabilize.events import EventQuery, EventType, SqliteEventStore, configure_event_sourcing, reset_event_bus, reset_event_recorder

reset_event_bus()
reset_event_recorder()
repo, q, p, r = fresh({})
es = SqliteEventStore(DB, create_tables=True)
configure_event_sourcing(es)
from stabilize.handlers.complete_stage.handler import CompleteStageHandler


def boom(self, stage):
    raise RuntimeError("after-stage builder failed")


CompleteStageHandler._plan_after_stages = boom
wf = Workflow.create(application="t", name="p", stages=[st("a", "success")])
repo.store(wf)
r.start(wf)
p.process_all(timeout=5)
w = repo.retrieve(wf.id)
stage = w.stages[0]
evs = [e for e in es.get_events_for_workflow(wf.id) if getattr(e, "entity_id", None) == stage.id]
kinds = [e.event_type.name for e in evs]
has_completion = any(k in ("STAGE_COMPLETED", "STAGE_FAILED", "STAGE_SKIPPED") for k in kinds)
finish(stage.status.is_complete and not has_completion, f"stage={stage.status.name} events_for_stage={kinds}")
