"""Scenario for C07/rollback-restores (several stores of one object in one transaction): a stage saved twice inside one
transaction that then rolls back must be back at the version the database still holds; otherwise its next save presents a
version the row never had (and, after a foreign commit that happens to reach that version, overwrites it silently).
exit 1 = after the rollback the in-memory version differs from the database's (violation reproduced)."""
from _common import *

repo, q, p, r = fresh()
wf = Workflow.create(application="t", name="p", stages=[st("a", "success")])
repo.store(wf)
stage = repo.retrieve(wf.id).stages[0]
v0 = stage.version


class Boom(Exception):
    pass


try:
    with repo.transaction(q) as txn:
        stage.context["k"] = 1
        txn.store_stage(stage)
        stage.context["k"] = 2
        txn.store_stage(stage)
        raise Boom()
except Boom:
    pass
db = repo.retrieve(wf.id).stages[0]
obs = f"version read {v0}; after two stores in one rolled-back transaction: in memory {stage.version}, in the database {db.version} (context k={db.context.get('k')})"
finish(stage.version != db.version, obs)
