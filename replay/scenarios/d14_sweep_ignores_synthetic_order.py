"""Scenario for C10 (a sweep during a healthy run changes nothing): a parent stage with a pre-declared before-stage and a
pre-declared after-stage.  A recovery sweep is run before every delivery step of an otherwise healthy run.
exit 1 = with the sweeps the parent's task body starts before the before-stage finished, or the after-stage starts before the
parent's task finished (the order an uninterrupted run guarantees is lost) -- violation reproduced."""
from _common import *
from stabilize.models.stage.enums import SyntheticStageOwner
from stabilize.recovery import recover_on_startup

ORDER = {"plain": [], "swept": []}
RUN = ["plain"]


def mk(name):
    class T_(Task):
        def execute(self, stage):
            ORDER[RUN[0]].append(name)
            return TaskResult.success()
    return T_


def build():
    parent = StageExecution(ref_id="p", type="test", name="p", context={},
                            tasks=[TaskExecution.create(name="main", implementing_class="main", stage_start=True, stage_end=True)])
    before = StageExecution.create_synthetic(type="test", name="before", parent=parent, owner=SyntheticStageOwner.STAGE_BEFORE)
    before.tasks = [TaskExecution.create(name="b", implementing_class="before", stage_start=True, stage_end=True)]
    after = StageExecution.create_synthetic(type="test", name="after", parent=parent, owner=SyntheticStageOwner.STAGE_AFTER)
    after.tasks = [TaskExecution.create(name="a", implementing_class="after", stage_start=True, stage_end=True)]
    return Workflow.create(application="t", name="w", stages=[parent, before, after])


def run(sweep):
    repo, q, p, r = fresh({"main": mk("main"), "before": mk("before"), "after": mk("after")})
    wf = build()
    repo.store(wf)
    r.start(wf)
    for _ in range(200):
        if sweep:
            recover_on_startup(repo, q)
        if not p.process_one():
            if q.size() == 0:
                break
            import sqlite3

            con = sqlite3.connect(DB.replace("sqlite:///", ""))
            con.execute("UPDATE queue_messages SET deliver_at = datetime('now', 'utc', '-1 minute')")
            con.commit()
            con.close()
    w = repo.retrieve(wf.id)
    return w.status.name, sorted((s.name, s.status.name) for s in w.stages)


plain = run(False)
RUN[0] = "swept"
swept = run(True)
obs = f"healthy run: order {ORDER['plain']} -> {plain}; same run with a sweep before every delivery: order {ORDER['swept']} -> {swept}"
finish(ORDER["plain"] == ["before", "main", "after"] and (ORDER["swept"] != ORDER["plain"] or swept != plain), obs)
