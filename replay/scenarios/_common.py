"""Helpers for replay scenarios: drive the REAL engine of the working tree (run under /venv/bin/python)."""
import logging
import os
import sys
import tempfile

REPO = os.environ.get("PYVC_REPO", "/repo")
sys.path.insert(0, REPO)
sys.path.insert(0, os.path.join(REPO, "src"))
logging.disable(logging.CRITICAL)
_TMP = tempfile.mkdtemp(prefix="stab_replay_", dir=os.environ.get("TMPDIR", "/tmp"))
DB = "sqlite:///" + os.path.join(_TMP, "p.db")
import atexit  # noqa: E402
import shutil  # noqa: E402

atexit.register(shutil.rmtree, _TMP, True)  # scratch database of the scenario: removed when the script ends

from stabilize import SqliteQueue, SqliteWorkflowStore, TaskResult  # noqa: E402
from stabilize.models.stage import StageExecution  # noqa: E402
from stabilize.models.status import WorkflowStatus  # noqa: E402
from stabilize.models.task import TaskExecution  # noqa: E402
from stabilize.models.workflow import Workflow  # noqa: E402
from stabilize.tasks.interface import SkippableTask, Task  # noqa: E402
from tests.conftest import setup_stabilize  # noqa: E402


def fresh(extra=None):
    from stabilize.persistence.connection import ConnectionManager, SingletonMeta

    SingletonMeta.reset(ConnectionManager)
    repo = SqliteWorkflowStore(DB, create_tables=True)
    q = SqliteQueue(DB, table_name="queue_messages")
    q._create_table()
    q.clear()
    p, r, _ = setup_stabilize(repo, q, extra_tasks=extra or {})
    return repo, q, p, r


def st(ref, impl, reqs=(), ctx=None, n=1):
    return StageExecution(ref_id=ref, type="test", name=ref, context=ctx or {}, requisite_stage_ref_ids=set(reqs),
                          tasks=[TaskExecution.create(name=f"t{i}", implementing_class=impl, stage_start=(i == 0), stage_end=(i == n - 1))
                                 for i in range(n)])


def cleanup():
    import shutil

    shutil.rmtree(_TMP, ignore_errors=True)


def finish(violated: bool, what: str):
    import json

    print(json.dumps({"violated": violated, "observation": what}))
    cleanup()
    sys.exit(1 if violated else 0)
