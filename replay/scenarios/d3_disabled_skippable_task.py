"""Scenario for C05/T5/StartTask: a disabled SkippableTask must not wedge its stage.
exit 1 = the engine goes quiet with the stage still RUNNING (violation reproduced)."""
from _common import *


class Skip(SkippableTask):
    def is_enabled(self, stage):
        return False

    def do_execute(self, stage):
        return TaskResult.success()

    def execute(self, stage):
        return TaskResult.success()


repo, q, p, r = fresh({"skip": Skip})
wf = Workflow.create(application="t", name="p", stages=[st("a", "skip"), st("b", "success", ["a"])])
repo.store(wf)
r.start(wf)
p.process_all(timeout=5)
w = repo.retrieve(wf.id)
obs = f"workflow={w.status.name} stages={[(s.ref_id, s.status.name, [t.status.name for t in s.tasks]) for s in w.stages]} queue={q.size()}"
finish(q.size() == 0 and not w.status.is_complete, obs)
