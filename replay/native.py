"""Native replay: rebuild concrete inputs from a counter-model, run the REAL function of the working tree
under /venv/bin/python and evaluate the same postcondition natively.

usage: /venv/bin/python replay/native.py <replay.json>      exit 0: postcondition holds natively (spurious model)
                                                            exit 1: real code violates the postcondition
                                                            exit 3: replay harness error
"""
import dataclasses
import importlib
import json
import os
import sys
import traceback

REPO = os.environ.get("PYVC_REPO", "/repo")
sys.path.insert(0, os.path.join(REPO, "src"))


def resolve(q):
    m, a = q.split(":")
    obj = importlib.import_module(m)
    for part in a.split("."):
        obj = getattr(obj, part)
    return obj


def find_enum(name):
    for mod in ("stabilize.models.status", "stabilize.models.stage.enums", "stabilize.dag.readiness", "stabilize.events.base",
                "stabilize.models.stage", "stabilize.models.workflow"):
        try:
            m = importlib.import_module(mod)
        except Exception:
            continue
        if hasattr(m, name):
            return getattr(m, name)
    raise KeyError(name)


class Opaque:
    """stands for a context value that is not JSON-like (VOther in the model): only its truthiness is modelled"""

    def __init__(self, truthy):
        self.truthy = truthy

    def __bool__(self):
        return self.truthy

    def __repr__(self):
        return f"<opaque truthy={self.truthy}>"


def build(v):
    if isinstance(v, list):
        return [build(x) for x in v]
    if isinstance(v, dict):
        if "__enum__" in v:
            return getattr(find_enum(v["__enum__"]), v["member"])
        if "__tuple__" in v:
            return tuple(build(x) for x in v["__tuple__"])
        if "__set__" in v:
            return set(build(x) for x in v["__set__"])
        if "__class__" in v:
            q = v["__class__"]
            fields = {k: build(x) for k, x in v.get("fields", {}).items()}
            if ":" not in q:
                return fields
            cls = resolve(q)
            if dataclasses.is_dataclass(cls):
                init = {f.name for f in dataclasses.fields(cls) if f.init}
                kw = {k: x for k, x in fields.items() if k in init}
                for f in dataclasses.fields(cls):
                    if f.name in kw and isinstance(kw[f.name], list) and "set" in str(f.type):
                        kw[f.name] = set(kw[f.name])
                obj = cls(**kw)
                for k, x in fields.items():
                    if k not in init:
                        try:
                            setattr(obj, k, x)
                        except Exception:
                            pass
                return obj
            obj = cls.__new__(cls)
            for k, x in fields.items():
                setattr(obj, k, x)
            return obj
        if "__other__" in v:
            return Opaque(bool(v.get("truthy", True)))
        if "__opaque__" in v:
            return None
        return {k: build(x) for k, x in v.items()}
    return v


def implies(a, b):
    return (not a) or bool(b)


def iff(a, b):
    return bool(a) == bool(b)


def count(xs, f):
    return sum(1 for x in xs if f(x))


def forall(xs, f):
    return all(f(x) for x in xs)


def exists(xs, f):
    return any(f(x) for x in xs)


def main(path):
    spec = json.load(open(path))
    env = {"implies": implies, "iff": iff, "count": count, "forall": forall, "exists": exists}
    for k, q in spec.get("names", {}).items():
        env[k] = resolve(q)
    args = {k: build(v) for k, v in spec["args"].items()}
    fn = resolve(spec["func"])
    self_val = build(spec["self"]) if spec.get("self") is not None else None
    call_args = [args[n] for n in spec["arg_order"]]
    outcome, result, exc = "return", None, None
    try:
        result = fn(self_val, *call_args) if self_val is not None else fn(*call_args)
    except BaseException as e:  # noqa
        outcome, exc = "raise", e
    env.update(args)
    env["result"] = result
    env["exc"] = exc
    if self_val is not None:
        env["self"] = self_val
    report = {"obligation": spec["obligation"], "outcome": outcome, "result": repr(result)[:500],
              "exception": repr(exc)[:500] if exc is not None else None}
    violated = False
    if spec.get("allowed_raises") is not None and outcome == "raise":
        names = [c.__name__ for c in type(exc).__mro__]
        if not any(n in names for n in spec["allowed_raises"]):
            violated = True
            report["escaped"] = names[0]
    if spec.get("post") and (spec.get("when", "return") in ("any", outcome)):
        try:
            ok = bool(eval(spec["post"], env))
        except BaseException as e:  # noqa
            report["post_error"] = repr(e)
            print(json.dumps(report))
            return 3
        report["post_holds"] = ok
        violated = violated or not ok
    print(json.dumps(report))
    return 1 if violated else 0


if __name__ == "__main__":
    try:
        sys.exit(main(sys.argv[1]))
    except SystemExit:
        raise
    except BaseException:
        traceback.print_exc()
        sys.exit(3)
