import sys, time
sys.path.insert(0, "/verif")
from pyvc.verify import Unit, Obl, run_unit
from pyvc.registry import Registry

def names(I):
    st = I.module_global("stabilize.models.status", "WorkflowStatus")
    return {"S": st, "Phase": I.module_global("stabilize.dag.readiness", "PredicatePhase"),
            "JoinType": I.module_global("stabilize.models.stage.enums", "JoinType")}

CONT = "(u.status in (S.SUCCEEDED, S.FAILED_CONTINUE, S.SKIPPED, S.REDIRECT))"
U = Unit(prop="C03", name="C03/readiness", func="stabilize.dag.readiness:evaluate_readiness",
    params=[("stage", ("obj","StageExecution")), ("upstream_stages", ("list", ("opt", ("obj","StageExecution")))), ("jump_bypass", ("bool",))],
    names=names, registry=Registry(),
    obligations=[
      Obl("C03/readiness/bypass", "implies(jump_bypass, result.phase == Phase.READY)"),
      Obl("C03/readiness/n_of_m.sound",
          "implies(not jump_bypass and len(upstream_stages) > 0 and stage.join_type == JoinType.N_OF_M and stage.join_threshold > 0 and result.phase == Phase.READY,"
          f" count(upstream_stages, lambda u: u is not None and {CONT}) >= stage.join_threshold)",
          canary="implies(not jump_bypass and len(upstream_stages) > 0 and stage.join_type == JoinType.N_OF_M and stage.join_threshold > 0 and result.phase == Phase.READY,"
          f" count(upstream_stages, lambda u: u is not None and {CONT}) > stage.join_threshold)"),
      Obl("C03/readiness/and.sound",
          "implies(not jump_bypass and len(upstream_stages) > 0 and stage.join_type == JoinType.AND and result.phase == Phase.READY,"
          f" forall(upstream_stages, lambda u: u is None or {CONT}))"),
    ])
t=time.time()
r = run_unit(U)
print("paths", r.paths, "unsupported", r.unsupported, "error", r.error, "wall", round(time.time()-t,2))
from collections import Counter
print(Counter((x.name.split('#')[0], x.status, x.canary) for x in r.results))
for x in r.results:
    if x.status not in ("discharged",) and not x.canary: print(x.name, x.status, x.detail[:200])
