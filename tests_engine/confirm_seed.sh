#!/bin/sh
# usage: confirm_seed.sh <outdir> : run demo.py with and without patch.diff in the scratch worktree /tmp/wt_confirm
d=$1
export STABILIZE_SRC=/tmp/wt_confirm/src STABILIZE_ROOT=/tmp/wt_confirm
cd /tmp/wt_confirm && git checkout -q -- . && git apply $d/patch.diff || exit 9
PYTHONPATH=/tmp/wt_confirm/src:/tmp/wt_confirm timeout 1200 /venv/bin/python $d/demo.py >/tmp/demo_with.log 2>&1; a=$?
git checkout -q -- .
PYTHONPATH=/tmp/wt_confirm/src:/tmp/wt_confirm timeout 1200 /venv/bin/python $d/demo.py >/tmp/demo_without.log 2>&1; b=$?
echo "$d with_change_exit=$a without_change_exit=$b"
