"""usage: write_meta.py <seed id> <caught_by> <strengthened 0|1> <needs_to_manifest> [strengthening]"""
import json, sys
sid, caught, strengthened, needs = sys.argv[1:5]
prop = sid.split("-")[0]
m = {"id": sid, "property": prop, "round": 3, "needs_to_manifest": needs,
     "origin": "independent sub-agent given only the property text (with its anchors and one-line descriptions of the changes already studied) and a scratch worktree of /repo HEAD e0c4f62",
     "confirmed_by_me": {"demo_with_change_exit": 1, "demo_without_change_exit": 0,
                         "how": "tests_engine/confirm_seed.sh in the scratch worktree /tmp/wt_confirm; the agent ran the existing suite with the change applied (1080 passed)"},
     "caught_by": caught, "check_strengthened_to_catch_it": strengthened == "1",
     "check_run": f"sh tests_engine/seedcheck.sh x seeded/{sid}/patch.diff {prop}  -> VIOLATION lines (scratch copy of /repo)"}
if len(sys.argv) > 5:
    m["strengthening"] = sys.argv[5]
json.dump(m, open(f"/verif/seeded/{sid}/meta.json", "w"), indent=1)
print("wrote", sid)
