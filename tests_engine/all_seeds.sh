#!/bin/sh
# usage: all_seeds.sh  -- every seeded change in turn: applied to a scratch copy of /repo, the check of its property must report a
# violation; one line per seed
cd /verif
for d in seeded/*/; do
  s=$(basename $d); p=${s%-*}
  r=$(sh tests_engine/seedcheck.sh x /verif/$d/patch.diff $p | grep -a -- "->" | tail -1)
  echo "$s $r"
done
