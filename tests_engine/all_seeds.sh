#!/bin/sh
# usage: all_seeds.sh  -- apply every seeded change in turn to /repo, run the check of its property, undo; one line per seed
cd /verif
export PYVC_EVIDENCE_DIR=${TMPDIR:-/tmp}/seed_evidence   # keep the committed evidence of the clean tree
for d in seeded/*/; do
  s=$(basename $d); p=${s%-*}
  git -C /repo apply /verif/$d/patch.diff || { echo "$s PATCH-FAILS"; continue; }
  r=$(./check $p 2>&1 | grep -a -- "->" | tail -1)
  git -C /repo checkout -- .
  echo "$s $r"
done
