import sys, time
sys.path.insert(0, "/verif")
from pyvc.verify import Unit, Obl, run_unit
from contracts.hcommon import handler_unit
U = handler_unit("C02", "C02/CompleteTask", "stabilize.handlers.complete_task:CompleteTaskHandler", "CompleteTask", [])
t=time.time()
r = run_unit(U)
print("paths", r.paths, "unsupported", r.unsupported, "error", r.error, "wall", round(time.time()-t,2))
from pyvc.state import explore
from pyvc.verify import run_path
paths = explore(lambda st: run_path(U, st))
for st,(ctx,out) in paths:
    print(out, [ (e.kind, e.data.get('cls') or e.data.get('kind') or '') for e in st.effects])
print(sorted(r.assumptions))
