import sys, time
sys.path.insert(0, "/verif")
from collections import Counter
from pyvc.verify import run_unit
from contracts import handlers
import pyvc.verify as V
V._after_failure = lambda unit, ob, ctx, st, goal, r, outcome, t: None
which = sys.argv[1:] 
for mk in handlers.ALL:
    if which and mk.__name__ not in which: continue
    u = mk(); t=time.time()
    r = run_unit(u)
    print(mk.__name__, "paths", r.paths, "unsupported", r.unsupported, "error", (r.error or "")[:3000], "wall", round(time.time()-t,2))
    c = Counter((x.name.split('#')[0].split('/txn')[0].split('/store')[0], x.status) for x in r.results)
    for k,v in sorted(c.items()): print("   ", k, v)
    for x in r.results:
        if x.status != "discharged": print("   !!", x.name, x.status, x.detail[:200])
