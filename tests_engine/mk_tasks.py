import json,os,subprocess,sys,glob
props={json.loads(l)["id"]:json.loads(l) for l in open("/verif/properties.jsonl")}
ids=sys.argv[1:]
for pid in ids:
    wt=f"/tmp/seed3_{pid}"
    if not os.path.isdir(wt):
        subprocess.check_call(["git","-C","/repo","worktree","add","--detach",wt,"HEAD"],stdout=subprocess.DEVNULL,stderr=subprocess.DEVNULL)
    p=props[pid]
    done=[]
    for mp in sorted(glob.glob(f"/verif/seeded/{pid}-*/meta.json")):
        done.append(json.load(open(mp))["needs_to_manifest"].split(";")[0].split(": needs")[0])
    mech="\n".join(f"- {m['name']} ({m['where']})" for m in p["anchors"].get("mechanism",[]))
    state="\n".join(f"- {m['name']}: {m['meaning']} ({m['where']})" for m in p["anchors"].get("state",[]))
    out=f"/tmp/seed3_{pid}_out"
    os.makedirs(out,exist_ok=True)
    txt=f"""# Task

You are helping evaluate a verification tool. Work ONLY inside the directory {wt} (a scratch git worktree of the Python
project "stabilize", a message-driven DAG workflow engine; source under src/stabilize, tests under tests/) and write your
deliverables under {out}/. Do NOT read or write anything under /repo or /verif. Use /venv/bin/python (it has the project's
dependencies). IMPORTANT: make sure YOUR copy of the code is imported: run things as
`cd {wt} && PYTHONPATH={wt}/src:{wt} /venv/bin/python ...` and in demo programs read the source location from the
environment variable STABILIZE_SRC (default {wt}/src) and the repo root from STABILIZE_ROOT (default {wt}) and put both at the
front of sys.path before importing stabilize -- do not hard-code other paths. There is no network. Postgres is not available;
ignore tests parametrised with [postgres]. The test `test_cancel_stops_running_workflow` is timing-flaky on the unchanged
code (about 1 run in 8); ignore a failure of that one test if it also passes on a re-run.

The project is supposed to satisfy this property:

"{pid}: {p['title']}. {p['statement']}" ({p['quantifier']['text']})

Files the property is anchored in: {', '.join(p['anchors']['files'])}

State it talks about:
{state}

Mechanisms the property rests on:
{mech}

Already studied -- do NOT use these or close variants of them:
""" + "\n".join(f"- {d}" for d in done) + f"""

Your job: produce TWO independent, realistic code changes (call them A and B) to files under src/stabilize, each of which
BREAKS this property while (1) the code still imports/compiles and (2) the project's existing test suite still passes
(`cd {wt} && PYTHONPATH={wt}/src:{wt} /venv/bin/python -m pytest -x -q -p no:cacheprovider tests -k "not postgres"` -- run it
with each change applied separately). Each change should look like a plausible developer mistake, refactoring slip or
"optimisation" (a few lines), and should need something specific to manifest (a particular interleaving, crash point, field
value, graph shape or input) -- NOT something ordinary use would expose. Prefer places and mechanisms different from the
already-studied ones: other functions in the anchored files, other branches of the same handlers, helper functions they call,
two cooperating sites that each look fine alone. The two changes should be of different kinds and touch different functions.

For each change X in {{A, B}} deliver, under {out}/X/ :
 - patch.diff : `git diff` of the change against the worktree's HEAD (apply-able with `git apply`), containing ONLY that change;
 - demo.py : a small standalone program that exercises the REAL code (the tests show how stores, queues, handlers and workflows
   are built) and that FAILS (non-zero exit / assertion error) with the change applied and PASSES (exit 0) without it. It must
   demonstrate a genuine violation of the property statement as a user would observe it, not just a changed internal value;
 - notes.md : which files/lines changed, why it breaks the property, what specific circumstances it needs to manifest, and the
   exact commands you ran with their outcome (test suite with the change: must pass; demo with and without the change).
When done, run `git -C {wt} checkout -- .` so the worktree is clean again, and reply with a three-line summary per change.
"""
    open(os.path.join(wt,"TASK.md"),"w").write(txt)
    print(pid,len(txt),len(done))
