#!/bin/sh
# usage: seedcheck.sh <ignored> <patch.diff> <PROP...>  -- apply a seeded change to a SCRATCH COPY of /repo (never to /repo itself,
# so that checks running elsewhere are not disturbed), run the checks against the copy, remove the copy
patch=$2; shift 2 2>/dev/null
scratch=$(mktemp -d "${TMPDIR:-/tmp}/seedcheck_XXXXXX")
cp -r /repo/src /repo/tests "$scratch"/ || exit 9
(cd "$scratch" && git apply "$patch") || { rm -rf "$scratch"; exit 9; }
export PYVC_REPO="$scratch" PYVC_EVIDENCE_DIR="$scratch/evidence"
for p in "$@"; do
  (cd /verif && ./check $p 2>&1 | grep -E "VIOLATION|->" | cut -c1-220 | tail -4)
done
rm -rf "$scratch"
