#!/bin/sh
# usage: seedcheck.sh <PROP> <patch.diff> [more props...]   -- apply a seeded change to /repo, run the checks, undo it
patch=$2; shift 2 2>/dev/null
export PYVC_EVIDENCE_DIR=${TMPDIR:-/tmp}/seed_evidence
git -C /repo apply "$patch" || exit 9
for p in "$@"; do
  (cd /verif && ./check $p 2>&1 | grep -E "VIOLATION|->" | cut -c1-220 | tail -4)
done
git -C /repo checkout -- .
