#!/bin/sh
# usage: ingest_seed.sh <PROP> <agent out dir> <suffix for A> <suffix for B>
# copies an agent's two changes into /verif/seeded/<PROP>-<suffix>, confirms each demo with and without the change in the scratch
# worktree /tmp/wt_confirm, and runs the property's quick check against a scratch copy with the change applied
p=$1; out=$2; sa=$3; sb=$4
for pair in "A:$sa" "B:$sb"; do
  x=${pair%%:*}; s=${pair##*:}
  [ -f "$out/$x/patch.diff" ] || { echo "$p-$s: no patch in $out/$x"; continue; }
  d=/verif/seeded/$p-$s
  mkdir -p $d && cp $out/$x/patch.diff $out/$x/demo.py $out/$x/notes.md $d/ 2>/dev/null
  sh /verif/tests_engine/confirm_seed.sh $d
  echo "--- $p-$s check:"
  sh /verif/tests_engine/seedcheck.sh x $d/patch.diff $p | sed 's/.*obligation=//' | cut -c1-160 | sort | uniq -c | sort -rn | head -5
done
