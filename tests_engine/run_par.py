"""Run one handler unit with the parallel explorer (development helper)."""
import sys, time, multiprocessing as mp
sys.path.insert(0, "/verif")
from collections import Counter
NAME = sys.argv[1]
def work(prefixes):
    from contracts import handlers
    import pyvc.verify as V
    V._after_failure = lambda *a, **k: None
    u = [mk for mk in handlers.ALL if mk.__name__ == NAME][0]()
    r = V.run_unit(u, prefixes=prefixes, split_at=16 if prefixes is None else 0, budget=0 if prefixes is None else 24)
    return ([(x.name, x.status, x.detail[:150]) for x in r.results if not x.canary], r.frontier, r.paths, r.unsupported, r.error)
if __name__ == "__main__":
    t = time.time()
    with mp.get_context("fork").Pool(16) as pool:
        res, fr, paths, uns, err = work(None)
        while fr:
            outs = pool.map(work, [[p] for p in fr], chunksize=1)
            fr = []
            for r2, f2, p2, u2, e2 in outs:
                res += r2; fr += f2; paths += p2; uns = uns or u2; err = err or e2
    print(NAME, "paths", paths, "unsupported", uns, "error", (err or "")[:1500], "wall", round(time.time() - t, 1))
    c = Counter((n.split("#")[0].split("/txn")[0].split("/store")[0], s) for n, s, _ in res)
    for k, v in sorted(c.items()): print("   ", k, v)
    bad = Counter((n.split("#")[0], s) for n, s, _ in res if s != "discharged")
    for k, v in sorted(bad.items()): print("  !!", k, v)
