import sys, time
sys.path.insert(0, "/verif")
from collections import Counter
from pyvc.verify import run_unit
from contracts import replayunits
import pyvc.verify as V
V._after_failure = lambda unit, ob, ctx, st, goal, r, outcome, t: None
which = sys.argv[1:]
for u in replayunits.units():
    if which and not any(w in u.name for w in which): continue
    t=time.time(); r = run_unit(u)
    print(u.name, "paths", r.paths, "unsupported", r.unsupported, "error", (r.error or "")[:2500], "wall", round(time.time()-t,2))
    c = Counter((x.name.split('#')[0], x.status) for x in r.results)
    for k,v in sorted(c.items()):
        if k[1]!="discharged": print("   ", k, v)
