"""Execution state: path condition, heap records, effects, decision log (replay-based forking)."""
from __future__ import annotations

import copy
import itertools
from dataclasses import dataclass, field
from typing import Any

import z3

from .values import DictRec, ListRec, ObjRec, PathEnd

FEAS_TIMEOUT_MS = 4000


@dataclass
class Effect:
    kind: str
    data: dict = field(default_factory=dict)

    def __repr__(self) -> str:
        return f"<{self.kind} {self.data}>"

    def __deepcopy__(self, memo):
        return Effect(self.kind, copy.deepcopy(self.data, memo))


@dataclass
class CountRec:
    lid: int
    pidx: tuple
    hi: Any
    g: Any
    cond: Any
    term: Any


class DecisionCtx:
    def __init__(self, prefix=None):
        self.log: list[bool] = list(prefix or [])
        self.pos = 0
        self.alts: list[list[bool]] = []


class State:
    def __init__(self, prefix=None):
        self.pc: list = []
        self.assumed: set = set()  # indices of pc entries that are facts, not decisions
        self.objs: dict[int, ObjRec] = {}
        self.lists: dict[int, ListRec] = {}
        self.dicts: dict[int, DictRec] = {}
        self.effects: list[Effect] = []
        self.counts: list[CountRec] = []
        self.index_terms: dict[tuple, list] = {}  # (lid) -> explicit index paths used
        self.dctx: list[DecisionCtx] = [DecisionCtx(prefix)]
        self.next_id = 1
        self.assumptions: set[str] = set()  # assumed contracts / models actually used on this path
        self.inlined: set[str] = set()
        self.notes: list[str] = []
        self.ghost: dict = {}
        self.axioms: list = []  # facts that are definitional (not path decisions), also part of pc
        self._solver = None
        self._solver_n = 0
        self.solver_calls = 0

    # -- ids
    def new_id(self) -> int:
        self.next_id += 1
        return self.next_id - 1

    # -- path condition
    def assume(self, c) -> None:
        """Add a fact (axiom / model postcondition / precondition) -- as opposed to a branch decision."""
        if z3.is_true(c):
            return
        self.assumed.add(len(self.pc))
        self.pc.append(c)

    def _sync_solver(self):
        if self._solver is None:
            self._solver = z3.Solver()
            self._solver.set("timeout", FEAS_TIMEOUT_MS)
            self._solver_n = 0
        while self._solver_n < len(self.pc):
            f = self.pc[self._solver_n]
            # path feasibility is decided without the quantified facts: leaving hypotheses out can only keep a path that
            # is in fact infeasible (its obligations are then proved under the full path condition, vacuously), never
            # drop a feasible one -- and the quantifier-free checks are an order of magnitude faster
            if not _has_quantifier(f):
                self._solver.add(f)
            self._solver_n += 1
        return self._solver

    def feasible(self, c=None) -> bool:
        s = self._sync_solver()
        self.solver_calls += 1
        r = s.check(c) if c is not None else s.check()
        return r != z3.unsat

    def valid(self, c) -> bool:
        """pc => c (decided; unknown counts as not valid)."""
        s = self._sync_solver()
        self.solver_calls += 1
        return s.check(z3.Not(c)) == z3.unsat

    def branch(self, c) -> bool:
        c = z3.simplify(c)
        if z3.is_true(c):
            return True
        if z3.is_false(c):
            return False
        d = self.dctx[-1]
        if d.pos < len(d.log):
            dec = d.log[d.pos]
            d.pos += 1
            self.pc.append(c if dec else z3.Not(c))
            return dec
        can_t = self.feasible(c)
        can_f = self.feasible(z3.Not(c))
        if can_t and can_f:
            d.alts.append(d.log[: d.pos] + [False])
            dec = True
        elif can_t:
            dec = True
        elif can_f:
            dec = False
        else:
            raise PathEnd("infeasible")
        d.log.append(dec)
        d.pos += 1
        self.pc.append(c if dec else z3.Not(c))
        return dec

    def choose(self, label: str = "nd") -> bool:
        """Nondeterministic boolean choice (environment behaviour)."""
        from .values import fresh_bool

        return self.branch(fresh_bool(label))

    # -- effects
    def emit(self, _kind: str, **data) -> Effect:
        e = Effect(_kind, data)
        self.effects.append(e)
        return e

    def effects_of(self, *kinds):
        out = []

        def walk(effs):
            for e in effs:
                if e.kind == "foreach":
                    walk(e.data["body"])
                elif e.kind in kinds:
                    out.append(e)

        walk(self.effects)
        return out

    def __deepcopy__(self, memo):
        n = State.__new__(State)
        memo[id(self)] = n
        n.pc = list(self.pc)
        n.assumed = set(self.assumed)
        n.objs = copy.deepcopy(self.objs, memo)
        n.lists = copy.deepcopy(self.lists, memo)
        n.dicts = copy.deepcopy(self.dicts, memo)
        n.effects = copy.deepcopy(self.effects, memo)
        n.counts = list(self.counts)
        n.index_terms = {k: list(v) for k, v in self.index_terms.items()}
        n.dctx = [DecisionCtx()]
        # ids of a sub-state start above every id present in this state -- including records imported from earlier
        # sub-states under their own ids -- so that sibling sub-states can never re-issue an id that is already in use
        top = max([self.next_id] + [k + 1 for m in (self.objs, self.lists, self.dicts) for k in m if isinstance(k, int) and k < 50_000_000])
        n.next_id = top + 100000
        n.assumptions = self.assumptions  # shared on purpose: usage must propagate out of sub-runs
        n.inlined = self.inlined
        n.notes = self.notes
        n.ghost = copy.deepcopy(self.ghost, memo)
        n.axioms = list(self.axioms)
        n._solver = None
        n._solver_n = 0
        n.solver_calls = 0
        return n


def _has_quantifier(t) -> bool:
    stack = [t]
    seen = set()
    while stack:
        u = stack.pop()
        if u.get_id() in seen:
            continue
        seen.add(u.get_id())
        if z3.is_quantifier(u):
            return True
        if z3.is_app(u):
            stack.extend(u.children())
    return False


def explore(run, max_paths: int = 4000, prefixes=None, split_at: int = 0, budget: int = 0):
    """Enumerate all paths of `run(state)` by replaying decision prefixes.

    `run` must be deterministic given the decision log. Returns (list of (state, outcome), unexplored frontier)."""
    from . import values
    from collections import deque

    work = deque([list(p) for p in prefixes] if prefixes is not None else [[]])
    out = []
    while work:
        if (split_at and len(work) >= split_at) or (budget and len(out) >= budget):
            return out, [list(w) for w in work]
        prefix = work.popleft() if split_at else work.pop()
        values._fresh = itertools.count(1)
        st = State(prefix)
        try:
            res = run(st)
        except PathEnd:
            res = None
        work.extend(st.dctx[0].alts)
        if res is not None:
            out.append((st, res))
        if len(out) > max_paths:
            from .values import Unsupported

            raise Unsupported(f"more than {max_paths} paths")
    return out, []
