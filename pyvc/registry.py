"""Registry of assumed contracts (models) for code outside the verified functions."""
from __future__ import annotations


class Registry:
    def __init__(self):
        self.externals: dict[str, object] = {}
        self.methods: dict[tuple[str, str], object] = {}
        self.props: dict[tuple[str, str], object] = {}
        self.ctors: dict[str, object] = {}
        self.contracts: dict[str, object] = {}
        self.consts: dict[tuple[str, str], object] = {}
        self.loops: dict[tuple[str, int], object] = {}
        self.unroll: dict[tuple[str, int], int] = {}
        self.type_overrides: dict[tuple[str, str], tuple] = {}
        self.hooks_lazy: list = []
        self.hooks_setattr: list = []
        self.hooks_construct: list = []
        self.no_inherit: set[str] = set()

    def copy(self) -> "Registry":
        r = Registry()
        for k, v in self.__dict__.items():
            setattr(r, k, v.copy() if hasattr(v, "copy") else v)
        return r

    def configure(self, interp) -> None:
        interp.typer.overrides.update(self.type_overrides)

    # -- lookups used by the interpreter
    def external(self, qual: str):
        if qual in self.externals:
            return self.externals[qual]
        # match on the trailing attribute path as well ("time:time" vs "time.time")
        q2 = qual.replace(":", ".")
        for k, v in self.externals.items():
            if k.replace(":", ".") == q2:
                return v
        return None

    def method(self, cls: str, name: str, index=None, ci=None):
        if (cls, name) in self.methods:
            return self.methods[(cls, name)]
        if ci is not None and index is not None:
            for c in index.mro(ci):
                if (c.name, name) in self.methods:
                    return self.methods[(c.name, name)]
                for b in c.bases:
                    bn = b.split("[")[0].split(".")[-1]
                    if (bn, name) in self.methods:
                        return self.methods[(bn, name)]
        return None

    def prop_override(self, cls: str, name: str, index=None, ci=None):
        if (cls, name) in self.props:
            return self.props[(cls, name)]
        if ci is not None and index is not None:
            for c in index.mro(ci):
                if (c.name, name) in self.props:
                    return self.props[(c.name, name)]
        return None

    def constructor(self, ci):
        return self.ctors.get(ci.name)

    def call_contract(self, qual: str):
        c = self.contracts.get(qual)
        if c is None and "." in qual.split(":")[-1]:
            c = self.contracts.get("*." + qual.split(".")[-1])
        return c

    def const_override(self, module: str, name: str):
        return self.consts.get((module, name))

    def loop_spec(self, qual: str, node):
        return self.loops.get((qual, node.lineno)) or self.loops.get((qual, 0))

    def unroll_bound(self, qual: str, node) -> int:
        return self.unroll.get((qual, node.lineno), self.unroll.get((qual, 0), 0))

    def on_lazy_field(self, interp, obj, name, v) -> None:
        for h in self.hooks_lazy:
            h(interp, obj, name, v)

    def on_setattr(self, interp, obj, name, v) -> None:
        for h in self.hooks_setattr:
            h(interp, obj, name, v)

    def on_construct(self, interp, obj, ci) -> None:
        for h in self.hooks_construct:
            h(interp, obj, ci)

    # -- registration helpers
    def ext(self, *quals):
        def deco(fn):
            for q in quals:
                self.externals[q] = fn
            return fn
        return deco

    def meth(self, cls: str, *names):
        def deco(fn):
            for n in names:
                self.methods[(cls, n)] = fn
            return fn
        return deco

    def prop(self, cls: str, name: str):
        def deco(fn):
            self.props[(cls, name)] = fn
            return fn
        return deco
