"""Loops: concrete unrolling, and generic-element summaries of loops over symbolic sequences.

A loop over a symbolic list is executed once on a *generic* element (index g, 0 <= g < len).  All
paths of the body are enumerated (nested exploration on a copy of the state).  The per-path results
are then generalised over g: appended values become filter/map segments, element-field writes become
lambda updates, effects become ForEach effects, early exits pick the first index that exits.  This is
the inductive step done once, parametrically; its side conditions (writes only at index g, no read of
another element's written field, no loop-carried read) are checked, and a loop that violates them is
Unsupported (the obligations of the function are then undecided, never proved).
"""
from __future__ import annotations

import ast
import copy

import z3

from .ops import FALSE, TRUE
from .state import DecisionCtx, Effect
from .values import (DictRec, ListRec, ObjRec, PathEnd, PyRaise, SBool, SCarried, SDict, SElem, SEnum, SFloat, SInt,
                     SList, SNone, SObj, SOpt, SSet, SStr, STuple, SVal, Seg, Unsupported, V, fresh_int, fresh_name)


class SCarriedDelta(V):
    def __init__(self, name, old, delta):
        self.name, self.old, self.delta = name, old, delta


def assigned_names(stmts) -> set[str]:
    out: set[str] = set()

    class Vis(ast.NodeVisitor):
        def visit_FunctionDef(self, n):
            out.add(n.name)

        def visit_Lambda(self, n):
            return

        def visit_Name(self, n):
            if isinstance(n.ctx, (ast.Store, ast.Del)):
                out.add(n.id)

        def visit_ListComp(self, n):
            for g in n.generators:
                self.visit(g.iter)

        visit_SetComp = visit_GeneratorExp = visit_DictComp = visit_ListComp

    for s in stmts:
        Vis().visit(s)
    return out


class LoopMixin:
    # ================================================================== substitution
    def subst_value(self, v: V, g, w) -> V:
        def sub(t):
            return z3.substitute(t, (g, w))

        if isinstance(v, SBool):
            return SBool(sub(v.t))
        if isinstance(v, SInt):
            return SInt(sub(v.t))
        if isinstance(v, SFloat):
            return SFloat(sub(v.t))
        if isinstance(v, SStr):
            return SStr(sub(v.t), v.lit)
        if isinstance(v, SEnum):
            return SEnum(v.ecls, sub(v.t))
        if isinstance(v, SVal):
            return SVal(sub(v.t))
        if isinstance(v, SOpt):
            return SOpt(self.subst_value(v.inner, g, w), sub(v.isnone))
        if isinstance(v, SElem):
            e = SElem(v.lid, tuple(sub(i) for i in v.idx))
            self.note_index(e)
            return e
        if isinstance(v, STuple):
            return STuple([self.subst_value(i, g, w) for i in v.items])
        if isinstance(v, (SList, SSet)) and v.idx:
            return type(v)(v.lid, tuple(sub(i) for i in v.idx))
        if isinstance(v, SObj):
            rec = self.st.objs[v.oid]
            if rec.meta.get("generic_over") is not None:
                oid = self.st.new_id()
                nrec = ObjRec(rec.cls, rec.ci, {k: self.subst_value(x, g, w) for k, x in rec.fields.items()},
                              {k: x for k, x in rec.meta.items() if k != "generic_over"})
                self.st.objs[oid] = nrec
                return SObj(oid)
            return v
        if isinstance(v, SDict):
            rec = self.st.dicts[v.did]
            if rec.backing is not None:
                lid, name, idx = rec.backing
                return self.elem_field(SElem(lid, tuple(sub(i) for i in idx)), name, ("dict", rec.val_type or ("val",)))
            return v
        return v

    def first_index(self, lid, pidx, hi, g, cond, last=False):
        w = fresh_int("last" if last else "first")
        j = z3.Int(fresh_name("j"))
        self.st.assume(z3.And(w >= 0, w < hi, z3.substitute(cond, (g, w))))
        if last:
            self.st.assume(z3.ForAll([j], z3.Implies(z3.And(j > w, j < hi), z3.Not(z3.substitute(cond, (g, j))))))
        else:
            self.st.assume(z3.ForAll([j], z3.Implies(z3.And(j >= 0, j < w), z3.Not(z3.substitute(cond, (g, j))))))
        if lid is not None and lid >= 0:
            self.st.index_terms.setdefault(lid, []).append(tuple(pidx) + (w,))
        return w

    # ================================================================== iteration sources
    def iter_segments(self, it: V):
        """-> list of ('conc', [V]) | Seg, or raise Unsupported."""
        if isinstance(it, SOpt):
            if self.st.branch(it.isnone):
                self.raise_builtin("TypeError", "'NoneType' object is not iterable")
            it = it.inner
        if isinstance(it, STuple):
            return [("conc", list(it.items))]
        if isinstance(it, (SList, SSet)):
            return self.ops.segments(it)
        if isinstance(it, SDict):
            rec = self.st.dicts[it.did]
            if rec.kind == "conc":
                return [("conc", [k for k, _ in rec.items])]
            return [self._dict_seg(it, "keys")]
        if isinstance(it, SObj):
            rec = self.st.objs[it.oid]
            if rec.cls == "$range":
                lo, hi = rec.fields["lo"], rec.fields["hi"]
                los, his = z3.simplify(lo), z3.simplify(hi)
                if z3.is_int_value(los) and z3.is_int_value(his):
                    return [("conc", [SInt(z3.IntVal(i)) for i in range(los.as_long(), his.as_long())])]
                g = fresh_int("g")
                n = z3.If(hi > lo, hi - lo, 0)
                return [Seg(-1, (), n, g, TRUE, SInt(lo + g))]
            if rec.cls == "$enumerate":
                segs = self.iter_segments(rec.fields["it"])
                out = []
                base = 0
                for s in segs:
                    if isinstance(s, tuple):
                        out.append(("conc", [STuple([SInt(z3.IntVal(base + i)), x]) for i, x in enumerate(s[1])]))
                        base += len(s[1])
                    else:
                        if len(segs) != 1 or not z3.is_true(s.cond):
                            raise Unsupported("enumerate over a filtered symbolic list")
                        out.append(Seg(s.lid, s.pidx, s.hi, s.g, s.cond, STuple([SInt(s.g), s.mapv])))
                return out
            if rec.cls == "$cursor":  # iterating a cursor = iterating its fetchall()
                return self.iter_segments(self.call(self.getattr(it, "fetchall"), [], {}))
            if rec.cls == "$dict_items":
                d = rec.fields["d"]
                drec = self.st.dicts[d.did]
                if drec.kind == "conc":
                    mode = rec.fields["mode"]
                    if mode == "items":
                        return [("conc", [STuple([k, v]) for k, v in drec.items])]
                    if mode == "values":
                        return [("conc", [v for _, v in drec.items])]
                    return [("conc", [k for k, _ in drec.items])]
                return [self._dict_seg(d, rec.fields["mode"])]
        if isinstance(it, SVal):
            from . import builtins_model as BM

            return BM.val_iter_segments(self, it)
        from .values import SClass

        if isinstance(it, SClass) and self.index.is_enum(it.ci):
            return [("conc", [self.enum_member(it.ci, m) for m, _ in self.index.enum_members(it.ci)])]
        raise Unsupported(f"iteration over {type(it).__name__}")

    def _dict_seg(self, d, mode):
        """Iteration over a symbolic dict: the bound variable ranges over key codes, guarded by presence.  The key space
        is [0, hi) for a fresh hi beyond every present key (iteration order is unspecified, as for any dict we know
        nothing about)."""
        rec = self.st.dicts[d.did]
        g = fresh_int("g")
        hi = rec.meta.get("key_hi")
        if hi is None:
            hi = fresh_int("key_hi")
            k = z3.Int(fresh_name("k"))
            self.st.assume(hi >= 0)
            rec.meta["key_hi"] = hi
        # every present key lies in the range (re-stated for the current version of the presence array)
        k = z3.Int(fresh_name("k"))
        self.st.assume(z3.ForAll([k], z3.Implies(z3.Select(rec.has, k), z3.And(k >= 0, k < hi))))
        key = SStr(g)
        val = self.ops.unval(z3.Select(rec.vals, g), rec.val_type)
        mapv = key if mode == "keys" else (val if mode == "values" else STuple([key, val]))
        return Seg(-3, (), hi, g, z3.Select(rec.has, g), mapv)

    # ================================================================== for
    def exec_for(self, node, env) -> None:
        from .interp import _Break, _Continue

        it = self.eval(node.iter, env)
        segs = self.iter_segments(it)
        broke = False
        for s in segs:
            if isinstance(s, tuple):
                for item in s[1]:
                    self.assign_target(node.target, item, env)
                    try:
                        self.exec_block(node.body, env)
                    except _Continue:
                        continue
                    except _Break:
                        broke = True
                        break
                if broke:
                    break
            else:
                if self.summarise_segment(node.target, node.body, env, s):
                    broke = True
                    break
        if not broke:
            self.exec_block(node.orelse, env)

    def exec_while(self, node, env) -> None:
        from .interp import _Break, _Continue

        qual = self.call_stack[-1] if self.call_stack else "?"
        inv = self.registry.loop_spec(qual, node) if self.registry else None
        if inv is not None:
            return inv(self, node, env)
        bound = self.registry.unroll_bound(qual, node) if self.registry else 0
        n = 0
        while True:
            if not self.st.branch(self.cond(node.test, env)):
                self.exec_block(node.orelse, env)
                return
            if n >= max(bound, 0) and bound >= 0:
                if bound == 0:
                    raise Unsupported(f"while loop in {qual} at line {node.lineno} needs an invariant or an unroll bound")
                raise PathEnd("unroll bound")
            n += 1
            try:
                self.exec_block(node.body, env)
            except _Continue:
                continue
            except _Break:
                return

    # ================================================================== the summary
    def _new_consts(self, terms, known_names: set[str]):
        seen = {}
        stack = list(terms)
        visited = set()
        while stack:
            t = stack.pop()
            if t.get_id() in visited:
                continue
            visited.add(t.get_id())
            if z3.is_const(t) and t.decl().kind() == z3.Z3_OP_UNINTERPRETED:
                n = t.decl().name()
                if "!" in n and n not in known_names:
                    seen[n] = t
            elif z3.is_app(t):
                stack.extend(t.children())
            elif z3.is_quantifier(t):
                stack.append(t.body())
        return seen

    def summarise_segment(self, target, body, env, seg: Seg) -> bool:
        """Returns True if the loop was left through `break`."""
        from .interp import _Break, _Continue, _Return

        orig_st = self.st
        g, hi = seg.g, seg.hi
        level = len(seg.pidx)
        assigned = assigned_names(body)
        tnames = assigned_names([ast.Assign(targets=[target], value=ast.Constant(0))])
        carried = {}
        for n in assigned - tnames:
            cur = env.lookup(n)
            if cur is not None and not isinstance(cur, (SList, SSet, SDict, SObj)):
                carried[n] = cur
            elif cur is not None and isinstance(cur, (SList, SSet, SDict, SObj)):
                # rebinding a container variable inside the loop: treat as carried too
                if self._rebinds(body, n):
                    carried[n] = cur
        snap = copy.deepcopy((orig_st, env))
        known = set()
        import itertools as _it
        from . import values as _values

        # names created so far are those with counter below the current fresh counter
        cur_counter = next(_values._fresh)
        _values._fresh = _it.count(cur_counter + 1)

        def is_new(name: str) -> bool:
            try:
                return int(name.rsplit("!", 1)[1]) > cur_counter
            except (ValueError, IndexError):
                return False

        results = []
        work = [[]]
        guard = z3.And(g >= 0, g < hi, seg.cond, *[z3.And(fg >= 0, fg < fhi, fc) for (_fl, _fp, fhi, fg, fc) in seg.outer])
        try:
            max_counter = cur_counter + 1
            while work:
                prefix = work.pop()
                # same fresh-name sequence on every body path, so that a symbol created before a fork is the same symbol
                # on both sides of it
                _values._fresh = _it.count(cur_counter + 1)
                st2, env2 = copy.deepcopy(snap)
                for n, old in carried.items():
                    e2 = env2.find_env(n)
                    e2.vars[n] = SCarried(n, e2.vars[n])
                for r in st2.lists.values():
                    r.write_log, r.read_log = [], []
                for r in st2.dicts.values():
                    r.meta["mut"] = []
                for r in st2.objs.values():
                    r.meta["writes"] = []
                st2.dctx = [DecisionCtx(prefix)]
                st2.assume(guard)
                n_pc0 = len(st2.pc)
                n_cnt0 = len(st2.counts)
                n_eff0 = len(st2.effects)
                self.st = st2
                outcome = "normal"
                payload = None
                try:
                    item = seg.mapv
                    self.assign_target(target, item, env2)
                    self.exec_block(body, env2)
                except _Continue:
                    pass
                except _Break:
                    outcome = "break"
                except _Return as r:
                    outcome, payload = "return", r.value
                except PyRaise as pr:
                    outcome, payload = "raise", pr.exc
                except PathEnd:
                    work.extend(st2.dctx[0].alts)
                    max_counter = max(max_counter, next(_values._fresh))
                    continue
                work.extend(st2.dctx[0].alts)
                max_counter = max(max_counter, next(_values._fresh))
                delta = [c for i, c in enumerate(st2.pc) if i >= n_pc0 and i not in st2.assumed]
                facts = [c for i, c in enumerate(st2.pc) if i >= n_pc0 and i in st2.assumed]
                results.append(dict(outcome=outcome, payload=payload, cond=z3.And(*delta) if delta else TRUE, st=st2, env=env2,
                                    effects=st2.effects[n_eff0:], facts=facts, counts=st2.counts[n_cnt0:]))
                if len(results) > getattr(self.registry, "max_body_paths", 400):
                    raise Unsupported(f"loop body has more than {getattr(self.registry, 'max_body_paths', 400)} paths")
        finally:
            self.st = orig_st
            _values._fresh = _it.count(max_counter + 1)
        exits = [r for r in results if r["outcome"] != "normal"]
        normals = [r for r in results if r["outcome"] == "normal"]

        # generalise fresh symbols created inside the body to functions of g (Skolem functions)
        all_terms = [r["cond"] for r in results] + [f for r in results for f in r["facts"]]
        newc = {}
        for n, t in self._new_consts(all_terms, known).items():
            if is_new(n) and not n.startswith("g!"):  # (g!k are bound variables of inner iterations, not Skolem constants)
                newc[n] = t
        self._skolem = [(t, z3.Select(z3.Const(fresh_name("sk_" + n.split("!")[0]), z3.ArraySort(z3.IntSort(), t.sort())), g))
                        for n, t in newc.items()]
        self._is_new = is_new

        def gen(t):
            return z3.substitute(t, *self._skolem) if self._skolem else t

        # count terms defined inside the body (lengths of comprehensions over the current element's own lists, ...) keep
        # their meaning for the generic iteration: re-declare them in the outer state, generalised over g.  Fresh names
        # are a per-path sequence, so a name is imported only if every body path that creates it defines it the same way.
        cdefs: dict = {}
        for r in results:
            for c in r.get("counts", ()):
                sig = (c.lid, tuple(str(x) for x in c.pidx), str(c.hi), str(c.cond))
                cdefs.setdefault(str(c.term), {})[sig] = c
        for _name, sigs in cdefs.items():
            if len(sigs) != 1:
                continue
            c = next(iter(sigs.values()))
            if c.lid >= 0 and c.lid not in orig_st.lists and not any(c.lid in r["st"].lists for r in results):
                continue
            from .state import CountRec as _CR

            self._pending_counts = getattr(self, "_pending_counts", [])
            self._pending_counts.append((c, _CR(c.lid, tuple(gen(x) for x in c.pidx), gen(c.hi), c.g, gen(c.cond), gen(c.term))))
        if exits and seg.outer:
            raise Unsupported("early exit from a loop over a nested comprehension")
        if exits:
            ex_cond = gen(z3.Or(*[r["cond"] for r in exits]))
            n_ex = self.ops.count(seg.lid, seg.pidx, hi, g, z3.And(seg.cond, ex_cond))
            if self.st.branch(n_ex > 0):
                w = self.first_index(seg.lid, seg.pidx, hi, g, z3.And(seg.cond, ex_cond))
                self._apply_normal(seg, normals, env, carried, w, gen, level)
                self._flush_counts()
                item = self.subst_value(seg.mapv, g, w)
                self.assign_target(target, item, env)
                try:
                    self.exec_block(body, env)
                except _Continue:
                    raise PathEnd("exit iteration did not exit")
                except _Break:
                    return True
                raise PathEnd("exit iteration did not exit")
            else:
                j = z3.Int(fresh_name("j"))
                self.st.assume(z3.ForAll([j], z3.Implies(z3.And(j >= 0, j < hi, z3.substitute(seg.cond, (g, j))),
                                                         z3.Not(z3.substitute(ex_cond, (g, j))))))
        self._apply_normal(seg, normals, env, carried, hi, gen, level)
        self._flush_counts()
        return False

    def _flush_counts(self):
        for c, rec in getattr(self, "_pending_counts", []):
            if rec.lid < 0 or rec.lid in self.st.lists:
                self.st.counts.append(rec)
        self._pending_counts = []

    def _rebinds(self, body, name: str) -> bool:
        for s in body:
            for n in ast.walk(s):
                if isinstance(n, ast.Name) and n.id == name and isinstance(n.ctx, ast.Store):
                    return True
        return False

    def _import_value(self, v: V, src_st, g, memo=None) -> V:
        """Bring a value computed in a body sub-state into the current state (objects created there)."""
        memo = memo if memo is not None else {}
        if isinstance(v, SObj):
            if v.oid in self.st.objs:
                return v
            if v.oid in memo:
                return memo[v.oid]
            src = src_st.objs[v.oid]
            oid = self.st.new_id()
            out = SObj(oid)
            memo[v.oid] = out
            self.st.objs[oid] = ObjRec(src.cls, src.ci, {}, dict(src.meta))
            self.st.objs[oid].meta["generic_over"] = g
            for k, x in src.fields.items():
                self.st.objs[oid].fields[k] = self._import_value(x, src_st, g, memo)
            return out
        if isinstance(v, SOpt):
            return SOpt(self._import_value(v.inner, src_st, g, memo), self._gen(v.isnone))
        if isinstance(v, STuple):
            return STuple([self._import_value(i, src_st, g, memo) for i in v.items])
        if isinstance(v, (SList, SSet)):
            if v.lid in self.st.lists:
                return v
            if ("list", v.lid) in memo:
                return type(v)(memo[("list", v.lid)], v.idx)
            src = src_st.lists[v.lid]
            if src.kind == "conc":
                lid = self.st.new_id()
                self.st.lists[lid] = ListRec("conc", items=[self._import_value(i, src_st, g, memo) for i in src.items])
                return type(v)(lid)
            if src.kind == "base":
                # a symbolic list created by the body for the generic iteration (e.g. the tasks of a row loaded there):
                # its arrays stand for one arbitrary iteration
                lid = self.st.new_id()
                memo[("list", v.lid)] = lid
                nrec = copy.deepcopy(src)
                nrec.meta["generic_over"] = g
                nrec.write_log, nrec.read_log = [], []
                self.st.lists[lid] = nrec
                return type(v)(lid, v.idx)
            raise Unsupported("derived list created inside a summarised loop body escapes the loop")
        if isinstance(v, SDict):
            if v.did in self.st.dicts:
                return v
            src = src_st.dicts[v.did]
            did = self.st.new_id()
            self.st.dicts[did] = DictRec(src.kind, [(self._import_value(k, src_st, g, memo), self._import_value(x, src_st, g, memo)) for k, x in src.items],
                                         self._gen(src.vals) if src.vals is not None else None, self._gen(src.has) if src.has is not None else None,
                                         src.backing, src.val_type, {})
            return SDict(did)
        if isinstance(v, SBool):
            return SBool(self._gen(v.t))
        if isinstance(v, SInt):
            return SInt(self._gen(v.t))
        if isinstance(v, SStr):
            return SStr(self._gen(v.t), v.lit)
        if isinstance(v, SEnum):
            return SEnum(v.ecls, self._gen(v.t))
        if isinstance(v, SVal):
            return SVal(self._gen(v.t))
        if isinstance(v, SElem):
            return SElem(v.lid, tuple(self._gen(i) for i in v.idx))
        return v

    def _gen(self, t):
        return z3.substitute(t, *self._skolem) if self._skolem else t

    def _depends_on(self, v: V, g) -> bool:
        terms = []

        def collect(x):
            if isinstance(x, (SBool, SInt, SStr, SEnum, SVal, SFloat)):
                terms.append(x.t)
            elif isinstance(x, SOpt):
                terms.append(x.isnone)
                collect(x.inner)
            elif isinstance(x, SElem):
                terms.extend(x.idx)
            elif isinstance(x, STuple):
                for i in x.items:
                    collect(i)
            elif isinstance(x, SObj):
                rec = self.st.objs.get(x.oid)
                if rec is not None and rec.meta.get("generic_over") is not None:
                    terms.append(rec.meta["generic_over"])

        collect(v)
        gid = g.get_id()
        for t in terms:
            stack = [t]
            seen = set()
            while stack:
                u = stack.pop()
                if u.get_id() in seen:
                    continue
                seen.add(u.get_id())
                if u.get_id() == gid:
                    return True
                if z3.is_app(u):
                    stack.extend(u.children())
                elif z3.is_quantifier(u):
                    stack.append(u.body())
        return False

    def _apply_normal(self, seg: Seg, normals, env, carried, hi2, gen, level) -> None:
        g = seg.g
        st = self.st
        in_range = z3.And(g >= 0, g < hi2, seg.cond)
        # facts established inside the body (model postconditions, first-match witnesses) hold for every iteration that
        # takes the path; keep them for the generic iteration g (a free constant of the outer state)
        for r in normals:
            if r["facts"]:
                outer_rng = [z3.And(fg >= 0, fg < fhi, fc) for (_l, _p, fhi, fg, fc) in seg.outer]
                st.assume(z3.Implies(z3.And(in_range, gen(r["cond"]), *outer_rng), z3.And(*[gen(f) for f in r["facts"]])))
        # ---- side conditions and collection
        appends: dict[int, list] = {}
        field_writes: dict[tuple, list] = {}  # (lid, key) -> [(cond, new array)]
        carried_writes: dict[str, list] = {}
        obj_writes: dict[tuple, list] = {}
        dict_writes: dict[int, list] = {}  # did -> [(cond, 'set'|'del', key term, value term)]
        dict_unions: dict[int, list] = {}  # did -> [(cond, presence array at the end of the body)]  (nested set-insert loops)
        family = self._family(seg.lid) if seg.lid >= 0 else set()
        for r in normals:
            c = gen(r["cond"])
            st2 = r["st"]
            for lid, rec in st2.lists.items():
                if lid not in st.lists:
                    continue
                base = st.lists[lid]
                if rec.kind in ("conc", "derived") and base.kind in ("conc", "derived"):
                    other = [w for w in rec.write_log if w[0].startswith("$") and w[0] not in ("$append", "$segs", "$extend")]
                    if other:
                        raise Unsupported(f"list mutation {other[0][0]} inside a summarised loop")
                    if rec.write_log:
                        n0 = len(self.ops.segments(SList(lid)))  # entries present before the loop (in the outer state)
                        cur_segs = rec.segs if rec.kind == "derived" else [("conc", list(rec.items))]
                        base_segs = base.segs if base.kind == "derived" else [("conc", list(base.items))]
                        new_entries = []
                        if rec.kind == "conc":
                            new_entries = [("conc", [x]) for x in rec.items[len(base.items):]] if base.kind == "conc" else []
                        else:
                            flat_base = sum((len(x[1]) if isinstance(x, tuple) else 1) for x in base_segs)
                            seen = 0
                            for x in cur_segs:
                                if isinstance(x, tuple):
                                    for it in x[1]:
                                        if seen >= flat_base:
                                            new_entries.append(("conc", [it]))
                                        seen += 1
                                else:
                                    if seen >= flat_base:
                                        new_entries.append(x)
                                    seen += 1
                        appends.setdefault(lid, []).append((c, new_entries, st2))
                elif rec.kind == "base":
                    if rec.write_log and lid not in family:
                        raise Unsupported("summarised loop writes elements of an unrelated list")
                    for name, idx in rec.write_log:
                        if len(idx) <= level or not idx[level].eq(g):
                            raise Unsupported("summarised loop writes an element other than the current one")
                    written = {n for n, _ in rec.write_log}
                    for name, idx in rec.read_log:
                        if name in written and (len(idx) <= level or not idx[level].eq(g)) and lid in family:
                            raise Unsupported("summarised loop reads a field of another element that the loop writes")
                    for key, arr in rec.fields.items():
                        old = base.fields.get(key)
                        if old is None:
                            # array created lazily inside the body (deterministic name): recover the pristine constant
                            old = self._pristine(arr)
                            if not z3.is_const(old):
                                raise Unsupported("element array created and bulk-updated inside a summarised loop")
                            base.fields[key] = old
                        if not old.eq(arr):
                            field_writes.setdefault((lid, key), []).append((c, gen(arr)))
                    for k2, v2 in rec.meta.items():
                        if k2.startswith("child:") and k2 not in base.meta:
                            base.meta[k2] = v2
                            st.lists[v2] = copy.deepcopy(st2.lists[v2])
                            st.lists[v2].write_log, st.lists[v2].read_log = [], []
            for lid, rec in st2.lists.items():
                if lid not in st.lists and rec.kind == "base" and lid not in [m for b in st.lists.values() for k, m in b.meta.items() if k.startswith("child:")]:
                    pass
            db2, db1 = st2.ghost.get("db"), st.ghost.get("db")
            if db2 is not None:
                for tn, t2 in db2.tables.items():
                    t1 = db1.tables.get(tn) if db1 is not None else None
                    same = t1 is not None and t1.exists.eq(t2.exists) and all(t1.cols[c].eq(t2.cols[c]) for c in t2.cols)
                    if not same and not (t1 is None and t2.exists.eq(db2.committed[tn].exists) and all(t2.cols[c].eq(db2.committed[tn].cols[c]) for c in t2.cols)):
                        raise Unsupported(f"SQL write to {tn} inside a summarised loop (give the callee a contract)")
            for did, rec in st2.dicts.items():
                if did in st.dicts and rec.meta.get("mut"):
                    if rec.backing is not None and rec.backing[0] in family:
                        continue  # written through to the element arrays (handled as field writes)
                    kinds = set()
                    if "loop" in rec.meta["mut"]:
                        # the body itself contains a summarised loop that writes this dict.  Supported when every write of
                        # the whole nest only ADDS keys (set-insert): the dict after the outer loop contains the dict before
                        # it and, for every iteration, everything the body's final dict contains (which keys else it holds
                        # is left open -- an over-approximation of the reachable states)
                        if "loop-set" not in rec.meta["mut"] or any(isinstance(m, tuple) and m[0] != "set" for m in rec.meta["mut"]) \
                                or any(isinstance(m, str) and m in ("update", "clear", "pop") for m in rec.meta["mut"]):
                            raise Unsupported("nested summarised loops that delete or overwrite keys of one dict")
                        dict_unions.setdefault(did, []).append((c, gen(rec.has)))
                        continue
                    for m in rec.meta["mut"]:
                        if isinstance(m, str):
                            if m in ("update", "clear", "loop"):
                                raise Unsupported(f"dict.{m} inside a summarised loop")
                            continue  # 'pop' / 'set' markers: the dict_del / dict_set that follows is recorded as a tuple
                        kt = self.ops.key_term(self._import_value(m[1], st2, g))
                        vt = self.ops.to_val(self._import_value(m[2], st2, g)) if m[0] == "set" else None
                        kinds.add(m[0])
                        dict_writes.setdefault(did, []).append((c, m[0], kt, vt))
                    if len(kinds) > 1:
                        raise Unsupported("a summarised loop iteration both sets and deletes keys of one dict")
            for oid, rec in st2.objs.items():
                if oid in st.objs and rec.meta.get("writes"):
                    for name in rec.meta["writes"]:
                        obj_writes.setdefault((oid, name), []).append((c, self._import_value(rec.fields[name], st2, g)))
            for n in carried:
                e2 = r["env"].find_env(n)
                v = e2.vars.get(n) if e2 is not None else None
                if isinstance(v, SCarried):
                    continue
                if isinstance(v, SCarriedDelta):
                    carried_writes.setdefault(n, []).append((c, "delta", self._import_value(v.delta, st2, g)))
                elif v is not None:
                    carried_writes.setdefault(n, []).append((c, "set", self._import_value(v, st2, g)))
        # ---- apply: appended lists
        for lid, lst in appends.items():
            rec = st.lists[lid]
            handle = SList(lid)
            cur = self.ops.segments(handle)
            simple = not seg.outer and all(len(ne) <= 1 and all(isinstance(x, tuple) for x in ne) for _c, ne, _s in lst)
            rec.kind, rec.items = "derived", []
            if simple:
                # at most one plain append per iteration: one order-preserving segment
                lst1 = [(c, self._import_value(ne[0][1][0], s2, g)) for c, ne, s2 in lst if ne]
                if lst1:
                    cond = z3.Or(*[c for c, _ in lst1])
                    val = lst1[-1][1]
                    for c, v in reversed(lst1[:-1]):
                        val = self.ops.ite(c, v, val)
                    rec.segs = cur + [Seg(seg.lid, seg.pidx, hi2, g, z3.And(seg.cond, cond), val)]
                else:
                    rec.segs = cur
            else:
                # several appends and/or inner comprehensions per iteration: one segment per entry; relative order of
                # entries from different iterations is not represented (membership / length / iteration only)
                new = []
                for c, ne, s2 in lst:
                    for x in ne:
                        if isinstance(x, tuple):
                            new.append(Seg(seg.lid, seg.pidx, hi2, g, z3.And(seg.cond, c), self._import_value(x[1][0], s2, g), tuple(seg.outer)))
                        else:
                            memo: dict = {}
                            ilist = self._import_value(SList(x.lid, tuple(x.pidx)), s2, g, memo) if x.lid >= 0 else None
                            frame = (seg.lid, seg.pidx, hi2, g, z3.And(seg.cond, c))
                            new.append(Seg(ilist.lid if ilist is not None else x.lid, tuple(self._gen(t) for t in x.pidx), self._gen(x.hi), x.g,
                                           self._gen(x.cond), self._import_value(x.mapv, s2, g, memo), tuple(seg.outer) + (frame,) + tuple(x.outer)))
                rec.segs = cur + new
                rec.meta["unordered"] = True
            rec.write_log.append(("$segs", None))  # seen by an enclosing summarised loop: nested accumulation
        if seg.outer and (field_writes or carried_writes or obj_writes or dict_writes or dict_unions):
            raise Unsupported("state update inside a loop over a nested comprehension")
        for did, lst in dict_unions.items():
            if did in dict_writes:
                raise Unsupported("a dict written both directly and through a nested loop in one loop body")
            d = SDict(did)
            self.ops.dict_symbolize(d)
            rec = st.dicts[did]
            if rec.backing is not None:
                raise Unsupported("summarised loop writes a dict held by a list element other than the current one")
            kq = z3.Int(fresh_name("dk"))
            has2 = z3.Array(fresh_name("has_after_loops"), z3.IntSort(), z3.BoolSort())
            vals2 = z3.Array(fresh_name("vals_after_loops"), z3.IntSort(), rec.vals.sort().range())
            st.assume(z3.ForAll([kq], z3.Implies(z3.Select(rec.has, kq), z3.Select(has2, kq))))
            for c, has_end in lst:
                st.assume(z3.ForAll([g, kq], z3.Implies(z3.And(in_range, c, z3.Select(has_end, kq)), z3.Select(has2, kq))))
            # what the body establishes about its final dict (facts of the inner summaries) holds in EVERY iteration, not
            # only in the generic one: state it universally so that it can be combined with the union above
            for r in normals:
                if r["facts"]:
                    st.assume(z3.ForAll([g], z3.Implies(z3.And(in_range, gen(r["cond"])), z3.And(*[gen(f) for f in r["facts"]]))))
            rec.has, rec.vals = has2, vals2
            rec.meta.pop("nonempty", None)
            rec.meta.setdefault("mut", []).extend(["loop", "loop-set"])
        # ---- apply: writes to dicts of the outer state
        for did, lst in dict_writes.items():
            d = SDict(did)
            self.ops.dict_symbolize(d)
            rec = st.dicts[did]
            if rec.backing is not None:
                raise Unsupported("summarised loop writes a dict held by a list element other than the current one")
            kq = z3.Int(fresh_name("dk"))
            if all(z3.eq(z3.simplify(kt), g) for _c, _k, kt, _v in lst):
                # the key written is the loop variable itself (iteration over key codes): exact closed form
                rng = z3.substitute(in_range, (g, kq))
                has, vals = z3.Select(rec.has, kq), z3.Select(rec.vals, kq)
                for c, kind, _kt, vt in reversed(lst):
                    ck = z3.And(rng, z3.substitute(c, (g, kq)))
                    has = z3.If(ck, z3.BoolVal(kind == "set"), has)
                    if kind == "set":
                        vals = z3.If(ck, z3.substitute(vt, (g, kq)), vals)
                rec.has, rec.vals = z3.Lambda([kq], has), z3.Lambda([kq], vals)
            else:
                # general keys: the dict after the loop is a fresh one constrained by (i) the frame -- a key no iteration
                # writes keeps presence and value -- and (ii) presence (absence) of every key some iteration sets (deletes);
                # the value left under a key several iterations may set is not represented (over-approximation)
                kinds = {k for _c, k, _kt, _v in lst}
                if len(kinds) > 1:
                    raise Unsupported("a summarised loop both sets and deletes keys of one dict")
                has2 = z3.Array(fresh_name("has_after_loop"), z3.IntSort(), z3.BoolSort())
                vals2 = z3.Array(fresh_name("vals_after_loop"), z3.IntSort(), rec.vals.sort().range())
                touched = z3.Exists([g], z3.And(in_range, z3.Or(*[z3.And(c, kt == kq) for c, _k, kt, _v in lst])))
                st.assume(z3.ForAll([kq], z3.Implies(z3.Not(touched), z3.And(z3.Select(has2, kq) == z3.Select(rec.has, kq),
                                                                               z3.Select(vals2, kq) == z3.Select(rec.vals, kq)))))
                for c, kind, kt, _v in lst:
                    hk = z3.Select(has2, kt)
                    st.assume(z3.ForAll([g], z3.Implies(z3.And(in_range, c), hk if kind == "set" else z3.Not(hk))))
                rec.has, rec.vals = has2, vals2
            rec.meta.pop("nonempty", None)
            rec.meta.setdefault("mut", []).append("loop")
            if all(kind == "set" for _c, kind, _kt, _v in lst):
                rec.meta["mut"].append("loop-set")
        # ---- apply: element fields (lambda update at the level of g)
        for (lid, key), lst in field_writes.items():
            rec = st.lists[lid]
            old = rec.fields[key]
            old_at = self._select(old, seg.pidx)
            new_at = z3.Select(old_at, g)
            for c, arr in reversed(lst):
                new_at = z3.If(c, z3.Select(self._select(arr, seg.pidx), g), new_at)
            lam = z3.Lambda([g], z3.If(in_range, new_at, z3.Select(old_at, g)))
            rec.fields[key] = self._store(old, seg.pidx, lam) if seg.pidx else lam
            st.ghost.get("elem_cont", {}).clear()
        # ---- apply: carried scalars
        for n, lst in carried_writes.items():
            old = carried[n]
            e = env.find_env(n)
            kinds = {k for _, k, _ in lst}
            if kinds == {"delta"}:
                tot = self.ops.as_int(old)
                for c, _k, d in lst:
                    if self._depends_on(d, g):
                        raise Unsupported(f"loop-carried sum '{n}' of element-dependent terms needs an invariant")
                    tot = tot + self.ops.as_int(d) * self.ops.count(seg.lid, seg.pidx, hi2, g, z3.And(seg.cond, c))
                e.vars[n] = SInt(tot)
                continue
            if kinds != {"set"}:
                raise Unsupported(f"loop-carried variable '{n}' is both assigned and accumulated")
            wc = z3.Or(*[c for c, _k, _v in lst])
            val = lst[-1][2]
            for c, _k, v in reversed(lst[:-1]):
                val = self.ops.ite(c, v, val)
            cnt = self.ops.count(seg.lid, seg.pidx, hi2, g, z3.And(seg.cond, wc))
            if self._depends_on(val, g):
                if self.st.branch(cnt > 0):
                    l = self.first_index(seg.lid, seg.pidx, hi2, g, z3.And(seg.cond, wc), last=True)
                    e.vars[n] = self.subst_value(val, g, l)
                else:
                    e.vars[n] = old
            else:
                e.vars[n] = self.ops.ite(cnt > 0, val, old)
        for (oid, name), lst in obj_writes.items():
            wc = z3.Or(*[c for c, _v in lst])
            val = lst[-1][1]
            for c, v in reversed(lst[:-1]):
                val = self.ops.ite(c, v, val)
            if self._depends_on(val, g):
                raise Unsupported("summarised loop stores an element-dependent value in an outer object")
            cnt = self.ops.count(seg.lid, seg.pidx, hi2, g, z3.And(seg.cond, wc))
            rec = st.objs[oid]
            old = rec.fields.get(name)
            if old is None:
                old = self.obj_getattr(SObj(oid), name)
            rec.fields[name] = self.ops.ite(cnt > 0, val, old)
            rec.meta.setdefault("writes", []).append(name)
        # ---- apply: effects
        for r in normals:
            if r["effects"]:
                c = gen(r["cond"])
                effs = []
                memo: dict = {}

                def imp(x, _st=r["st"]):
                    if isinstance(x, V):
                        return self._import_value(x, _st, g, memo)
                    if isinstance(x, dict):
                        return {k2: imp(v2) for k2, v2 in x.items()}
                    if isinstance(x, (list, tuple)):
                        return type(x)(imp(v2) for v2 in x)
                    if isinstance(x, z3.ExprRef):
                        return self._gen(x)
                    if isinstance(x, Effect):
                        return Effect(x.kind, imp(x.data))
                    return x

                for e in r["effects"]:
                    effs.append(Effect(e.kind, imp(e.data)))
                st.effects.append(Effect("foreach", dict(lid=seg.lid, pidx=seg.pidx, hi=hi2, g=g, cond=z3.And(seg.cond, c), body=effs,
                                                         outer=tuple(seg.outer))))
        # assumptions / notes propagate (shared sets)

    def _pristine(self, arr):
        """Strip Store/Lambda layers down to the underlying array constant."""
        t = arr
        while z3.is_app(t) and t.decl().kind() == z3.Z3_OP_STORE:
            t = t.arg(0)
        return t

    def _family(self, lid: int) -> set[int]:
        out = {lid}
        stack = [lid]
        while stack:
            l = stack.pop()
            for k, m in self.st.lists[l].meta.items():
                if k.startswith("child:") and m not in out:
                    out.add(m)
                    stack.append(m)
        return out

    def carried_augassign(self, env, name: str, cur: SCarried, op, delta: V) -> None:
        if not isinstance(op, ast.Add):
            raise Unsupported("loop-carried augmented assignment other than +=")
        e = env.find_env(name)
        e.vars[name] = SCarriedDelta(name, cur.old, delta)

    # ================================================================== comprehensions
    def comprehension(self, node, env, kind: str) -> V:
        from .interp import Env

        cenv = Env(env, env.module, env.func)
        acc = self.ops.new_conc_list([], as_set=(kind == "set"))
        cenv.vars["$acc"] = acc
        meth = "add" if kind == "set" else "append"
        inner: list = [ast.Expr(ast.Call(func=ast.Attribute(value=ast.Name(id="$acc", ctx=ast.Load()), attr=meth, ctx=ast.Load()),
                                         args=[node.elt], keywords=[]))]
        for gen in reversed(node.generators):
            body = inner
            for cond in reversed(gen.ifs):
                body = [ast.If(test=cond, body=body, orelse=[])]
            inner = [ast.For(target=gen.target, iter=gen.iter, body=body, orelse=[], lineno=getattr(node, "lineno", 0))]
        for s in inner:
            ast.fix_missing_locations(s)
        self.exec_block(inner, cenv)
        return acc

    def dict_comprehension(self, node, env) -> V:
        from .interp import Env

        if len(node.generators) != 1:
            raise Unsupported("dict comprehension with several generators")
        gen = node.generators[0]
        it = self.eval(gen.iter, env)
        segs = self.iter_segments(it)
        d = self.ops.new_dict()
        cenv = Env(env, env.module, env.func)
        if any(not isinstance(s, tuple) for s in segs):
            # over a symbolic sequence: the comprehension is the loop `for target in it: if conds: d[key] = value` on a fresh
            # dict, summarised like any other loop that writes an outer dict (presence exact, values of keys written by
            # several iterations not represented)
            import ast as _ast

            name = f"$dictcomp{self.st.new_id()}"
            cenv.vars[name] = d
            assign = _ast.Assign(targets=[_ast.Subscript(value=_ast.Name(id=name, ctx=_ast.Load()), slice=node.key, ctx=_ast.Store())], value=node.value)
            body = [assign]
            for c in reversed(gen.ifs):
                body = [_ast.If(test=c, body=body, orelse=[])]
            loop = _ast.For(target=gen.target, iter=gen.iter, body=body, orelse=[])
            _ast.fix_missing_locations(_ast.copy_location(loop, node))
            for n_ in _ast.walk(loop):
                if not hasattr(n_, "lineno"):
                    _ast.copy_location(n_, node)
            self.exec_for(loop, cenv)
            return d
        for s in segs:
            if not isinstance(s, tuple):
                raise Unsupported("dict comprehension over a symbolic sequence")
            for item in s[1]:
                self.assign_target(gen.target, item, cenv)
                ok = True
                for c in gen.ifs:
                    if not self.st.branch(self.cond(c, cenv)):
                        ok = False
                        break
                if ok:
                    self.ops.dict_set(d, self.eval(node.key, cenv), self.eval(node.value, cenv))
        return d
