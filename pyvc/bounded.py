"""Running the bounded stand-ins (replay/bounded/*.py) from a property module's extras()."""
import json
import os
import subprocess
import time

ROOT = os.path.dirname(os.path.dirname(os.path.abspath(__file__)))


def run_bounded(prop, script, name, tier, seed):
    t0 = time.time()
    path = os.path.join(ROOT, "replay", "bounded", script)
    try:
        p = subprocess.run(["/venv/bin/python", path, tier, str(seed)], capture_output=True, text=True, timeout=3000,
                           cwd=os.path.join(ROOT, "replay", "bounded"), env=dict(os.environ))
    except subprocess.TimeoutExpired:
        return dict(name=name, status="error", bounded=True, detail="bounded stand-in timed out", backend="native", time_s=time.time() - t0)
    out = (p.stdout or "").strip().splitlines()
    try:
        res = json.loads(out[-1])
    except Exception:
        return dict(name=name, status="error", bounded=True, detail=("no JSON result: " + (p.stderr or p.stdout or "")[-600:]), backend="native",
                    time_s=time.time() - t0)
    status = "discharged" if p.returncode == 0 and not res.get("n_failures") else ("violation" if res.get("n_failures") else "error")
    ent = dict(name=name, status=status, bounded=True, bound=res.get("bound", ""), cases=res.get("cases", 0), nontrivial=res.get("nontrivial", 0),
               backend="native bounded stand-in (not counted as proved)", time_s=round(time.time() - t0, 2), samples=res.get("samples", []),
               detail=json.dumps(res.get("failures", [])[:2], default=str)[:800])
    if status == "violation":
        d = os.path.join(ROOT, "out", "replay", prop)
        os.makedirs(d, exist_ok=True)
        f = os.path.join(d, name.replace("/", "_") + ".json")
        with open(f, "w") as fh:
            json.dump(dict(property=prop, obligation=name, bounded=True, failing_inputs=res.get("failures", []),
                           replay_cmd=f"/venv/bin/python replay/bounded/{script} {tier} {seed}", bound=res.get("bound", "")), fh, indent=1, default=str)
        ent["replay"] = os.path.relpath(f, ROOT)
        ent["replay_verdict"] = "violates"
    return ent
