"""Turn a z3 counter-model into concrete, JSON-serialisable inputs for the native replay."""
from __future__ import annotations

import z3

from .values import (ENUMS, STR, VAL, SBool, SDict, SElem, SEnum, SFloat, SInt, SList, SNone, SObj, SOpt, SSet, SStr,
                     STuple, SVal, V, vdict_get, vdict_has, vlist_get, vlist_len)

MAX_LIST = 40


class Concretizer:
    def __init__(self, I, model):
        self.I = I
        self.st = I.st
        self.m = model

    def ev(self, t):
        return self.m.eval(t, model_completion=True)

    def b(self, t) -> bool:
        return bool(z3.is_true(self.ev(t)))

    def i(self, t) -> int:
        r = self.ev(t)
        try:
            return r.as_long()
        except Exception:
            return 0

    def s(self, t) -> str:
        code = self.i(t)
        lit = STR.decode(code)
        return lit if lit is not None else f"s{code}"

    def val(self, t, depth=0):
        r = self.ev(t)
        name = r.decl().name()
        if name == "VNone":
            return None
        if name == "VBool":
            return bool(z3.is_true(r.arg(0)))
        if name == "VInt":
            return r.arg(0).as_long()
        if name == "VStr":
            return self.s(r.arg(0))
        if name == "VFloat":
            a = r.arg(0)
            try:
                return float(a.as_fraction())
            except Exception:
                return 0.0
        if name == "VList":
            if depth > 3:
                return []
            lid = r.arg(0)
            n = max(0, min(self.i(vlist_len(lid)), MAX_LIST))
            return [self.val(vlist_get(lid, z3.IntVal(k)), depth + 1) for k in range(n)]
        if name == "VDict":
            if depth > 3:
                return {}
            did = r.arg(0)
            out = {}
            for lit, code in STR.codes.items():
                if self.b(vdict_has(did, z3.IntVal(code))):
                    out[lit] = self.val(vdict_get(did, z3.IntVal(code)), depth + 1)
            return out
        from .values import vother_truthy

        return {"__other__": str(r), "truthy": self.b(vother_truthy(r.arg(0)))}

    def value(self, v: V, depth=0):
        if v is SNone:
            return None
        if isinstance(v, SBool):
            return self.b(v.t)
        if isinstance(v, SInt):
            return self.i(v.t)
        if isinstance(v, SFloat):
            try:
                return float(self.ev(v.t).as_fraction())
            except Exception:
                return 0.0
        if isinstance(v, SStr):
            return self.s(v.t)
        if isinstance(v, SEnum):
            return {"__enum__": v.ecls, "member": str(self.ev(v.t))}
        if isinstance(v, SVal):
            return self.val(v.t)
        if isinstance(v, SOpt):
            if self.b(self.I.ops.is_none(v)):
                return None
            return self.value(v.inner, depth)
        if isinstance(v, STuple):
            return {"__tuple__": [self.value(x, depth) for x in v.items]}
        if isinstance(v, SObj):
            return self.obj(v, depth)
        if isinstance(v, SElem):
            return self.elem(v, depth)
        if isinstance(v, (SList, SSet)):
            return self.lst(v, depth)
        if isinstance(v, SDict):
            return self.dct(v, depth)
        return {"__opaque__": type(v).__name__}

    def obj(self, o: SObj, depth):
        rec = self.st.objs[o.oid]
        if depth > 4:
            return {"__class__": rec.cls, "fields": {}}
        cls = rec.ci.qualname if rec.ci is not None else rec.cls
        return {"__class__": cls, "fields": {k: self.value(x, depth + 1) for k, x in rec.fields.items() if not k.startswith("$")}}

    def elem(self, e: SElem, depth):
        rec = self.st.lists[e.lid]
        ci = self.I.class_of(e)
        idx = tuple(z3.IntVal(self.i(x)) for x in e.idx)
        fields = {}
        for name, t in rec.field_types.items():
            try:
                fields[name] = self.value(self.I.elem_field(SElem(e.lid, idx), name, t), depth + 1)
            except Exception:
                pass
        return {"__class__": ci.qualname if ci else "?", "fields": fields}

    def lst(self, l, depth):
        rec = self.st.lists[l.lid]
        if rec.kind == "conc":
            return [self.value(x, depth + 1) for x in rec.items]
        if rec.kind == "base":
            n = max(0, min(self.i(self.I.ops.list_len(l)), MAX_LIST))
            out = []
            pidx = tuple(z3.IntVal(self.i(x)) for x in l.idx)
            for k in range(n):
                out.append(self.value(self.I.elem_value(l.lid, pidx + (z3.IntVal(k),)), depth + 1))
            return out
        out = []
        for s in rec.segs:
            if isinstance(s, tuple):
                out += [self.value(x, depth + 1) for x in s[1]]
            else:
                n = max(0, min(self.i(s.hi), MAX_LIST))
                for k in range(n):
                    kk = z3.IntVal(k)
                    if self.b(z3.substitute(s.cond, (s.g, kk))):
                        out.append(self.value(self.I.subst_value(s.mapv, s.g, kk), depth + 1))
        return out

    def dct(self, d: SDict, depth):
        rec = self.st.dicts[d.did]
        if rec.kind == "conc":
            return {str(self.value(k)): self.value(x, depth + 1) for k, x in rec.items}
        out = {}
        for lit, code in STR.codes.items():
            c = z3.IntVal(code)
            if self.b(z3.Select(rec.has, c)):
                out[lit] = self.val(z3.Select(rec.vals, c)) if (rec.val_type is None or rec.val_type[0] == "val") else \
                    self.value(self.I.ops.unval(z3.Select(rec.vals, c), rec.val_type), depth + 1)
        return out
