"""Source index: parses /repo/src/stabilize afresh on every run.

Nothing is imported from the repository; everything the verifier knows about a class, an enum, a
module constant or a function body is read from the AST of the file on disk.
"""
from __future__ import annotations

import ast
import hashlib
import os
from dataclasses import dataclass, field

REPO = os.environ.get("PYVC_REPO", "/repo")
SRC = os.path.join(REPO, "src")
PKG = "stabilize"


@dataclass
class ClassInfo:
    name: str
    module: str
    node: ast.ClassDef
    bases: list[str] = field(default_factory=list)  # resolved qualnames where possible, else raw
    methods: dict[str, ast.FunctionDef] = field(default_factory=dict)
    properties: dict[str, ast.FunctionDef] = field(default_factory=dict)
    setters: dict[str, ast.FunctionDef] = field(default_factory=dict)
    classmethods: set[str] = field(default_factory=set)
    staticmethods: set[str] = field(default_factory=set)
    fields: dict[str, tuple[ast.expr | None, ast.expr | None]] = field(default_factory=dict)  # ann, default
    assigns: dict[str, ast.expr] = field(default_factory=dict)  # plain class-level assignments
    is_dataclass: bool = False
    frozen: bool = False
    is_enum: bool = False

    @property
    def qualname(self) -> str:
        return f"{self.module}:{self.name}"


@dataclass
class ModuleInfo:
    name: str
    path: str
    tree: ast.Module
    source: str
    funcs: dict[str, ast.FunctionDef] = field(default_factory=dict)
    classes: dict[str, ClassInfo] = field(default_factory=dict)
    consts: dict[str, ast.expr] = field(default_factory=dict)
    imports: dict[str, str] = field(default_factory=dict)  # local name -> "module:attr" or "module"
    is_pkg: bool = False


class Index:
    def __init__(self, src: str = SRC, pkg: str = PKG):
        self.src = src
        self.pkg = pkg
        self.modules: dict[str, ModuleInfo] = {}
        self.errors: list[str] = []
        self._load()

    # ------------------------------------------------------------------ loading
    def _load(self) -> None:
        root = os.path.join(self.src, self.pkg)
        for dirpath, _dirs, files in os.walk(root):
            for fn in sorted(files):
                if not fn.endswith(".py"):
                    continue
                path = os.path.join(dirpath, fn)
                rel = os.path.relpath(path, self.src)[:-3].replace(os.sep, ".")
                is_pkg = rel.endswith(".__init__")
                if is_pkg:
                    rel = rel[: -len(".__init__")]
                try:
                    with open(path, encoding="utf-8") as fh:
                        source = fh.read()
                    tree = ast.parse(source, filename=path)
                except SyntaxError as e:  # pragma: no cover - reported, not fatal
                    self.errors.append(f"{path}: {e}")
                    continue
                mi = ModuleInfo(rel, path, tree, source, is_pkg=is_pkg)
                self.modules[rel] = mi
                self._scan_module(mi)

    def _resolve_from(self, mi: ModuleInfo, node: ast.ImportFrom) -> str:
        if node.level == 0:
            return node.module or ""
        parts = mi.name.split(".")
        if not mi.is_pkg:
            parts = parts[:-1]
        up = node.level - 1
        if up:
            parts = parts[:-up]
        if node.module:
            parts = parts + node.module.split(".")
        return ".".join(parts)

    def _scan_imports(self, mi: ModuleInfo, body: list[ast.stmt]) -> None:
        for st in body:
            if isinstance(st, ast.ImportFrom):
                base = self._resolve_from(mi, st)
                for al in st.names:
                    mi.imports[al.asname or al.name] = f"{base}:{al.name}"
            elif isinstance(st, ast.Import):
                for al in st.names:
                    mi.imports[al.asname or al.name.split(".")[0]] = al.name if al.asname else al.name.split(".")[0]
            elif isinstance(st, ast.If):
                # TYPE_CHECKING blocks and guarded imports: names only (used for annotations / class refs)
                self._scan_imports(mi, st.body)
                self._scan_imports(mi, st.orelse)
            elif isinstance(st, ast.Try):
                self._scan_imports(mi, st.body)

    def _scan_module(self, mi: ModuleInfo) -> None:
        self._scan_imports(mi, mi.tree.body)
        for st in mi.tree.body:
            if isinstance(st, (ast.FunctionDef, ast.AsyncFunctionDef)):
                mi.funcs[st.name] = st  # type: ignore[assignment]
            elif isinstance(st, ast.ClassDef):
                mi.classes[st.name] = self._scan_class(mi, st)
            elif isinstance(st, ast.Assign):
                for t in st.targets:
                    if isinstance(t, ast.Name):
                        mi.consts[t.id] = st.value
            elif isinstance(st, ast.AnnAssign) and isinstance(st.target, ast.Name) and st.value is not None:
                mi.consts[st.target.id] = st.value

    def _scan_class(self, mi: ModuleInfo, node: ast.ClassDef) -> ClassInfo:
        ci = ClassInfo(node.name, mi.name, node)
        for b in node.bases:
            ci.bases.append(ast.unparse(b))
        for d in node.decorator_list:
            txt = ast.unparse(d)
            if txt.startswith("dataclass") or txt.startswith("dataclasses.dataclass"):
                ci.is_dataclass = True
                if "frozen=True" in txt:
                    ci.frozen = True
        for st in node.body:
            if isinstance(st, ast.FunctionDef):
                decos = [ast.unparse(d) for d in st.decorator_list]
                if "property" in decos or "cached_property" in decos or "functools.cached_property" in decos:
                    ci.properties[st.name] = st
                elif any(d.endswith(".setter") for d in decos):
                    ci.setters[st.name] = st
                else:
                    ci.methods[st.name] = st
                    if "classmethod" in decos:
                        ci.classmethods.add(st.name)
                    if "staticmethod" in decos:
                        ci.staticmethods.add(st.name)
            elif isinstance(st, ast.AnnAssign) and isinstance(st.target, ast.Name):
                ci.fields[st.target.id] = (st.annotation, st.value)
            elif isinstance(st, ast.Assign):
                for t in st.targets:
                    if isinstance(t, ast.Name):
                        ci.assigns[t.id] = st.value
        return ci

    # ------------------------------------------------------------------ lookup
    def module(self, name: str) -> ModuleInfo | None:
        return self.modules.get(name)

    def resolve(self, module: str, name: str, _depth: int = 0):
        """Resolve `name` as seen from `module` to ('func'|'class'|'const'|'module'|'external', payload)."""
        if _depth > 12:
            return ("external", f"{module}:{name}")
        mi = self.modules.get(module)
        if mi is None:
            return ("external", f"{module}:{name}")
        if name in mi.funcs:
            return ("func", (mi.name, mi.funcs[name]))
        if name in mi.classes:
            return ("class", mi.classes[name])
        if name in mi.consts:
            return ("const", (mi.name, mi.consts[name]))
        if name in mi.imports:
            tgt = mi.imports[name]
            if ":" in tgt:
                m2, n2 = tgt.split(":", 1)
                if m2 in self.modules:
                    r = self.resolve(m2, n2, _depth + 1)
                    if r[0] != "external":
                        return r
                    sub = f"{m2}.{n2}"
                    if sub in self.modules:
                        return ("module", sub)
                    return r
                sub = f"{m2}.{n2}"
                if sub in self.modules:
                    return ("module", sub)
                return ("external", tgt)
            if tgt in self.modules:
                return ("module", tgt)
            return ("external", tgt)
        sub = f"{module}.{name}"
        if sub in self.modules:
            return ("module", sub)
        return ("external", f"{module}:{name}")

    def find_class(self, name: str, from_module: str | None = None) -> ClassInfo | None:
        if ":" in name:
            m, n = name.split(":", 1)
            mi = self.modules.get(m)
            return mi.classes.get(n) if mi else None
        if from_module:
            r = self.resolve(from_module, name)
            if r[0] == "class":
                return r[1]
        hits = [mi.classes[name] for mi in self.modules.values() if name in mi.classes]
        if len(hits) == 1:
            return hits[0]
        if hits:
            # prefer non-postgres, shortest module path
            hits.sort(key=lambda c: ("postgres" in c.module, len(c.module)))
            return hits[0]
        return None

    def mro(self, ci: ClassInfo) -> list[ClassInfo]:
        out: list[ClassInfo] = []
        seen: set[str] = set()

        def visit(c: ClassInfo) -> None:
            if c.qualname in seen:
                return
            seen.add(c.qualname)
            out.append(c)
            for b in c.bases:
                bname = b.split("[")[0]
                bc = self.find_class(bname.split(".")[-1], c.module) if bname else None
                if bc is not None:
                    visit(bc)

        visit(ci)
        return out

    def base_names(self, ci: ClassInfo) -> set[str]:
        """All class names (simple) in the hierarchy incl. unresolved externals such as Exception."""
        names: set[str] = set()
        for c in self.mro(ci):
            names.add(c.name)
            for b in c.bases:
                names.add(b.split("[")[0].split(".")[-1])
        return names

    def find_method(self, ci: ClassInfo, name: str):
        for c in self.mro(ci):
            if name in c.methods:
                return ("method", c, c.methods[name])
            if name in c.properties:
                return ("property", c, c.properties[name])
        return None

    def find_setter(self, ci: ClassInfo, name: str):
        for c in self.mro(ci):
            if name in c.setters:
                return (c, c.setters[name])
        return None

    def all_fields(self, ci: ClassInfo) -> dict[str, tuple[ast.expr | None, ast.expr | None, ClassInfo]]:
        out: dict[str, tuple] = {}
        for c in reversed(self.mro(ci)):
            for k, (ann, dflt) in c.fields.items():
                out[k] = (ann, dflt, c)
        return out

    def func(self, qual: str):
        """'module:func' or 'module:Class.method' -> (module, ClassInfo|None, FunctionDef)."""
        m, n = qual.split(":", 1)
        mi = self.modules.get(m)
        if mi is None:
            raise KeyError(qual)
        if "." in n:
            cn, fn = n.split(".", 1)
            ci = mi.classes.get(cn)
            if ci is None:
                raise KeyError(qual)
            r = self.find_method(ci, fn)
            if r is None:
                raise KeyError(qual)
            return (r[1].module, ci, r[2])
        if n not in mi.funcs:
            raise KeyError(qual)
        return (m, None, mi.funcs[n])

    def source_hash(self, qual: str) -> str:
        try:
            _m, _c, fn = self.func(qual)
        except KeyError:
            return "missing"
        return hashlib.sha256(ast.dump(fn).encode()).hexdigest()[:16]

    def enum_members(self, ci: ClassInfo) -> list[tuple[str, ast.expr]]:
        return [(k, v) for k, v in ci.assigns.items() if not k.startswith("_")]

    def is_enum(self, ci: ClassInfo) -> bool:
        for c in self.mro(ci):
            for b in c.bases:
                if b.split(".")[-1] in ("Enum", "IntEnum", "StrEnum", "Flag"):
                    return True
        return False

    def is_exception(self, ci: ClassInfo) -> bool:
        names = self.base_names(ci)
        return bool(names & BUILTIN_EXC.keys())


# builtin exception hierarchy (child -> parent), enough for the repository's except clauses
BUILTIN_EXC = {
    "BaseException": None,
    "Exception": "BaseException",
    "ArithmeticError": "Exception",
    "ZeroDivisionError": "ArithmeticError",
    "OverflowError": "ArithmeticError",
    "AssertionError": "Exception",
    "AttributeError": "Exception",
    "LookupError": "Exception",
    "IndexError": "LookupError",
    "KeyError": "LookupError",
    "NameError": "Exception",
    "OSError": "Exception",
    "RuntimeError": "Exception",
    "RecursionError": "RuntimeError",
    "NotImplementedError": "RuntimeError",
    "StopIteration": "Exception",
    "SyntaxError": "Exception",
    "TypeError": "Exception",
    "ValueError": "Exception",
    "UnicodeError": "ValueError",
    "MemoryError": "Exception",
    "TimeoutError": "OSError",
    "KeyboardInterrupt": "BaseException",
    "SystemExit": "BaseException",
    "JSONDecodeError": "ValueError",
}


def builtin_exc_ancestors(name: str) -> list[str]:
    out = []
    cur: str | None = name
    while cur is not None:
        out.append(cur)
        cur = BUILTIN_EXC.get(cur)
    return out
