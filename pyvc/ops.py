"""Value-level operations: truthiness, equality, merging, conversion to/from Val, list views."""
from __future__ import annotations

import z3

from .state import CountRec
from .values import (EMPTY, ENUMS, STR, VAL, DictRec, ListRec, SBool, SBuiltin, SCarried, SClass, SDict, SElem, SEnum,
                     SExternal, SFloat, SFunc, SInt, SList, SModel, SModule, SNone, SObj, SOpaque, SOpt, SSet, SStr,
                     STuple, SVal, Seg, SHavoc, Unsupported, V, fresh_bool, fresh_int, fresh_name, vdict_size, vlist_len, vother_truthy)

TRUE = z3.BoolVal(True)
FALSE = z3.BoolVal(False)


def val_truthy(t):
    return z3.If(VAL.is_VNone(t), FALSE,
           z3.If(VAL.is_VBool(t), VAL.vb(t),
           z3.If(VAL.is_VInt(t), VAL.vi(t) != 0,
           z3.If(VAL.is_VStr(t), VAL.vs(t) != EMPTY,
           z3.If(VAL.is_VFloat(t), VAL.vf(t) != 0,
           z3.If(VAL.is_VList(t), vlist_len(VAL.vl(t)) > 0,
           z3.If(VAL.is_VDict(t), vdict_size(VAL.vd(t)) > 0, vother_truthy(VAL.vo(t)))))))))


def enum_code(v: SEnum):
    """Integer code of an enum member (position), as a z3 If-chain."""
    ms = ENUMS.members(v.ecls)
    t = z3.IntVal(len(ms) - 1)
    for i in range(len(ms) - 2, -1, -1):
        t = z3.If(v.t == ENUMS.member(v.ecls, ms[i]), z3.IntVal(i), t)
    return t


class Ops:
    """Operations that need the state (lists, dicts, counts)."""

    def __init__(self, interp):
        self.I = interp

    @property
    def st(self):
        return self.I.st

    # ------------------------------------------------------------------ none-ness
    def is_none(self, v: V):
        if v is SNone:
            return TRUE
        if isinstance(v, SHavoc):
            return fresh_bool(v.tag + ".isnone")
        if isinstance(v, SOpt):
            inner = self.is_none(v.inner)
            return v.isnone if z3.is_false(inner) else z3.Or(v.isnone, inner)
        if isinstance(v, SVal):
            return VAL.is_VNone(v.t)
        if isinstance(v, SElem):
            rec = self.st.lists[v.lid]
            if rec.opt_elems:
                return self.I.elem_isnone(v)
            return FALSE
        return FALSE

    def strip_opt(self, v: V) -> V:
        return v.inner if isinstance(v, SOpt) else v

    # ------------------------------------------------------------------ truthiness
    def truthy(self, v: V):
        if isinstance(v, SBool):
            return v.t
        if isinstance(v, SHavoc):
            return fresh_bool(v.tag + ".truthy")
        if isinstance(v, SInt):
            return v.t != 0
        if isinstance(v, SFloat):
            return v.t != 0
        if isinstance(v, SStr):
            return v.t != EMPTY
        if v is SNone:
            return FALSE
        if isinstance(v, SOpt):
            return z3.And(z3.Not(v.isnone), self.truthy(v.inner))
        if isinstance(v, SVal):
            return val_truthy(v.t)
        if isinstance(v, (SList, SSet)):
            return self.list_len(v) > 0
        if isinstance(v, STuple):
            return z3.BoolVal(len(v.items) > 0)
        if isinstance(v, SDict):
            return self.dict_nonempty(v)
        if isinstance(v, SElem):
            return z3.Not(self.is_none(v))
        if isinstance(v, (SObj, SEnum, SFunc, SClass, SModule, SExternal, SBuiltin, SModel, SOpaque)):
            if isinstance(v, SObj):
                rec = self.st.objs[v.oid]
                if "truthy" in rec.meta:
                    return rec.meta["truthy"]
            return TRUE
        if isinstance(v, SCarried):
            raise Unsupported(f"loop-carried variable {v.name} read inside summarised loop")
        raise Unsupported(f"truthy of {type(v).__name__}")

    # ------------------------------------------------------------------ equality
    def eq(self, a: V, b: V):
        if isinstance(a, SCarried) or isinstance(b, SCarried):
            raise Unsupported("loop-carried variable read")
        if isinstance(a, SHavoc) or isinstance(b, SHavoc):
            return fresh_bool((a if isinstance(a, SHavoc) else b).tag + ".eq")
        if a is SNone:
            return self.is_none(b)
        if b is SNone:
            return self.is_none(a)
        if isinstance(a, SOpt) and isinstance(b, SOpt):
            return z3.Or(z3.And(a.isnone, b.isnone), z3.And(z3.Not(a.isnone), z3.Not(b.isnone), self.eq(a.inner, b.inner)))
        if isinstance(a, SOpt):
            return z3.And(z3.Not(a.isnone), self.eq(a.inner, b))
        if isinstance(b, SOpt):
            return z3.And(z3.Not(b.isnone), self.eq(a, b.inner))
        if isinstance(a, SVal) or isinstance(b, SVal):
            return self.to_val(a) == self.to_val(b)
        if isinstance(a, SBool) and isinstance(b, SBool):
            return a.t == b.t
        if type(a).__name__ == "SSqlCell" and isinstance(b, (SStr, SInt)):
            return a.t == b.t
        if type(b).__name__ == "SSqlCell" and isinstance(a, (SStr, SInt)):
            return a.t == b.t
        if isinstance(a, (SInt, SBool)) and isinstance(b, (SInt, SBool)):
            return self.as_int(a) == self.as_int(b)
        if isinstance(a, (SInt, SFloat, SBool)) and isinstance(b, (SInt, SFloat, SBool)):
            return self.as_real(a) == self.as_real(b)
        if isinstance(a, SStr) and isinstance(b, SStr):
            return a.t == b.t
        if isinstance(a, SEnum) and isinstance(b, SEnum):
            if a.ecls != b.ecls:
                return FALSE
            return a.t == b.t
        if isinstance(a, SObj) and isinstance(b, SObj):
            if a.oid == b.oid:
                return TRUE
            ra, rb = self.st.objs[a.oid], self.st.objs[b.oid]
            if ra.meta.get("value_eq") and rb.meta.get("value_eq") and ra.cls == rb.cls:
                return self.I.dataclass_eq(a, b)
            return FALSE
        if isinstance(a, SElem) and isinstance(b, SElem):
            if a.lid != b.lid:
                ra, rb = self.st.lists[a.lid], self.st.lists[b.lid]
                if ra.meta.get("alias_of") == b.lid or rb.meta.get("alias_of") == a.lid:
                    return z3.And(*[x == y for x, y in zip(a.idx, b.idx)])
                return FALSE
            conj = [x == y for x, y in zip(a.idx, b.idx)]
            return z3.And(*conj) if conj else TRUE
        if isinstance(a, STuple) and isinstance(b, STuple):
            if len(a.items) != len(b.items):
                return FALSE
            return z3.And(*[self.eq(x, y) for x, y in zip(a.items, b.items)]) if a.items else TRUE
        if isinstance(a, SClass) and isinstance(b, SClass):
            return z3.BoolVal(a.ci is b.ci)
        if isinstance(a, (SList, SSet)) and isinstance(b, (SList, SSet)):
            ra, rb = self.st.lists[a.lid], self.st.lists[b.lid]
            if a.lid == b.lid:
                return TRUE
            if ra.kind == "conc" and rb.kind == "conc":
                if len(ra.items) != len(rb.items):
                    return FALSE
                return z3.And(*[self.eq(x, y) for x, y in zip(ra.items, rb.items)]) if ra.items else TRUE
            if isinstance(a, SSet) and isinstance(b, SSet):
                from . import builtins_model as BM

                return z3.And(BM._subset(self.I, a, b), BM._subset(self.I, b, a))
            raise Unsupported("list equality on symbolic lists")
        if isinstance(a, SDict) and isinstance(b, SDict):
            if a.did == b.did:
                return TRUE
            ra, rb = self.st.dicts[a.did], self.st.dicts[b.did]
            if ra.kind == "conc" and rb.kind == "conc" and not ra.items and not rb.items:
                return TRUE
            if ra.kind == "conc" and rb.kind == "conc" and len(ra.items) == len(rb.items):
                return z3.And(*[z3.And(self.eq(k1, k2), self.eq(v1, v2)) for (k1, v1), (k2, v2) in zip(ra.items, rb.items)]) if ra.items else TRUE
            if ra.kind == "sym" and rb.kind == "sym":
                k = z3.Int(fresh_name("dk"))
                return z3.ForAll([k], z3.And(z3.Select(ra.has, k) == z3.Select(rb.has, k),
                                             z3.Implies(z3.Select(ra.has, k), z3.Select(ra.vals, k) == z3.Select(rb.vals, k))))
            raise Unsupported("dict equality")
        if type(a) is not type(b):
            return FALSE
        raise Unsupported(f"eq {type(a).__name__} {type(b).__name__}")

    def as_int(self, v: V):
        if isinstance(v, SInt):
            return v.t
        if isinstance(v, SBool):
            return z3.If(v.t, z3.IntVal(1), z3.IntVal(0))
        if isinstance(v, SVal):
            return VAL.vi(v.t)
        raise Unsupported(f"as_int {type(v).__name__}")

    def as_real(self, v: V):
        if isinstance(v, SFloat):
            return v.t
        return z3.ToReal(self.as_int(v))

    # ------------------------------------------------------------------ merge
    def ite(self, c, a: V, b: V) -> V:
        """Value if c then a else b (a and b of compatible types)."""
        if a is b:
            return a
        if a is SNone and b is SNone:
            return SNone
        if a is SNone:
            bb = b if isinstance(b, SOpt) else SOpt(b, FALSE)
            return SOpt(bb.inner, z3.If(c, TRUE, bb.isnone))
        if b is SNone:
            aa = a if isinstance(a, SOpt) else SOpt(a, FALSE)
            return SOpt(aa.inner, z3.If(c, aa.isnone, TRUE))
        if isinstance(a, SOpt) or isinstance(b, SOpt):
            aa = a if isinstance(a, SOpt) else SOpt(a, FALSE)
            bb = b if isinstance(b, SOpt) else SOpt(b, FALSE)
            return SOpt(self.ite(c, aa.inner, bb.inner), z3.If(c, aa.isnone, bb.isnone))
        if isinstance(a, SBool) and isinstance(b, SBool):
            return SBool(z3.If(c, a.t, b.t))
        if isinstance(a, SInt) and isinstance(b, SInt):
            return SInt(z3.If(c, a.t, b.t))
        if isinstance(a, SStr) and isinstance(b, SStr):
            return SStr(z3.If(c, a.t, b.t))
        if isinstance(a, SEnum) and isinstance(b, SEnum) and a.ecls == b.ecls:
            return SEnum(a.ecls, z3.If(c, a.t, b.t))
        if isinstance(a, SElem) and isinstance(b, SElem) and a.lid == b.lid:
            return SElem(a.lid, tuple(z3.If(c, x, y) for x, y in zip(a.idx, b.idx)))
        if isinstance(a, SObj) and isinstance(b, SObj) and a.oid == b.oid:
            return a
        if isinstance(a, STuple) and isinstance(b, STuple) and len(a.items) == len(b.items):
            return STuple([self.ite(c, x, y) for x, y in zip(a.items, b.items)])
        try:
            if isinstance(a, (SList, SSet, SDict)) or isinstance(b, (SList, SSet, SDict)):
                raise Unsupported("merge of containers")
            return SVal(z3.If(c, self.to_val(a), self.to_val(b)))
        except Unsupported:
            raise Unsupported(f"ite merge {type(a).__name__}/{type(b).__name__}")

    # ------------------------------------------------------------------ Val conversion
    def to_val(self, v: V):
        if isinstance(v, SVal):
            return v.t
        if v is SNone:
            return VAL.VNone
        if isinstance(v, SBool):
            return VAL.VBool(v.t)
        if isinstance(v, SInt):
            return VAL.VInt(v.t)
        if isinstance(v, SFloat):
            return VAL.VFloat(v.t)
        if isinstance(v, SStr):
            return VAL.VStr(v.t)
        if isinstance(v, SOpt):
            return z3.If(v.isnone, VAL.VNone, self.to_val(v.inner))
        if isinstance(v, SEnum):
            return VAL.VOther(enum_code(v) + 1000 * (1 + sorted(ENUMS.sorts).index(v.ecls)))
        if isinstance(v, (SList, SSet)):
            rec = self.st.lists[v.lid]
            from .values import vdict_get, vdict_has, vlist_get

            if rec.kind == "conc":
                # structural encoding: equal contents (in order) give the same term
                nil = z3.Int("vlist_nil")
                cons = z3.Function("vlist_cons", z3.IntSort(), VAL, z3.IntSort())
                t = nil
                vals = [self.to_val(it) for it in rec.items]
                for x in vals:
                    t = cons(t, x)
                self.st.assume(vlist_len(t) == len(vals))
                for i, x in enumerate(vals):
                    self.st.assume(vlist_get(t, z3.IntVal(i)) == x)
                self.st.ghost.setdefault("val_back", {})[str(t)] = v
                return VAL.VList(t)
            key = ("vlist", v.lid, tuple(str(i) for i in v.idx))
            g = self.st.ghost.setdefault("val_ids", {})
            if key not in g:
                g[key] = fresh_int("vlid")
                self.st.ghost.setdefault("val_back", {})[str(g[key])] = v
            return VAL.VList(g[key])
        if isinstance(v, SDict):
            from .values import vdict_get, vdict_has

            drec = self.st.dicts[v.did]
            if drec.kind == "conc" and all(isinstance(kk, SStr) for kk, _ in drec.items):
                nil = z3.Int("vdict_nil")
                cons = z3.Function("vdict_cons", z3.IntSort(), z3.IntSort(), VAL, z3.IntSort())
                t = nil
                pairs = [(kk.t, self.to_val(vv)) for kk, vv in drec.items]
                for kt, vt in pairs:
                    t = cons(t, kt, vt)
                for kt, vt in pairs:
                    self.st.assume(z3.And(vdict_has(t, kt), vdict_get(t, kt) == vt))
                self.st.assume(vdict_size(t) == len(pairs))
                self.st.ghost.setdefault("val_back", {})[str(t)] = v
                return VAL.VDict(t)
            key = ("vdict", v.did)
            g = self.st.ghost.setdefault("val_ids", {})
            if key not in g:
                g[key] = fresh_int("vdid")
                self.st.ghost.setdefault("val_back", {})[str(g[key])] = v
            return VAL.VDict(g[key])
        if isinstance(v, SObj):
            return VAL.VOther(z3.IntVal(-v.oid))
        if isinstance(v, SCarried):
            raise Unsupported("loop-carried variable read")
        raise Unsupported(f"to_val {type(v).__name__}")

    def from_val_back(self, t):
        """If t is exactly VList(id)/VDict(id) of a container we converted earlier, return it."""
        back = self.st.ghost.get("val_back", {})
        if z3.is_app(t) and t.num_args() == 1 and t.decl().name() in ("VList", "VDict"):
            k = str(t.arg(0))
            if k in back:
                return back[k]
        return None

    # ------------------------------------------------------------------ lists
    def list_rec(self, v) -> ListRec:
        return self.st.lists[v.lid]

    def base_len(self, lid: int, pidx: tuple):
        rec = self.st.lists[lid]
        t = rec.length
        for i in pidx:
            t = z3.Select(t, i)
        return t

    def segments(self, v):
        """View a list value as a sequence of segments: ('conc', [V]) or Seg."""
        rec = self.st.lists[v.lid]
        if rec.kind == "conc":
            return [("conc", list(rec.items))]
        if rec.kind == "base":
            g = fresh_int("g")
            rec_t = rec.elem_type
            mapv = SElem(v.lid, tuple(v.idx) + (g,)) if (rec_t is None or rec_t[0] == "obj") else self.I.elem_value(v.lid, tuple(v.idx) + (g,))
            return [Seg(v.lid, tuple(v.idx), self.base_len(v.lid, tuple(v.idx)), g, TRUE, mapv)]
        return list(rec.segs)

    def list_len(self, v):
        rec = self.st.lists[v.lid]
        if rec.kind == "conc":
            return z3.IntVal(len(rec.items))
        if rec.kind == "base":
            return self.base_len(v.lid, tuple(v.idx))
        tot = z3.IntVal(0)
        for s in rec.segs:
            if isinstance(s, tuple):
                tot = tot + len(s[1])
            else:
                tot = tot + self.count_seg(s)
        return z3.simplify(tot)

    def count(self, lid, pidx, hi, g, cond):
        """|{ j in [0,hi) : cond(j) }| as an Int term with its defining facts registered."""
        cond = z3.simplify(cond)
        if z3.is_true(cond):
            return hi
        if z3.is_false(cond):
            return z3.IntVal(0)
        for c in self.st.counts:
            if c.lid == lid and len(c.pidx) == len(pidx) and all(x.eq(y) for x, y in zip(c.pidx, pidx)) and c.hi.eq(hi):
                if z3.substitute(c.cond, (c.g, g)).eq(cond):
                    return c.term
        term = fresh_int("cnt")
        self.st.counts.append(CountRec(lid, tuple(pidx), hi, g, cond, term))
        self.st.assume(z3.And(term >= 0, term <= hi))
        return term

    def count_seg(self, s, cond=None):
        """Number of elements of segment s (optionally restricted by an extra condition over its bound variables)."""
        c = s.cond if cond is None else cond
        if not s.outer:
            return self.count(s.lid, s.pidx, s.hi, s.g, c)
        # nested comprehension: a non-negative integer that is positive only if witnesses exist at every level
        # (the converse is not asserted: an over-approximation, extra paths only)
        term = fresh_int("ncnt")
        subs = []
        facts = []
        for (lid, pidx, hi, g, fc) in list(s.outer) + [(s.lid, s.pidx, s.hi, s.g, c)]:
            w = fresh_int("nw")
            subs.append((g, w))
            facts.append(z3.substitute(z3.And(g >= 0, g < hi, fc), *subs))
        self.st.assume(term >= 0)
        self.st.assume(z3.Implies(term > 0, z3.And(*facts)))
        return term

    def new_conc_list(self, items, as_set=False):
        lid = self.st.new_id()
        self.st.lists[lid] = ListRec("conc", items=list(items))
        return SSet(lid) if as_set else SList(lid)

    def new_derived(self, segs, as_set=False):
        segs = [s for s in segs if not (isinstance(s, tuple) and not s[1])]
        if all(isinstance(s, tuple) for s in segs):
            items = [x for s in segs for x in s[1]]
            return self.new_conc_list(items, as_set)
        lid = self.st.new_id()
        self.st.lists[lid] = ListRec("derived", segs=segs)
        return SSet(lid) if as_set else SList(lid)

    def contains(self, lst, x: V):
        """z3 Bool: x in lst."""
        disj = []
        for s in self.segments(lst):
            if isinstance(s, tuple):
                for it in s[1]:
                    disj.append(self.eq(it, x))
            else:
                c = z3.And(s.cond, self.eq(s.mapv, x))
                disj.append(self.count_seg(s, c) > 0)
        return z3.Or(*disj) if disj else FALSE

    # ------------------------------------------------------------------ dicts
    def dict_nonempty(self, d: SDict):
        rec = self.st.dicts[d.did]
        if rec.kind == "conc":
            return z3.BoolVal(len(rec.items) > 0)
        ne = rec.meta.get("nonempty")
        if ne is None:
            ne = z3.Bool(fresh_name("dict_nonempty"))
            rec.meta["nonempty"] = ne
        return ne

    def key_term(self, k: V):
        if isinstance(k, SStr) or type(k).__name__ == "SSqlCell":
            return k.t
        if isinstance(k, SVal):
            return VAL.vs(k.t)
        if isinstance(k, SOpt):
            return self.key_term(k.inner)
        if isinstance(k, SInt):
            # an int-keyed map (message ids): keys are the integers themselves.  Strings are interned codes in the same sort, so a
            # map that mixed str and int keys could alias them; no such map exists in the modelled code (listed assumption)
            self.st.assumptions.add("int-keyed dicts do not also hold str keys")
            return k.t
        raise Unsupported(f"dict key {type(k).__name__}")

    def dict_get(self, d: SDict, k: V):
        """returns (has: z3 Bool, value V)"""
        rec = self.st.dicts[d.did]
        if rec.kind == "conc":
            has = FALSE
            val: V | None = None
            for kk, vv in rec.items:
                c = self.eq(kk, k)
                if z3.is_true(z3.simplify(c)):
                    return TRUE, vv
                if z3.is_false(z3.simplify(c)):
                    continue
                if isinstance(vv, (SList, SSet, SDict, SObj, SFunc, SClass)) and not self.I.pure:
                    # container-valued entry under a symbolic key: decide the key by forking
                    if self.st.branch(c):
                        return TRUE, vv
                    continue
                val = vv if val is None else self.ite(c, vv, val)
                has = z3.Or(has, c)
            if val is None:
                return FALSE, SNone
            return has, val
        kt = self.key_term(k)
        has = z3.Select(rec.has, kt)
        raw = z3.Select(rec.vals, kt)
        if rec.meta.get("nonempty") is not None:
            self.st.assume(z3.Implies(has, rec.meta["nonempty"]))
        else:
            ne = self.dict_nonempty(d)
            self.st.assume(z3.Implies(has, ne))
        return has, self.unval(raw, rec.val_type)

    def unval(self, raw, t):
        if t is None or t[0] == "val":
            return SVal(raw)
        if t[0] == "str":
            return SStr(VAL.vs(raw))
        if t[0] == "int":
            return SInt(VAL.vi(raw))
        if t[0] == "bool":
            return SBool(VAL.vb(raw))
        return SVal(raw)

    def decide(self, c):
        """True / False when the path condition settles c, else None."""
        c = z3.simplify(c)
        if z3.is_true(c):
            return True
        if z3.is_false(c):
            return False
        if self.st.valid(c):
            return True
        if self.st.valid(z3.Not(c)):
            return False
        return None

    def dict_set(self, d: SDict, k: V, v: V):
        rec = self.st.dicts[d.did]
        rec.meta.setdefault("mut", []).append(("set", k, v))
        if rec.kind == "conc":
            for i, (kk, _vv) in enumerate(rec.items):
                dec = self.decide(self.eq(kk, k))
                c = TRUE if dec is True else (FALSE if dec is False else self.eq(kk, k))
                if z3.is_true(c):
                    rec.items[i] = (kk, v)
                    return
                if not z3.is_false(c):
                    self.dict_symbolize(d)
                    return self.dict_set(d, k, v)
            rec.items.append((k, v))
            return
        kt = self.key_term(k)
        rec.vals = z3.Store(rec.vals, kt, self.to_val(v))
        rec.has = z3.Store(rec.has, kt, TRUE)
        rec.meta["nonempty"] = TRUE
        self.I.dict_writeback(d)

    def dict_del(self, d: SDict, k: V):
        rec = self.st.dicts[d.did]
        rec.meta.setdefault("mut", []).append(("del", k))
        if rec.kind == "conc":
            for i, (kk, _vv) in enumerate(rec.items):
                c = z3.simplify(self.eq(kk, k))
                if z3.is_true(c):
                    del rec.items[i]
                    return
                if not z3.is_false(c):
                    self.dict_symbolize(d)
                    return self.dict_del(d, k)
            return
        kt = self.key_term(k)
        rec.has = z3.Store(rec.has, kt, FALSE)
        rec.meta.pop("nonempty", None)
        self.I.dict_writeback(d)

    def dict_symbolize(self, d: SDict):
        rec = self.st.dicts[d.did]
        if rec.kind == "sym":
            return
        vals = z3.K(z3.IntSort(), VAL.VNone)
        has = z3.K(z3.IntSort(), FALSE)
        for kk, vv in rec.items:
            kt = self.key_term(kk)
            vals = z3.Store(vals, kt, self.to_val(vv))
            has = z3.Store(has, kt, TRUE)
        rec.kind = "sym"
        rec.meta["nonempty"] = z3.BoolVal(len(rec.items) > 0)
        rec.items = []
        rec.vals, rec.has = vals, has
        rec.val_type = ("val",)

    def new_dict(self, items=None):
        did = self.st.new_id()
        self.st.dicts[did] = DictRec("conc", items=list(items or []))
        return SDict(did)

    def copy_dict(self, d: SDict) -> SDict:
        rec = self.st.dicts[d.did]
        did = self.st.new_id()
        self.st.dicts[did] = DictRec(rec.kind, list(rec.items), rec.vals, rec.has, None, rec.val_type, dict(rec.meta))
        return SDict(did)

    # ------------------------------------------------------------------ strings
    def lit(self, s: str) -> SStr:
        return SStr(STR.lit(s), s)

    def opaque_str(self, tag="s") -> SStr:
        return SStr(fresh_int(tag))

    def fmt(self, template: str, args: list) -> SStr:
        """f-string / format: an uninterpreted, injective-in-arguments function of its arguments."""
        if not args:
            return self.lit(template)
        terms = []
        for a in args:
            try:
                terms.append(self.to_val(a))
            except Unsupported:
                return self.opaque_str("fmt")
        fn = z3.Function("fmt_" + str(abs(hash(template)) % (10 ** 10)) + f"_{len(terms)}", *([VAL] * len(terms)), z3.IntSort())
        t = fn(*terms)
        key = ("fmt", template, len(terms))
        inv = self.st.ghost.setdefault("fmt_seen", {})
        # injectivity instances against earlier applications of the same template on this path
        for prev in inv.get(key, []):
            self.st.assume(z3.Implies(fn(*prev) == t, z3.And(*[p == q for p, q in zip(prev, terms)])))
        inv.setdefault(key, []).append(terms)
        if template.replace("{}", ""):
            self.st.assume(t != EMPTY)
        return SStr(t)
