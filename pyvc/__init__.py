"""pyvc -- verification-condition generator for the real source text of /repo/src/stabilize.

The package re-reads the repository's Python source with `ast` on every run, executes function
bodies symbolically (pyvc.exec) under sidecar contracts (/verif/contracts) and discharges the
generated obligations with z3, cvc5 taking z3's unknowns (pyvc.smt).  See /verif/DESIGN.md.
"""
