"""Discharging obligations: z3 first, cvc5 on z3's unknowns (and independently in the thorough tier)."""
from __future__ import annotations

import os
import subprocess
import tempfile
import time

import z3

CVC5 = "/usr/bin/cvc5"
BOTH = os.environ.get("PYVC_BOTH_BACKENDS") == "1"
CVC5_SECOND_OPINION_MS = 15000  # budget of the independent second opinion in the thorough tier (a time-out is reported, not a verdict)
STATS = {"z3_calls": 0, "cvc5_calls": 0, "z3_time": 0.0, "cvc5_time": 0.0, "disagreements": 0}


def _z3_check(hyps, goal, timeout_ms):
    s = z3.Solver()
    s.set("timeout", timeout_ms)
    for h in hyps:
        s.add(h)
    s.add(z3.Not(goal))
    t0 = time.time()
    r = s.check()
    STATS["z3_calls"] += 1
    STATS["z3_time"] += time.time() - t0
    return r, s


def _cvc5_check(solver: z3.Solver, timeout_ms):
    """Returns 'unsat' | 'sat' | 'unknown' | 'error:<msg>'."""
    try:
        txt = solver.to_smt2()
    except Exception as e:  # pragma: no cover
        return f"error:{e}"
    txt = "(set-logic ALL)\n" + txt
    t0 = time.time()
    try:
        with tempfile.NamedTemporaryFile("w", suffix=".smt2", delete=False) as fh:
            fh.write(txt)
            path = fh.name
        try:
            p = subprocess.run([CVC5, f"--tlimit={timeout_ms}", "--arrays-exp", path], capture_output=True, text=True,
                               timeout=timeout_ms / 1000 + 5)
        finally:
            os.unlink(path)
    except subprocess.TimeoutExpired:
        return "unknown"
    except OSError as e:
        return f"error:{e}"
    finally:
        STATS["cvc5_calls"] += 1
        STATS["cvc5_time"] += time.time() - t0
    out = (p.stdout or "").strip().splitlines()
    for line in out:
        if line.strip() in ("unsat", "sat", "unknown"):
            return line.strip()
    return "error:" + ((p.stderr or p.stdout or "").strip()[:200])


def prove(hyps, goal, timeout_ms=10000):
    """-> (status, backend, model, detail); status in discharged | failed | undecided."""
    r, s = _z3_check(hyps, goal, timeout_ms)
    if r == z3.unsat:
        if BOTH:
            c = _cvc5_check(s, min(timeout_ms, CVC5_SECOND_OPINION_MS))
            if c == "sat":
                STATS["disagreements"] += 1
                return ("undecided", "z3:unsat/cvc5:sat", None, "back ends disagree")
            return ("discharged", "z3" + ("+cvc5" if c == "unsat" else f"(cvc5:{c[:20]})"), None, "")
        return ("discharged", "z3", None, "")
    if r == z3.sat:
        m = s.model()
        return ("failed", "z3", m, "")
    c = _cvc5_check(s, timeout_ms)
    if c == "unsat":
        return ("discharged", "cvc5", None, "z3 unknown")
    if c == "sat":
        return ("undecided", "cvc5:sat", None, "z3 unknown, cvc5 sat without a usable model")
    return ("undecided", "z3:unknown/cvc5:" + c[:40], None, s.reason_unknown())
