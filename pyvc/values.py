"""Symbolic values and z3 sorts used by the executor."""
from __future__ import annotations

import itertools
from dataclasses import dataclass, field
from typing import Any

import z3

# ----------------------------------------------------------------------------- sorts
INT = z3.IntSort()
BOOL = z3.BoolSort()
STRS = z3.IntSort()  # strings are integer codes: literals are interned, everything else is opaque

# JSON-like dynamic values
Val = z3.Datatype("Val")
Val.declare("VNone")
Val.declare("VBool", ("vb", BOOL))
Val.declare("VInt", ("vi", INT))
Val.declare("VStr", ("vs", STRS))
Val.declare("VFloat", ("vf", z3.RealSort()))
Val.declare("VList", ("vl", INT))
Val.declare("VDict", ("vd", INT))
Val.declare("VOther", ("vo", INT))
Val = Val.create()
VAL = Val

vlist_len = z3.Function("vlist_len", INT, INT)
vlist_get = z3.Function("vlist_get", INT, INT, VAL)
vlist_has_str = z3.Function("vlist_has_str", INT, STRS, BOOL)  # membership of a string in a list value
vdict_has = z3.Function("vdict_has", INT, STRS, BOOL)
vdict_get = z3.Function("vdict_get", INT, STRS, VAL)
vdict_size = z3.Function("vdict_size", INT, INT)
vother_truthy = z3.Function("vother_truthy", INT, BOOL)
vhashable = z3.Function("vhashable", VAL, BOOL)

_fresh = itertools.count(1)


def fresh_name(prefix: str) -> str:
    return f"{prefix}!{next(_fresh)}"


def fresh_int(prefix: str = "i") -> z3.ArithRef:
    return z3.Int(fresh_name(prefix))


def fresh_bool(prefix: str = "b") -> z3.BoolRef:
    return z3.Bool(fresh_name(prefix))


def fresh_val(prefix: str = "v"):
    return z3.Const(fresh_name(prefix), VAL)


# ----------------------------------------------------------------------------- string interning
class StrTable:
    """Literal strings -> distinct integer codes (>= 0, dense). Opaque strings are fresh Int consts
    constrained to be < 0 or otherwise unconstrained?  We keep literals at codes 0..N and make no
    assumption about opaque ones, so an opaque string may equal a literal (sound)."""

    def __init__(self) -> None:
        self.codes: dict[str, int] = {"": 0}

    def lit(self, s: str) -> z3.ArithRef:
        if s not in self.codes:
            self.codes[s] = len(self.codes)
        return z3.IntVal(self.codes[s])

    def decode(self, code: int) -> str | None:
        for k, v in self.codes.items():
            if v == code:
                return k
        return None


STR = StrTable()
EMPTY = STR.lit("")


# ----------------------------------------------------------------------------- enum sorts
class EnumTable:
    def __init__(self) -> None:
        self.sorts: dict[str, tuple[Any, dict[str, Any], list[str]]] = {}

    def declare(self, name: str, members: list[str]):
        if name not in self.sorts:
            sort, consts = z3.EnumSort(f"E_{name}", members)
            self.sorts[name] = (sort, dict(zip(members, consts)), list(members))
        return self.sorts[name]

    def sort(self, name: str):
        return self.sorts[name][0]

    def member(self, name: str, member: str):
        return self.sorts[name][1][member]

    def members(self, name: str) -> list[str]:
        return self.sorts[name][2]


ENUMS = EnumTable()


# ----------------------------------------------------------------------------- values
class V:
    """Base class of symbolic values."""

    __slots__ = ()


class _NoneT(V):
    def __repr__(self) -> str:
        return "SNone"

    def __deepcopy__(self, memo):
        return self


SNone = _NoneT()


@dataclass(eq=False)
class SBool(V):
    t: Any

    def __repr__(self) -> str:
        return f"SBool({self.t})"


@dataclass(eq=False)
class SInt(V):
    t: Any

    def __repr__(self) -> str:
        return f"SInt({self.t})"


@dataclass(eq=False)
class SFloat(V):
    t: Any  # z3 Real


@dataclass(eq=False)
class SStr(V):
    t: Any
    lit: str | None = None  # python literal when known

    def __repr__(self) -> str:
        return f"SStr({self.lit!r})" if self.lit is not None else f"SStr({self.t})"


@dataclass(eq=False)
class SEnum(V):
    ecls: str
    t: Any

    def __repr__(self) -> str:
        return f"SEnum({self.ecls},{self.t})"


@dataclass(eq=False)
class SVal(V):
    t: Any  # z3 Val


@dataclass(eq=False)
class SOpt(V):
    inner: V
    isnone: Any  # z3 Bool


@dataclass(eq=False)
class SObj(V):
    oid: int

    def __repr__(self) -> str:
        return f"SObj#{self.oid}"


@dataclass(eq=False)
class SElem(V):
    lid: int
    idx: tuple  # index path (z3 Ints); last component indexes this list, earlier ones the parents

    def __repr__(self) -> str:
        return f"SElem(L{self.lid}{list(self.idx)})"


@dataclass(eq=False)
class SList(V):
    lid: int
    idx: tuple = ()  # parent index path for list families


@dataclass(eq=False)
class SSet(V):
    lid: int  # sets share the list machinery (order is not observable through the supported ops)
    idx: tuple = ()


@dataclass(eq=False)
class SDict(V):
    did: int


@dataclass(eq=False)
class STuple(V):
    items: list


@dataclass(eq=False)
class SFunc(V):
    node: Any  # ast.FunctionDef | ast.Lambda
    module: str
    env: Any  # closure Env or None
    self_val: V | None = None
    cls: Any = None  # ClassInfo where the function was found (for super())
    name: str = ""

    def __deepcopy__(self, memo):
        import copy

        return SFunc(self.node, self.module, copy.deepcopy(self.env, memo), copy.deepcopy(self.self_val, memo), self.cls, self.name)


@dataclass(eq=False)
class SClass(V):
    ci: Any  # ClassInfo

    def __deepcopy__(self, memo):
        return self


@dataclass(eq=False)
class SModule(V):
    name: str

    def __deepcopy__(self, memo):
        return self


@dataclass(eq=False)
class SExternal(V):
    qual: str  # "module:attr" of something outside the repository package

    def __deepcopy__(self, memo):
        return self


@dataclass(eq=False)
class SBuiltin(V):
    name: str

    def __deepcopy__(self, memo):
        return self


@dataclass(eq=False)
class SModel(V):
    """A bound model function (assumed contract) -- called as fn(interp, args, kwargs)."""

    fn: Any
    self_val: V | None = None
    name: str = ""

    def __deepcopy__(self, memo):
        import copy

        return SModel(self.fn, copy.deepcopy(self.self_val, memo), self.name)


@dataclass(eq=False)
class SCarried(V):
    """Placeholder for a variable that a summarised loop body may overwrite (loop-carried)."""

    name: str
    old: V


@dataclass(eq=False)
class SSuper(V):
    self_val: V
    after: Any  # ClassInfo after which the MRO search continues


@dataclass(eq=False)
class SOpaque(V):
    """A value we know nothing about except its identity (e.g. a logger, a lock)."""

    tag: str

    def __deepcopy__(self, memo):
        return self


@dataclass(eq=False)
class SHavoc(V):
    """A value about which nothing is known, not even its type (object state left by earlier calls whose type the
    verifier cannot express): every observation of it -- truthiness, None-ness, equality -- is an unconstrained boolean."""

    tag: str

    def __deepcopy__(self, memo):
        return self


# ----------------------------------------------------------------------------- records kept in State
@dataclass
class ObjRec:
    cls: str  # simple class name (model classes) or ClassInfo.qualname
    ci: Any = None
    fields: dict = field(default_factory=dict)
    meta: dict = field(default_factory=dict)

    def __deepcopy__(self, memo):
        import copy

        return ObjRec(self.cls, self.ci, copy.deepcopy(self.fields, memo), copy.deepcopy(self.meta, memo))


@dataclass
class Seg:
    """One segment of a derived list: [map(g) for g in range(hi) of base list `lid` if cond(g)]."""

    lid: int
    pidx: tuple  # parent index path of the base list family
    hi: Any  # z3 Int upper bound (<= len)
    g: Any  # bound z3 Int const
    cond: Any  # z3 Bool over g
    mapv: V  # value over g
    outer: tuple = ()  # enclosing iteration frames (lid, pidx, hi, g, cond), outermost first: a nested comprehension


@dataclass
class ListRec:
    kind: str  # 'base' | 'conc' | 'derived'
    elem_type: Any = None  # type descriptor for base lists
    length: Any = None  # base: z3 Int or (for families) z3 function Array over parent idx
    fields: dict = field(default_factory=dict)  # base: field -> z3 Array (nested for families)
    field_types: dict = field(default_factory=dict)
    items: list = field(default_factory=list)  # conc
    segs: list = field(default_factory=list)  # derived: list of ('conc', [V..]) | Seg
    arity: int = 0  # number of parent indices (families)
    name: str = ""
    opt_elems: bool = False  # elements may be None
    write_log: list = field(default_factory=list)
    read_log: list = field(default_factory=list)
    meta: dict = field(default_factory=dict)

    def __deepcopy__(self, memo):
        import copy

        r = ListRec(self.kind, self.elem_type, self.length, dict(self.fields), dict(self.field_types),
                    copy.deepcopy(self.items, memo), copy.deepcopy(self.segs, memo), self.arity, self.name,
                    self.opt_elems, list(self.write_log), list(self.read_log), copy.deepcopy(self.meta, memo))
        return r


@dataclass
class DictRec:
    kind: str  # 'conc' | 'sym'
    items: list = field(default_factory=list)  # conc: list of (key V, value V), literal/hashable keys
    vals: Any = None  # sym: z3 Array(STRS -> VAL)
    has: Any = None  # sym: z3 Array(STRS -> BOOL)
    backing: Any = None  # (lid, field, idx) if the dict is a field of a list element
    val_type: Any = None
    meta: dict = field(default_factory=dict)

    def __deepcopy__(self, memo):
        import copy

        return DictRec(self.kind, copy.deepcopy(self.items, memo), self.vals, self.has, self.backing, self.val_type,
                       copy.deepcopy(self.meta, memo))


class Unsupported(Exception):
    """Construct outside the supported subset: the obligations of this function are undecided."""


class PyRaise(Exception):
    """A Python exception raised by the code under execution."""

    def __init__(self, exc: V):
        super().__init__("PyRaise")
        self.exc = exc


class PathEnd(Exception):
    """Internal: abandon the current path (infeasible or cut)."""
