"""Attribute access, object construction, list-element fields, context managers."""
from __future__ import annotations

import ast

import z3

from . import builtins_model as BM
from .index import BUILTIN_EXC
from .ops import FALSE, TRUE
from .typesys import fresh_value, wrap
from .values import (BOOL, ENUMS, INT, STRS, VAL, DictRec, ListRec, ObjRec, PyRaise, SBool, SBuiltin, SCarried, SClass,
                     SDict, SElem, SEnum, SExternal, SFloat, SFunc, SInt, SList, SModel, SModule, SNone, SObj, SOpaque,
                     SOpt, SSet, SStr, SSuper, STuple, SVal, Unsupported, V, fresh_name)


class _GenClose(Exception):
    pass


CHILD_ID_BASE = 50_000_000
CHILD_IDS: dict = {}


class ObjectMixin:
    # ================================================================== getattr
    def getattr(self, obj: V, name: str) -> V:
        if isinstance(obj, SCarried):
            raise Unsupported(f"loop-carried variable {obj.name} read")
        if isinstance(obj, SOpt):
            if not self.pure and self.st.branch(obj.isnone):
                self.raise_builtin("AttributeError", f"'NoneType' object has no attribute '{name}'")
            return self.getattr(obj.inner, name)
        if obj is SNone:
            self.raise_builtin("AttributeError", f"'NoneType' object has no attribute '{name}'")
        if isinstance(obj, SObj):
            return self.obj_getattr(obj, name)
        if isinstance(obj, SElem):
            return self.elem_getattr(obj, name)
        if isinstance(obj, SEnum):
            return self.enum_getattr(obj, name)
        if isinstance(obj, SClass):
            return self.class_getattr(obj, name)
        if isinstance(obj, SModule):
            if obj.name in self.index.modules:
                return self.module_global(obj.name, name)
            return SExternal(f"{obj.name}:{name}")
        if isinstance(obj, SSuper):
            return self.super_getattr(obj, name)
        if isinstance(obj, SExternal):
            q = obj.qual + ("." if ":" in obj.qual else ":") + name
            return SExternal(q)
        if isinstance(obj, SFunc):
            if name == "__name__":
                return self.ops.lit(obj.name)
            raise Unsupported(f"function attribute {name}")
        if isinstance(obj, SBuiltin):
            if name == "__name__":
                return self.ops.lit(obj.name)
            return SBuiltin(f"{obj.name}.{name}")
        return BM.method(self, obj, name)

    def find_attr_in_class(self, obj: V, name: str):
        """Bound method / property value from the real class of obj, or None."""
        ci = self.class_of(obj)
        if ci is None:
            return None
        r = self.index.find_method(ci, name)
        if r is None:
            return None
        kind, owner, node = r
        if kind == "property":
            ov = self.registry.prop_override(owner.name, name) if self.registry else None
            if ov is not None:
                return ov(self, obj)
            return self.call_func(SFunc(node, owner.module, None, obj, owner, node.name), [], {})
        if name in owner.staticmethods:
            return SFunc(node, owner.module, None, None, owner, node.name)
        if name in owner.classmethods:
            return SFunc(node, owner.module, None, SClass(ci), owner, node.name)
        return SFunc(node, owner.module, None, obj, owner, node.name)

    def class_of(self, obj: V):
        if isinstance(obj, SObj):
            return self.st.objs[obj.oid].ci
        if isinstance(obj, SElem):
            rec = self.st.lists[obj.lid]
            if rec.elem_type and rec.elem_type[0] == "obj":
                return self.index.find_class(rec.elem_type[1])
        if isinstance(obj, SEnum):
            return self.index.find_class(obj.ecls)
        return None

    def obj_getattr(self, obj: SObj, name: str) -> V:
        rec = self.st.objs[obj.oid]
        if name in rec.fields:
            return rec.fields[name]
        if self.registry is not None:
            m = self.registry.method(rec.cls, name, self.index, rec.ci)
            if m is not None:
                self.st.assumptions.add(f"assumed:{rec.cls}.{name}")
                return SModel(m, obj, f"{rec.cls}.{name}")
        if rec.ci is not None:
            if name == "__class__":
                return SClass(rec.ci)
            if self.registry is not None:
                ov = self.registry.prop_override(rec.ci.name, name, self.index, rec.ci)
                if ov is not None:
                    v = ov(self, obj)
                    return v
            v = self.find_attr_in_class(obj, name)
            if v is not None:
                return v
            t = self.typer.field_type(rec.ci, name)
            if t is not None:
                if rec.meta.get("symbolic"):
                    v = fresh_value(self.st, self.typer, t, f"{rec.meta.get('name', rec.cls)}.{name}", det=True)
                    if isinstance(v, SObj):
                        self.st.objs[v.oid].meta["symbolic"] = True
                    rec.fields[name] = v
                    rec.meta.setdefault("lazy", []).append(name)
                    if self.registry is not None:
                        self.registry.on_lazy_field(self, obj, name, v)
                    return v
                # constructed object whose field was never set: dataclass default handled at construction
            for c in self.index.mro(rec.ci):
                if name in c.assigns:
                    return self.eval(c.assigns[name], self._class_env(c))
            if name == "__cause__":
                return SNone
            if name == "__dict__":
                items = []
                for f in self.index.all_fields(rec.ci):
                    items.append((self.ops.lit(f), self.obj_getattr(obj, f)))
                for f, v in rec.fields.items():
                    if f not in self.index.all_fields(rec.ci) and not f.startswith("__"):
                        items.append((self.ops.lit(f), v))
                return self.ops.new_dict(items)
        if rec.meta.get("exception"):
            if name == "args":
                return rec.fields.get("args", STuple([]))
            if name in ("__cause__", "__context__"):
                return SNone
        if rec.meta.get("open"):  # model object: unknown attribute is an opaque value
            v = SOpaque(f"{rec.cls}.{name}")
            rec.fields[name] = v
            return v
        self.raise_builtin("AttributeError", f"'{rec.cls}' object has no attribute '{name}'")

    def _class_env(self, ci):
        from .interp import Env

        return Env(None, ci.module)

    def has_attr(self, obj: V, name: str):
        """z3 Bool for hasattr(obj, name)."""
        if isinstance(obj, SOpt):
            return z3.And(z3.Not(obj.isnone), self.has_attr(obj.inner, name))
        if isinstance(obj, SObj):
            rec = self.st.objs[obj.oid]
            if name in rec.fields:
                return TRUE
            if rec.ci is not None:
                if self.index.find_method(rec.ci, name) is not None:
                    return TRUE
                if self.typer.field_type(rec.ci, name) is not None:
                    return TRUE
                for c in self.index.mro(rec.ci):
                    if name in c.assigns:
                        return TRUE
                if self.registry and self.registry.method(rec.cls, name, self.index, rec.ci) is not None:
                    return TRUE
                return FALSE
            if self.registry and self.registry.method(rec.cls, name, self.index, rec.ci) is not None:
                return TRUE
            if rec.meta.get("open"):
                k = f"hasattr:{name}"
                if k not in rec.meta:
                    rec.meta[k] = z3.Bool(fresh_name(k))
                return rec.meta[k]
            return FALSE
        if isinstance(obj, SElem):
            ci = self.class_of(obj)
            if ci is not None and (self.index.find_method(ci, name) or self.typer.field_type(ci, name) is not None):
                return TRUE
            return FALSE
        if obj is SNone:
            return FALSE
        raise Unsupported(f"hasattr on {type(obj).__name__}")

    # ================================================================== setattr
    def havoc_mutable_state(self, obj: SObj, skip=()) -> list:
        """Object state at the entry of a method under contract: every attribute that some method of the class other
        than the constructor assigns is replaced by an unconstrained value (of its annotated type where the constructor
        annotates it, otherwise a value about which nothing is known).  The constructor's values stay only for
        attributes nothing else writes.  Returns the attribute names havocked."""
        import ast as _ast

        from .typesys import fresh_value
        from .values import SHavoc

        rec = self.st.objs[obj.oid]
        ci = rec.ci
        if ci is None:
            return []
        anns: dict = {}
        written: dict = {}
        for c in self.index.mro(ci):
            for mname, node in c.methods.items():
                for n in _ast.walk(node):
                    tgts = []
                    if isinstance(n, _ast.Assign):
                        for t in n.targets:
                            tgts += list(t.elts) if isinstance(t, (_ast.Tuple, _ast.List)) else [t]
                    elif isinstance(n, (_ast.AugAssign, _ast.AnnAssign)):
                        tgts = [n.target]
                    for t in tgts:
                        if isinstance(t, _ast.Attribute) and isinstance(t.value, _ast.Name) and t.value.id == "self":
                            if mname in ("__init__", "__post_init__"):
                                if isinstance(n, _ast.AnnAssign):
                                    anns.setdefault(t.attr, (n.annotation, c.module))
                            else:
                                written.setdefault(t.attr, c)
        out = []
        for name in sorted(written):
            if name in skip or name not in rec.fields:
                continue
            if name in anns:
                ty = self.typer.from_ann(anns[name][0], anns[name][1])
                rec.fields[name] = fresh_value(self.st, self.typer, ty, f"{rec.meta.get('name', 'self')}.{name}", det=True)
            else:
                rec.fields[name] = SHavoc(f"{rec.meta.get('name', 'self')}.{name}")
            out.append(name)
        return out

    def setattr(self, obj: V, name: str, v: V) -> None:
        if isinstance(obj, SOpt):
            if self.st.branch(obj.isnone):
                self.raise_builtin("AttributeError", f"'NoneType' object has no attribute '{name}'")
            return self.setattr(obj.inner, name, v)
        if isinstance(obj, SObj):
            rec = self.st.objs[obj.oid]
            if rec.ci is not None:
                st = self.index.find_setter(rec.ci, name)
                ov = self.registry.prop_override(rec.ci.name, name, self.index, rec.ci) if self.registry else None
                if st is not None and ov is None:
                    owner, node = st
                    self.call_func(SFunc(node, owner.module, None, obj, owner, node.name), [v], {})
                    return
                if rec.ci.frozen and not rec.meta.get("constructing"):
                    self.raise_builtin("FrozenInstanceError", name)
            rec.fields[name] = v
            rec.meta.setdefault("writes", []).append(name)
            if self.registry is not None:
                self.registry.on_setattr(self, obj, name, v)
            return
        if isinstance(obj, SElem):
            return self.elem_setattr(obj, name, v)
        raise Unsupported(f"setattr on {type(obj).__name__}")

    # ================================================================== list elements
    def _arr_sort(self, arity: int, leaf):
        s = leaf
        for _ in range(arity):
            s = z3.ArraySort(INT, s)
        return s

    def _elem_array(self, lid: int, key: str, leaf_sort):
        rec = self.st.lists[lid]
        if key not in rec.fields:
            rec.fields[key] = z3.Const(f"{rec.name or 'L'}@{lid}.{key}", self._arr_sort(rec.arity + 1, leaf_sort))
        return rec.fields[key]

    @staticmethod
    def _select(arr, idx):
        for i in idx:
            arr = z3.Select(arr, i)
        return arr

    @classmethod
    def _store(cls, arr, idx, v):
        if len(idx) == 1:
            return z3.Store(arr, idx[0], v)
        return z3.Store(arr, idx[0], cls._store(z3.Select(arr, idx[0]), idx[1:], v))

    def note_index(self, e: SElem):
        lst = self.st.index_terms.setdefault(e.lid, [])
        for p in lst:
            if all(a.eq(b) for a, b in zip(p, e.idx)):
                return
        lst.append(e.idx)

    def elem_isnone(self, e: SElem):
        arr = self._elem_array(e.lid, "$isnone", BOOL)
        return self._select(arr, e.idx)

    def elem_value(self, lid: int, idx: tuple) -> V:
        rec = self.st.lists[lid]
        t = rec.elem_type
        if t is None:
            raise Unsupported("untyped base list")
        if t[0] == "obj":
            e = SElem(lid, idx)
            if rec.opt_elems:
                return SOpt(e, self.elem_isnone(e))
            return e
        s = self.typer.sort_of(t)
        if s is None:
            raise Unsupported(f"list of {t}")
        arr = self._elem_array(lid, "$v", s)
        v = wrap(t, self._select(arr, idx))
        if rec.opt_elems:
            return SOpt(v, self._select(self._elem_array(lid, "$isnone", BOOL), idx))
        return v

    def elem_getattr(self, e: SElem, name: str) -> V:
        rec = self.st.lists[e.lid]
        ci = self.class_of(e)
        if ci is None:
            raise Unsupported(f"attribute {name} of a non-object list element")
        if self.registry is not None:
            ov = self.registry.prop_override(ci.name, name, self.index, ci)
            if ov is not None:
                return ov(self, e)
            m = self.registry.method(ci.name, name, self.index, ci)
            if m is not None:
                return SModel(m, e, f"{ci.name}.{name}")
        v = self.find_attr_in_class(e, name)
        if v is not None:
            return v
        t = self.typer.field_type(ci, name)
        if t is None:
            self.raise_builtin("AttributeError", name)
        return self.elem_field(e, name, t)

    def elem_field(self, e: SElem, name: str, t) -> V:
        rec = self.st.lists[e.lid]
        rec.read_log.append((name, e.idx))
        rec.field_types[name] = t
        k = t[0]
        if k == "opt":
            inner = t[1]
            isn = self._select(self._elem_array(e.lid, name + "?", BOOL), e.idx)
            if inner[0] in ("obj", "list", "set", "dict"):
                return SOpt(self.elem_field(e, name, inner), isn)
            s = self.typer.sort_of(inner)
            return SOpt(wrap(inner, self._select(self._elem_array(e.lid, name, s), e.idx)), isn)
        s = self.typer.sort_of(t)
        if s is not None:
            return wrap(t, self._select(self._elem_array(e.lid, name, s), e.idx))
        cache = self.st.ghost.setdefault("elem_cont", {})
        ckey = (e.lid, name, tuple(str(i) for i in e.idx))
        if k == "dict":
            if ckey in cache:
                return cache[ckey]
            vals = self._select(self._elem_array(e.lid, name + ".vals", z3.ArraySort(STRS, VAL)), e.idx)
            has = self._select(self._elem_array(e.lid, name + ".has", z3.ArraySort(STRS, BOOL)), e.idx)
            did = self.st.new_id()
            self.st.dicts[did] = DictRec("sym", vals=vals, has=has, backing=(e.lid, name, e.idx), val_type=t[1])
            d = SDict(did)
            cache[ckey] = d
            return d
        if k in ("list", "set"):
            child = rec.meta.get("child:" + name)
            if child is None:
                # the id of a nested list is a function of (parent list, field), not of allocation order: sibling sub-states
                # (body paths of a summarised loop) that create nested lists in different orders must agree on it
                child = CHILD_IDS.setdefault((e.lid, name), CHILD_ID_BASE + len(CHILD_IDS))
                et = t[1]
                crec = ListRec("base", elem_type=et, arity=rec.arity + 1, name=f"{rec.name}.{name}")
                if et[0] == "opt":
                    crec.opt_elems, crec.elem_type = True, et[1]
                crec.length = z3.Const(f"{rec.name}@{e.lid}.{name}.len", self._arr_sort(rec.arity + 1, INT))
                self.st.lists[child] = crec
                rec.meta["child:" + name] = child
            ln = self._select(self.st.lists[child].length, e.idx)
            self.st.assume(ln >= 0)
            return SList(child, e.idx) if k == "list" else SSet(child, e.idx)
        if k == "obj":
            if ckey in cache:
                return cache[ckey]
            v = fresh_value(self.st, self.typer, t, f"{rec.name}@{e.lid}[{e.idx[-1]}].{name}", det=True)
            self.st.objs[v.oid].meta["symbolic"] = True
            cache[ckey] = v
            return v
        if k in ("opaque", "any", "tuple", "none"):
            return fresh_value(self.st, self.typer, t, name)
        raise Unsupported(f"element field {name}: {t}")

    def elem_setattr(self, e: SElem, name: str, v: V) -> None:
        rec = self.st.lists[e.lid]
        ci = self.class_of(e)
        t = self.typer.field_type(ci, name) if ci else None
        if t is None:
            raise Unsupported(f"assignment to unknown element field {name}")
        rec.write_log.append((name, e.idx))
        self.note_index(e)
        k = t[0]
        if k == "opt":
            inner = t[1]
            s = self.typer.sort_of(inner)
            if s is None:
                raise Unsupported(f"assignment to element field {name}: {t}")
            isn_arr = self._elem_array(e.lid, name + "?", BOOL)
            val_arr = self._elem_array(e.lid, name, s)
            rec.fields[name + "?"] = self._store(isn_arr, e.idx, self.ops.is_none(v))
            if v is not SNone:
                iv = self.ops.strip_opt(v)
                rec.fields[name] = self._store(val_arr, e.idx, self.scalar_term(iv, inner))
            return
        s = self.typer.sort_of(t)
        if s is not None:
            arr = self._elem_array(e.lid, name, s)
            rec.fields[name] = self._store(arr, e.idx, self.scalar_term(v, t))
            return
        if k == "dict" and isinstance(v, SDict):
            self.ops.dict_symbolize(v)
            dr = self.st.dicts[v.did]
            va = self._elem_array(e.lid, name + ".vals", z3.ArraySort(STRS, VAL))
            ha = self._elem_array(e.lid, name + ".has", z3.ArraySort(STRS, BOOL))
            rec.fields[name + ".vals"] = self._store(va, e.idx, dr.vals)
            rec.fields[name + ".has"] = self._store(ha, e.idx, dr.has)
            self.st.ghost.get("elem_cont", {}).pop((e.lid, name, tuple(str(i) for i in e.idx)), None)
            return
        raise Unsupported(f"assignment to element field {name}: {t}")

    def scalar_term(self, v: V, t):
        k = t[0]
        if isinstance(v, SCarried):
            raise Unsupported("loop-carried variable read")
        if k == "bool":
            return self.ops.truthy(v) if not isinstance(v, SBool) else v.t
        if k == "int":
            return self.ops.as_int(v)
        if k == "float":
            return self.ops.as_real(v)
        if k == "str" and isinstance(v, SStr):
            return v.t
        if k == "str" and isinstance(v, SVal):
            return VAL.vs(v.t)
        if k == "enum" and isinstance(v, SEnum):
            return v.t
        if k == "val":
            return self.ops.to_val(v)
        if isinstance(v, SOpt):
            return self.scalar_term(v.inner, t)
        raise Unsupported(f"cannot store {type(v).__name__} as {t}")

    def dict_writeback(self, d: SDict) -> None:
        rec = self.st.dicts[d.did]
        if rec.backing is None:
            return
        lid, name, idx = rec.backing
        lrec = self.st.lists[lid]
        lrec.write_log.append((name, idx))
        va = self._elem_array(lid, name + ".vals", z3.ArraySort(STRS, VAL))
        ha = self._elem_array(lid, name + ".has", z3.ArraySort(STRS, BOOL))
        lrec.fields[name + ".vals"] = self._store(va, idx, rec.vals)
        lrec.fields[name + ".has"] = self._store(ha, idx, rec.has)

    def list_index(self, lst: SList, key: V) -> V:
        rec = self.st.lists[lst.lid]
        if rec.kind == "conc":
            k = z3.simplify(self.ops.as_int(key))
            if z3.is_int_value(k):
                i = k.as_long()
                if i >= len(rec.items) or i < -len(rec.items):
                    self.raise_builtin("IndexError", "list index out of range")
                return rec.items[i]
            n = len(rec.items)
            if not self.pure and self.st.branch(z3.Or(k >= n, k < -n)):
                self.raise_builtin("IndexError", "list index out of range")
            if n == 0:
                self.raise_builtin("IndexError", "list index out of range")
            res = rec.items[-1]
            for i in range(n - 2, -1, -1):
                res = self.ops.ite(z3.Or(k == i, k == i - n), rec.items[i], res)
            return res
        k = self.ops.as_int(key)
        if rec.kind == "base":
            n = self.ops.list_len(lst)
            if not self.pure and self.st.branch(z3.Or(k >= n, k < -n)):
                self.raise_builtin("IndexError", "list index out of range")
            idx = z3.simplify(z3.If(k >= 0, k, n + k))
            e = self.elem_value(lst.lid, tuple(lst.idx) + (idx,))
            if isinstance(e, SElem):
                self.note_index(e)
            return e
        # derived list: only L[0] (first match) is supported
        ks = z3.simplify(k)
        segs = [x for x in rec.segs if not (isinstance(x, tuple) and not x[1])]
        if z3.is_int_value(ks) and ks.as_long() == 0 and len(segs) == 1 and not isinstance(segs[0], tuple):
            s = segs[0]
            n = self.ops.list_len(lst)
            if not self.pure and self.st.branch(n <= 0):
                self.raise_builtin("IndexError", "list index out of range")
            w = self.first_index(s.lid, s.pidx, s.hi, s.g, s.cond)
            return self.subst_value(s.mapv, s.g, w)
        raise Unsupported("indexing a derived list")

    def list_extend(self, lst, other: V) -> None:
        rec = self.st.lists[lst.lid]
        segs = self.ops.segments(other) if isinstance(other, (SList, SSet)) else [("conc", self.concrete_items(other))]
        if rec.kind == "conc" and all(isinstance(s, tuple) for s in segs):
            for s in segs:
                if isinstance(lst, SSet):
                    for it in s[1]:
                        self.set_add(lst, it)
                else:
                    rec.items.extend(s[1])
            return
        if rec.kind == "base":
            raise Unsupported("extending a symbolic base list")
        cur = self.ops.segments(lst)
        rec.kind = "derived"
        rec.segs = cur + segs
        rec.items = []

    def set_add(self, s: SSet, x: V) -> None:
        rec = self.st.lists[s.lid]
        if rec.kind == "conc":
            for it in rec.items:
                c = z3.simplify(self.ops.eq(it, x))
                if z3.is_true(c):
                    return
            # possibly-equal symbolic members: keep both, membership semantics are unaffected
            rec.items.append(x)
            rec.meta["maybe_dups"] = True
            return
        cur = self.ops.segments(s)
        rec.kind = "derived"
        rec.segs = cur + [("conc", [x])]
        rec.meta["maybe_dups"] = True

    def dict_update(self, d: SDict, src: V) -> None:
        if isinstance(src, SOpt):
            if self.st.branch(src.isnone):
                self.raise_builtin("TypeError", "'NoneType' object is not iterable")
            src = src.inner
        if isinstance(src, SDict):
            srec = self.st.dicts[src.did]
            if srec.kind == "conc":
                for k, v in list(srec.items):
                    self.ops.dict_set(d, k, v)
                return
            self.ops.dict_symbolize(d)
            drec = self.st.dicts[d.did]
            k = z3.Int(fresh_name("k"))
            drec.vals = z3.Lambda([k], z3.If(z3.Select(srec.has, k), z3.Select(srec.vals, k), z3.Select(drec.vals, k)))
            drec.has = z3.Lambda([k], z3.Or(z3.Select(srec.has, k), z3.Select(drec.has, k)))
            ne_s = self.ops.dict_nonempty(src)
            old_ne = drec.meta.get("nonempty")
            drec.meta["nonempty"] = z3.Or(ne_s, old_ne) if old_ne is not None else z3.Or(ne_s, z3.Bool(fresh_name("ne")))
            self.dict_writeback(d)
            return
        if isinstance(src, SVal):
            return BM.dict_update_from_val(self, d, src)
        raise Unsupported(f"dict.update from {type(src).__name__}")

    # ================================================================== enums
    def enum_member(self, ci, member: str) -> SEnum:
        self.typer.declare_enum(ci)
        return SEnum(ci.name, ENUMS.member(ci.name, member))

    def enum_table(self, ci, attr: str):
        """attr value for each member, by running the real __init__ on the member's value."""
        cache = self.st.ghost.setdefault("enum_tab", {})
        key = (ci.name, attr)
        if key in cache:
            return cache[key]
        out = []
        init = self.index.find_method(ci, "__init__")
        for m, vexpr in self.index.enum_members(ci):
            val = self.eval(vexpr, self._class_env(ci))
            if attr == "value" or attr == "_value_":
                out.append((m, val))
                continue
            if init is None:
                raise Unsupported(f"enum attribute {attr}")
            oid = self.st.new_id()
            self.st.objs[oid] = ObjRec(ci.name + "$member", None, {}, {})
            args = val.items if isinstance(val, STuple) else [val]
            _k, owner, node = init
            self.call_func(SFunc(node, owner.module, None, SObj(oid), owner, "__init__"), list(args), {})
            if attr not in self.st.objs[oid].fields:
                raise Unsupported(f"enum attribute {attr}")
            out.append((m, self.st.objs[oid].fields[attr]))
            del self.st.objs[oid]
        cache[key] = out
        return out

    def enum_getattr(self, e: SEnum, name: str) -> V:
        ci = self.index.find_class(e.ecls)
        if name == "name":
            ms = ENUMS.members(e.ecls)
            res = self.ops.lit(ms[-1])
            for m in reversed(ms[:-1]):
                res = SStr(z3.If(e.t == ENUMS.member(e.ecls, m), self.ops.lit(m).t, res.t))
            return res
        r = self.index.find_method(ci, name)
        if r is not None:
            return self.find_attr_in_class(e, name)
        tab = self.enum_table(ci, name)
        res = tab[-1][1]
        for m, v in reversed(tab[:-1]):
            res = self.ops.ite(e.t == ENUMS.member(e.ecls, m), v, res)
        return res

    def enum_by_name(self, ci, key: V) -> V:
        self.typer.declare_enum(ci)
        ms = ENUMS.members(ci.name)
        if isinstance(key, SStr) and key.lit is not None:
            if key.lit not in ms:
                self.raise_builtin("KeyError", key.lit)
            return self.enum_member(ci, key.lit)
        kt = self.ops.key_term(key)
        anym = z3.Or(*[kt == self.ops.lit(m).t for m in ms])
        if not self.pure and self.st.branch(z3.Not(anym)):
            self.raise_builtin("KeyError", "enum name")
        res = ENUMS.member(ci.name, ms[-1])
        for m in reversed(ms[:-1]):
            res = z3.If(kt == self.ops.lit(m).t, ENUMS.member(ci.name, m), res)
        return SEnum(ci.name, res)

    def enum_by_value(self, ci, val: V) -> V:
        self.typer.declare_enum(ci)
        tab = self.enum_table(ci, "value")
        conds = [(m, self.ops.eq(v, val)) for m, v in tab]
        anym = z3.Or(*[c for _, c in conds])
        if not self.pure and self.st.branch(z3.Not(anym)):
            self.raise_builtin("ValueError", "not a valid enum value")
        res = ENUMS.member(ci.name, conds[-1][0])
        for m, c in reversed(conds[:-1]):
            res = z3.If(c, ENUMS.member(ci.name, m), res)
        return SEnum(ci.name, res)

    def class_getattr(self, c: SClass, name: str) -> V:
        ci = c.ci
        if self.index.is_enum(ci) and name in ci.assigns and not name.startswith("_"):
            return self.enum_member(ci, name)
        if name == "__name__":
            return self.ops.lit(ci.name)
        r = self.index.find_method(ci, name)
        if r is not None:
            kind, owner, node = r
            if name in owner.classmethods:
                return SFunc(node, owner.module, None, c, owner, name)
            return SFunc(node, owner.module, None, None, owner, name)
        for k in self.index.mro(ci):
            if name in k.assigns:
                return self.eval(k.assigns[name], self._class_env(k))
            if name in k.fields and k.fields[name][1] is not None:
                return self.eval(k.fields[name][1], self._class_env(k))
        raise Unsupported(f"class attribute {ci.name}.{name}")

    def super_getattr(self, s: SSuper, name: str) -> V:
        ci = self.class_of(s.self_val) if not isinstance(s.self_val, SClass) else s.self_val.ci
        if ci is None:
            raise Unsupported("super() on unknown class")
        mro = self.index.mro(ci)
        start = 0
        if s.after is not None:
            for i, c in enumerate(mro):
                if c is s.after:
                    start = i + 1
                    break
        for c in mro[start:]:
            if name in c.methods:
                node = c.methods[name]
                return SFunc(node, c.module, None, s.self_val, c, name)
        if name == "__init__":
            def _noop(I, args, kwargs):
                selfv = args[0]
                if isinstance(selfv, SObj):
                    I.st.objs[selfv.oid].fields.setdefault("args", STuple(list(args[1:])))
                return SNone
            return SModel(_noop, s.self_val, "object.__init__")
        if name in ("__post_init__", "__enter__", "__exit__"):
            return SModel(lambda I, a, k: SNone, s.self_val, "object." + name)
        raise Unsupported(f"super().{name}")

    # ================================================================== construction
    def construct(self, ci, args: list, kwargs: dict) -> V:
        if self.registry is not None:
            m = self.registry.constructor(ci)
            if m is not None:
                self.st.assumptions.add(f"assumed:{ci.name}()")
                return m(self, args, kwargs)
        if self.index.is_enum(ci):
            if len(args) != 1:
                raise Unsupported("enum construction")
            return self.enum_by_value(ci, args[0])
        oid = self.st.new_id()
        rec = ObjRec(ci.name, ci, {}, {"constructing": True})
        if self.index.is_exception(ci):
            rec.meta["exception"] = True
        self.st.objs[oid] = rec
        obj = SObj(oid)
        init = self.index.find_method(ci, "__init__")
        if init is not None:
            _k, owner, node = init
            if rec.meta.get("exception"):
                rec.fields["args"] = STuple(list(args))
            self.call_func(SFunc(node, owner.module, None, obj, owner, "__init__"), args, kwargs)
        elif any(c.is_dataclass for c in self.index.mro(ci)):
            self.dataclass_init(obj, ci, args, kwargs)
        else:
            if rec.meta.get("exception"):
                rec.fields["args"] = STuple(list(args))
            elif args or kwargs:
                raise Unsupported(f"constructor of {ci.name} with arguments but no __init__")
        rec.meta.pop("constructing", None)
        if self.registry is not None:
            self.registry.on_construct(self, obj, ci)
        return obj

    def dataclass_init(self, obj: SObj, ci, args, kwargs) -> None:
        rec = self.st.objs[obj.oid]
        fields = self.index.all_fields(ci)
        names = [n for n in fields if not self._is_classvar(fields[n][0])]
        kwargs = dict(kwargs)
        if len(args) > len(names):
            self.raise_builtin("TypeError", "too many arguments")
        for i, n in enumerate(names):
            ann, dflt, owner = fields[n]
            if i < len(args):
                rec.fields[n] = args[i]
            elif n in kwargs:
                rec.fields[n] = kwargs.pop(n)
            else:
                rec.fields[n] = self.dataclass_default(n, dflt, owner)
        if kwargs:
            self.raise_builtin("TypeError", f"unexpected keyword argument {list(kwargs)}")
        rec.meta["value_eq"] = True
        pi = self.index.find_method(ci, "__post_init__")
        if pi is not None:
            _k, owner, node = pi
            self.call_func(SFunc(node, owner.module, None, obj, owner, "__post_init__"), [], {})

    def _is_classvar(self, ann) -> bool:
        return ann is not None and "ClassVar" in ast.unparse(ann)

    def dataclass_default(self, name, dflt, owner) -> V:
        env = self._class_env(owner)
        if dflt is None:
            self.raise_builtin("TypeError", f"missing required argument {name}")
        if isinstance(dflt, ast.Call) and isinstance(dflt.func, ast.Name) and dflt.func.id == "field":
            for kw in dflt.keywords:
                if kw.arg == "default":
                    return self.eval(kw.value, env)
                if kw.arg == "default_factory":
                    fac = self.eval(kw.value, env)
                    return self.call(fac, [], {})
            self.raise_builtin("TypeError", f"missing required argument {name}")
        return self.eval(dflt, env)

    def dataclass_eq(self, a: SObj, b: SObj):
        ra, rb = self.st.objs[a.oid], self.st.objs[b.oid]
        conj = []
        for n in ra.fields:
            if n in rb.fields and not n.startswith("__"):
                conj.append(self.ops.eq(ra.fields[n], rb.fields[n]))
        return z3.And(*conj) if conj else TRUE

    # ================================================================== isinstance
    def isinstance_(self, obj: V, cls: V):
        if isinstance(cls, STuple):
            return z3.Or(*[self.isinstance_(obj, c) for c in cls.items])
        if isinstance(obj, SOpt):
            return z3.And(z3.Not(obj.isnone), self.isinstance_(obj.inner, cls))
        if isinstance(obj, SVal):
            return BM.val_isinstance(self, obj, cls)
        cname = cls.ci.name if isinstance(cls, SClass) else (cls.name if isinstance(cls, SBuiltin) else
                                                              cls.qual.split(":")[-1].split(".")[-1] if isinstance(cls, SExternal) else None)
        if cname is None:
            raise Unsupported("isinstance class argument")
        if obj is SNone:
            return z3.BoolVal(cname in ("NoneType", "object"))
        prim = {SBool: {"bool", "int", "object"}, SInt: {"int", "object"}, SStr: {"str", "object"}, SFloat: {"float", "object"},
                SList: {"list", "object", "Sequence", "Iterable"}, SDict: {"dict", "object", "Mapping"}, SSet: {"set", "frozenset", "object"},
                STuple: {"tuple", "object", "Sequence"}}
        if type(obj).__name__ == "SSqlCell" and getattr(obj, "coltype", "").startswith(("TEXT", "VARCHAR", "CHAR")):
            return z3.BoolVal(cname in ("str", "object"))
        for k, names in prim.items():
            if isinstance(obj, k):
                return z3.BoolVal(cname in names)
        if isinstance(obj, SEnum):
            ci = self.index.find_class(obj.ecls)
            return z3.BoolVal(cname in self.index.base_names(ci) or cname == "object")
        if isinstance(obj, (SObj, SElem)):
            ci = self.class_of(obj)
            if ci is not None:
                if isinstance(obj, SObj) and self.st.objs[obj.oid].meta.get("symbolic") and isinstance(cls, SClass):
                    # a symbolic object of declared class C may be an instance of a subclass of C
                    if cname in self.index.base_names(ci):
                        return TRUE
                    if ci.name in self.index.base_names(cls.ci):
                        rec = self.st.objs[obj.oid]
                        k = f"isinstance:{cname}"
                        if k not in rec.meta:
                            rec.meta[k] = z3.Bool(fresh_name(k))
                        return rec.meta[k]
                    return FALSE
                return z3.BoolVal(cname in self.index.base_names(ci) or cname == "object")
            rec = self.st.objs[obj.oid]
            if rec.cls in BUILTIN_EXC:
                from .index import builtin_exc_ancestors

                return z3.BoolVal(cname in builtin_exc_ancestors(rec.cls))
            if rec.meta.get("open"):
                k = f"isinstance:{cname}"
                if rec.cls == cname:
                    return TRUE
                if k not in rec.meta:
                    rec.meta[k] = z3.Bool(fresh_name(k))
                return rec.meta[k]
            return z3.BoolVal(rec.cls == cname)
        if isinstance(obj, (SFunc, SModel, SBuiltin)):
            return z3.BoolVal(cname in ("Callable", "object"))
        raise Unsupported(f"isinstance on {type(obj).__name__}")

    # ================================================================== context managers
    def with_cm(self, cm: V, optional_vars, body, env) -> None:
        if isinstance(cm, SObj):
            rec = self.st.objs[cm.oid]
            if "gen" in rec.meta:
                f, args, kwargs = rec.meta["gen"]
                return self.run_gen_cm(f, args, kwargs, optional_vars, body, env)
            if "enter" in rec.meta:
                val = rec.meta["enter"](self, cm)
                if optional_vars is not None:
                    self.assign_target(optional_vars, val, env)
                try:
                    body()
                except PyRaise as pr:
                    if rec.meta["exit"](self, cm, pr.exc):
                        return
                    raise
                except BaseException as e:
                    from .interp import _Break, _Continue, _Return

                    if isinstance(e, (_Return, _Break, _Continue)):
                        rec.meta["exit"](self, cm, None)
                    raise
                else:
                    rec.meta["exit"](self, cm, None)
                return
            ent = self.find_attr_in_class(cm, "__enter__")
            if ent is not None:
                val = self.call(ent, [], {})
                if optional_vars is not None:
                    self.assign_target(optional_vars, val, env)
                ex = self.find_attr_in_class(cm, "__exit__")
                try:
                    body()
                except PyRaise as pr:
                    r = self.call(ex, [SNone, pr.exc, SNone], {})
                    if self.st.branch(self.ops.truthy(r)):
                        return
                    raise
                else:
                    self.call(ex, [SNone, SNone, SNone], {})
                return
        if isinstance(cm, SOpaque):
            self.st.assumptions.add(f"assumed:with {cm.tag} (lock-like, effect-free)")
            if optional_vars is not None:
                self.assign_target(optional_vars, cm, env)
            body()
            hook = self.st.ghost.get("on_lock_release")
            if hook is not None:
                # a lock release is a point where another thread may observe the object: the unit may record what is visible
                # there (used for "authority is granted last", seed C09-H)
                self.st.emit("lock_release", tag=cm.tag, snap=hook(self))
            return
        raise Unsupported(f"with-statement on {type(cm).__name__}")

    def run_gen_cm(self, f: SFunc, args, kwargs, optional_vars, body, env) -> None:
        from .interp import _Break, _Continue, _Return

        holder: dict = {}

        def hook(val):
            holder["ran"] = True
            if optional_vars is not None:
                self.assign_target(optional_vars, val, env)
            saved = self.yield_hooks.pop()
            try:
                body()
            except (_Return, _Break, _Continue) as ctl:
                holder["ctl"] = ctl
                raise _GenClose()
            finally:
                self.yield_hooks.append(saved)
            return SNone

        self.yield_hooks.append(hook)
        try:
            try:
                self.call_func(f, args, kwargs, raw=True)
            except _GenClose:
                pass
        finally:
            self.yield_hooks.pop()
        if "ctl" in holder:
            raise holder["ctl"]
        if not holder.get("ran"):
            raise Unsupported("context manager generator did not yield")
