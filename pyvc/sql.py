"""SQL front end: semantics of the SQL text found in the real `conn.execute(...)` calls (DESIGN 1.4).

Tables are z3 arrays keyed by the primary key (every column value is an integer: INTEGER columns as such, TEXT
columns as interned string codes, JSON columns as an uninterpreted encoding, NULL as a separate flag).  Each
statement is a state transformer plus a cursor (rowcount / fetchone / lastrowid).  A statement outside the grammar
raises Unsupported: its obligations are undecided, never silently skipped."""
from __future__ import annotations

import re
from dataclasses import dataclass, field

import z3

from .ops import FALSE, TRUE
from .values import (ObjRec, PyRaise, SBool, SDict, SEnum, SFloat, SInt, SList, SModel, SNone, SObj, SOpt, SStr, STuple,
                     SVal, Unsupported, V, fresh_bool, fresh_int, fresh_name)

INT = z3.IntSort()
BOOL = z3.BoolSort()

# ----------------------------------------------------------------------------- lexer / parser
TOKEN = re.compile(r"\s*(?:(?P<num>\d+)|(?P<str>'(?:[^']|'')*')|(?P<param>:[A-Za-z_][A-Za-z_0-9]*)|(?P<q>\?)|"
                   r"(?P<id>[A-Za-z_][A-Za-z_0-9]*(?:\.[A-Za-z_][A-Za-z_0-9]*)?)|(?P<op><=|>=|<>|!=|\|\||[=<>+\-*/(),;]))", re.S)
KEYWORDS = {"SELECT", "FROM", "WHERE", "AND", "OR", "NOT", "IS", "NULL", "IN", "INSERT", "INTO", "VALUES", "UPDATE", "SET",
            "DELETE", "RETURNING", "ORDER", "BY", "LIMIT", "ASC", "DESC", "IGNORE", "REPLACE", "AS", "LIKE", "ON", "CONFLICT",
            "DO", "NOTHING", "OFFSET", "BETWEEN", "DISTINCT", "GROUP", "EXISTS", "CASE", "WHEN", "THEN", "ELSE", "END"}


def tokenize(sql: str):
    sql = re.sub(r"--[^\n]*", " ", sql)
    pos, out = 0, []
    while pos < len(sql):
        if sql[pos:].strip() == "":
            break
        m = TOKEN.match(sql, pos)
        if not m:
            raise Unsupported(f"SQL token at: {sql[pos:pos + 30]!r}")
        pos = m.end()
        if m.group("num") is not None:
            out.append(("num", int(m.group("num"))))
        elif m.group("str") is not None:
            out.append(("str", m.group("str")[1:-1].replace("''", "'")))
        elif m.group("param") is not None:
            out.append(("param", m.group("param")[1:]))
        elif m.group("q") is not None:
            out.append(("q", None))
        elif m.group("id") is not None:
            w = m.group("id")
            out.append(("kw", w.upper()) if w.upper() in KEYWORDS else ("id", w))
        else:
            out.append(("op", m.group("op")))
    return out


@dataclass
class Stmt:
    kind: str
    table: str = ""
    cols: list = field(default_factory=list)  # insert columns / select items [(expr, alias)]
    values: list = field(default_factory=list)
    sets: list = field(default_factory=list)  # [(col, expr)]
    where: object = None
    returning: list | None = None
    or_ignore: bool = False
    or_replace: bool = False
    order_by: list = field(default_factory=list)
    limit: object = None
    text: str = ""


class Parser:
    def __init__(self, toks, text):
        self.t, self.i, self.text = toks, 0, text
        self.qn = 0

    def peek(self, k=0):
        return self.t[self.i + k] if self.i + k < len(self.t) else ("eof", None)

    def take(self):
        x = self.peek()
        self.i += 1
        return x

    def kw(self, *names):
        p = self.peek()
        if p[0] == "kw" and p[1] in names:
            self.i += 1
            return p[1]
        return None

    def expect_kw(self, name):
        if not self.kw(name):
            raise Unsupported(f"SQL: expected {name} in {self.text[:80]!r}")

    def op(self, *ops):
        p = self.peek()
        if p[0] == "op" and p[1] in ops:
            self.i += 1
            return p[1]
        return None

    def expect_op(self, o):
        if not self.op(o):
            raise Unsupported(f"SQL: expected {o!r} near token {self.i} in {self.text[:80]!r}")

    def ident(self):
        p = self.take()
        if p[0] != "id":
            raise Unsupported(f"SQL: identifier expected, got {p}")
        return p[1].split(".")[-1]

    # statements
    def statement(self) -> Stmt:
        if self.kw("SELECT"):
            return self.select()
        if self.kw("INSERT"):
            return self.insert()
        if self.kw("UPDATE"):
            return self.update()
        if self.kw("DELETE"):
            return self.delete()
        raise Unsupported(f"SQL statement kind: {self.text[:60]!r}")

    def select(self) -> Stmt:
        s = Stmt("select", text=self.text)
        self.kw("DISTINCT")
        while True:
            if self.op("*"):
                s.cols.append(("*", None))
            else:
                e = self.expr()
                alias = None
                if self.kw("AS"):
                    alias = self.ident()
                s.cols.append((e, alias))
            if not self.op(","):
                break
        self.expect_kw("FROM")
        s.table = self.ident()
        if self.peek()[0] == "id":  # table alias
            self.take()
        if self.kw("WHERE"):
            s.where = self.expr()
        if self.kw("GROUP"):
            raise Unsupported("SQL GROUP BY")
        if self.kw("ORDER"):
            self.expect_kw("BY")
            while True:
                e = self.expr()
                d = self.kw("ASC", "DESC") or "ASC"
                s.order_by.append((e, d))
                if not self.op(","):
                    break
        if self.kw("LIMIT"):
            s.limit = self.expr()
            if self.kw("OFFSET"):
                self.expr()
        return s

    def insert(self) -> Stmt:
        s = Stmt("insert", text=self.text)
        if self.kw("OR"):
            k = self.kw("IGNORE", "REPLACE")
            s.or_ignore, s.or_replace = k == "IGNORE", k == "REPLACE"
        self.expect_kw("INTO")
        s.table = self.ident()
        self.expect_op("(")
        while True:
            s.cols.append(self.ident())
            if not self.op(","):
                break
        self.expect_op(")")
        self.expect_kw("VALUES")
        self.expect_op("(")
        while True:
            s.values.append(self.expr())
            if not self.op(","):
                break
        self.expect_op(")")
        if self.kw("ON"):
            raise Unsupported("SQL ON CONFLICT")
        if self.kw("RETURNING"):
            s.returning = self.ret_list()
        return s

    def ret_list(self):
        out = []
        while True:
            if self.op("*"):
                out.append("*")
            else:
                out.append(self.ident())
            if not self.op(","):
                break
        return out

    def update(self) -> Stmt:
        s = Stmt("update", text=self.text)
        s.table = self.ident()
        self.expect_kw("SET")
        while True:
            c = self.ident()
            self.expect_op("=")
            s.sets.append((c, self.expr()))
            if not self.op(","):
                break
        if self.kw("WHERE"):
            s.where = self.expr()
        if self.kw("RETURNING"):
            s.returning = self.ret_list()
        return s

    def delete(self) -> Stmt:
        s = Stmt("delete", text=self.text)
        self.expect_kw("FROM")
        s.table = self.ident()
        if self.kw("WHERE"):
            s.where = self.expr()
        if self.kw("RETURNING"):
            s.returning = self.ret_list()
        return s

    # expressions (precedence: OR < AND < NOT < comparison < additive < primary)
    def expr(self):
        e = self.and_()
        while self.kw("OR"):
            e = ("or", e, self.and_())
        return e

    def and_(self):
        e = self.not_()
        while self.kw("AND"):
            e = ("and", e, self.not_())
        return e

    def not_(self):
        if self.kw("NOT"):
            return ("not", self.not_())
        return self.cmp()

    def cmp(self):
        e = self.add()
        while True:
            o = self.op("=", "!=", "<>", "<", "<=", ">", ">=")
            if o:
                e = ("cmp", o, e, self.add())
                continue
            if self.kw("IS"):
                neg = bool(self.kw("NOT"))
                self.expect_kw("NULL")
                e = ("isnull", e, neg)
                continue
            neg = False
            save = self.i
            if self.kw("NOT"):
                neg = True
            if self.kw("IN"):
                self.expect_op("(")
                if self.kw("SELECT"):
                    sub = self.select()
                    self.expect_op(")")
                    e = ("in_select", e, sub, neg)
                else:
                    items = []
                    while True:
                        items.append(self.expr())
                        if not self.op(","):
                            break
                    self.expect_op(")")
                    e = ("in", e, items, neg)
                continue
            if self.kw("LIKE"):
                e = ("like", e, self.add(), neg)
                continue
            self.i = save
            break
        return e

    def add(self):
        e = self.prim()
        while True:
            o = self.op("+", "-", "||", "*", "/")
            if not o:
                break
            e = ("bin", o, e, self.prim())
        return e

    def prim(self):
        p = self.take()
        if p[0] == "num":
            return ("num", p[1])
        if p[0] == "str":
            return ("str", p[1])
        if p[0] == "param":
            return ("param", p[1])
        if p[0] == "q":
            self.qn += 1
            return ("qparam", self.qn - 1)
        if p[0] == "kw" and p[1] == "NULL":
            return ("null",)
        if p[0] == "kw" and p[1] == "EXISTS":
            raise Unsupported("SQL EXISTS")
        if p[0] == "kw" and p[1] == "CASE":
            raise Unsupported("SQL CASE")
        if p[0] == "op" and p[1] == "(":
            if self.kw("SELECT"):
                sub = self.select()
                self.expect_op(")")
                return ("subselect", sub)
            e = self.expr()
            self.expect_op(")")
            return e
        if p[0] == "op" and p[1] == "-":
            return ("bin", "-", ("num", 0), self.prim())
        if p[0] == "id":
            if self.op("("):
                args = []
                if self.op("*"):
                    args.append(("star",))
                elif not (self.peek()[0] == "op" and self.peek()[1] == ")"):
                    self.kw("DISTINCT")
                    while True:
                        args.append(self.expr())
                        if not self.op(","):
                            break
                self.expect_op(")")
                return ("call", p[1].lower(), args)
            return ("col", p[1].split(".")[-1])
        raise Unsupported(f"SQL expression token {p} in {self.text[:80]!r}")


_PARSE_CACHE: dict[str, Stmt] = {}


def parse(sql: str) -> Stmt:
    key = " ".join(sql.split())
    if key not in _PARSE_CACHE:
        p = Parser(tokenize(key.rstrip(";")), key)
        st = p.statement()
        if p.peek()[0] != "eof":
            raise Unsupported(f"SQL: trailing tokens in {key[:80]!r}")
        _PARSE_CACHE[key] = st
    return _PARSE_CACHE[key]


# ----------------------------------------------------------------------------- schema (from the real CREATE TABLE text)
@dataclass
class TableSchema:
    name: str
    cols: list
    pk: list
    autoinc: bool = False
    unique: list = field(default_factory=list)
    notnull: set = field(default_factory=set)
    types: dict = field(default_factory=dict)


def parse_create_tables(text: str) -> dict[str, TableSchema]:
    out = {}
    for m in re.finditer(r"CREATE TABLE(?: IF NOT EXISTS)?\s+([A-Za-z_{}]+)\s*\((.*?)\)\s*(?:;|$|\"\"\")", text, re.S | re.I):
        name, body = m.group(1), m.group(2)
        cols, pk, autoinc, unique, notnull, types = [], [], False, [], set(), {}
        depth, cur, parts = 0, "", []
        for ch in body:
            if ch == "(":
                depth += 1
            elif ch == ")":
                depth -= 1
            if ch == "," and depth == 0:
                parts.append(cur)
                cur = ""
            else:
                cur += ch
        parts.append(cur)
        for part in parts:
            part = part.strip()
            if not part:
                continue
            up = part.upper()
            if up.startswith("PRIMARY KEY"):
                pk = [c.strip() for c in part[part.index("(") + 1:part.rindex(")")].split(",")]
                continue
            if up.startswith(("FOREIGN KEY", "UNIQUE", "CHECK", "CONSTRAINT")):
                continue
            cname = part.split()[0]
            cols.append(cname)
            types[cname] = (part.split()[1].upper() if len(part.split()) > 1 else "TEXT")
            if "PRIMARY KEY" in up:
                pk = [cname]
                if "AUTOINCREMENT" in up:
                    autoinc = True
            if " UNIQUE" in up:
                unique.append(cname)
            if "NOT NULL" in up or "PRIMARY KEY" in up or " DEFAULT " in up:
                notnull.add(cname)  # (DEFAULT columns: assumed never written NULL explicitly -- listed assumption)
        for c in pk:
            notnull.add(c)
        out[name] = TableSchema(name, cols, pk, autoinc, unique, notnull, types)
    return out


def load_schemas(index) -> dict[str, TableSchema]:
    out: dict[str, TableSchema] = {}
    for mi in index.modules.values():
        if "postgres" in mi.name or "CREATE TABLE" not in mi.source:
            continue
        for name, sch in parse_create_tables(mi.source).items():
            out.setdefault(name, sch)
    # the queue tables are created from a template with {table_name}
    for name in list(out):
        if "{table_name}" in name:
            out[name.replace("{table_name}", "queue_messages")] = TableSchema(name.replace("{table_name}", "queue_messages"), out[name].cols,
                                                                               out[name].pk, out[name].autoinc, out[name].unique, out[name].notnull, out[name].types)
    return out


# ----------------------------------------------------------------------------- database state
pair = z3.Function("sql_key_pair", INT, INT, INT)
json_extract = z3.Function("sql_json_extract", INT, INT, INT)
json_extract_null = z3.Function("sql_json_extract_isnull", INT, INT, BOOL)


class Table:
    def __init__(self, schema: TableSchema, tag=""):
        self.schema = schema
        n = schema.name + tag
        self.exists = z3.Array(f"db.{n}.exists", INT, BOOL)
        self.cols = {c: z3.Array(f"db.{n}.{c}", INT, INT) for c in schema.cols}
        self.nulls = {c: z3.Array(f"db.{n}.{c}?", INT, BOOL) for c in schema.cols}

    def copy(self):
        t = Table.__new__(Table)
        t.schema, t.exists, t.cols, t.nulls = self.schema, self.exists, dict(self.cols), dict(self.nulls)
        return t

    def __deepcopy__(self, memo):
        return self.copy()


class DB:
    def __init__(self, schemas):
        self.schemas = schemas
        self.tables: dict[str, Table] = {}
        self.committed: dict[str, Table] = {}
        self.commits = 0

    def table(self, name: str) -> Table:
        if name not in self.tables:
            if name not in self.schemas:
                raise Unsupported(f"SQL: unknown table {name}")
            self.tables[name] = Table(self.schemas[name])
            self.committed[name] = self.tables[name].copy()
        return self.tables[name]

    def commit(self):
        self.committed = {k: t.copy() for k, t in self.tables.items()}
        self.commits += 1

    def rollback(self):
        self.tables = {k: t.copy() for k, t in self.committed.items()}

    def __deepcopy__(self, memo):
        d = DB(self.schemas)
        d.tables = {k: t.copy() for k, t in self.tables.items()}
        d.committed = {k: t.copy() for k, t in self.committed.items()}
        d.commits = self.commits
        d.dtcols = set(getattr(self, "dtcols", ()))
        return d


def get_db(I) -> DB:
    db = I.st.ghost.get("db")
    if db is None:
        sch = I.st.ghost.get("db_schemas") or load_schemas(I.index)
        db = DB(sch)
        I.st.ghost["db"] = db
    return db


# ----------------------------------------------------------------------------- evaluation
class SqlEval:
    def __init__(self, I, params):
        self.I = I
        self.params = params

    def now(self):
        # SQLite evaluates 'now' once per statement: every datetime('now') of one statement is the same instant
        if getattr(self, "_now", None) is not None:
            return self._now
        t = self._now = fresh_int("db_now")
        last = self.I.st.ghost.get("clock")
        if last is not None:
            self.I.st.assume(t >= last)
        self.I.st.assume(t >= 0)
        self.I.st.ghost["clock"] = t
        return t

    def to_int(self, v: V):
        """-> (int term, isnull Bool)"""
        I = self.I
        if v is SNone:
            return z3.IntVal(0), TRUE
        if isinstance(v, SOpt):
            t, n = self.to_int(v.inner)
            return t, z3.Or(I.ops.is_none(v), n)
        if isinstance(v, SInt):
            return v.t, FALSE
        if isinstance(v, SStr):
            return v.t, FALSE
        if isinstance(v, SBool):
            return z3.If(v.t, z3.IntVal(1), z3.IntVal(0)), FALSE
        if isinstance(v, SFloat):
            return z3.ToInt(v.t), FALSE
        if isinstance(v, SVal):
            f = z3.Function("sql_of_val", I.ops.to_val(SNone).sort(), INT)
            from .values import VAL

            return f(v.t), VAL.is_VNone(v.t)
        raise Unsupported(f"SQL parameter of type {type(v).__name__}")

    def param(self, name):
        p = self.params
        if isinstance(p, SDict):
            has, v = self.I.ops.dict_get(p, self.I.ops.lit(name))
            return self.to_int(v)
        raise Unsupported("SQL named parameter without a dict")

    def qparam(self, n):
        p = self.params
        if isinstance(p, STuple):
            return self.to_int(p.items[n])
        if isinstance(p, SList):
            return self.to_int(self.I.st.lists[p.lid].items[n])
        raise Unsupported("SQL positional parameter")

    def expr(self, e, tab: Table | None, key):
        """-> (int term, isnull Bool); booleans are 0/1 ints with null flag"""
        k = e[0]
        if k == "num":
            return z3.IntVal(e[1]), FALSE
        if k == "str":
            return self.I.ops.lit(e[1]).t, FALSE
        if k == "null":
            return z3.IntVal(0), TRUE
        if k == "param":
            return self.param(e[1])
        if k == "qparam":
            return self.qparam(e[1])
        if k == "col":
            if tab is None or e[1] not in tab.cols:
                raise Unsupported(f"SQL: unknown column {e[1]}")
            if e[1] in getattr(tab, "schema", None).notnull if hasattr(tab, "schema") else False:
                return z3.Select(tab.cols[e[1]], key), FALSE  # NOT NULL / PRIMARY KEY / DEFAULT column (listed assumption)
            return z3.Select(tab.cols[e[1]], key), z3.Select(tab.nulls[e[1]], key)
        if k == "bin":
            a, an = self.expr(e[2], tab, key)
            b, bn = self.expr(e[3], tab, key)
            if e[1] == "+":
                return a + b, z3.Or(an, bn)
            if e[1] == "-":
                return a - b, z3.Or(an, bn)
            if e[1] == "*":
                return a * b, z3.Or(an, bn)
            f = z3.Function("sql_op_" + {"||": "concat", "/": "div"}[e[1]], INT, INT, INT)
            return f(a, b), z3.Or(an, bn)
        if k == "call":
            fn, args = e[1], e[2]
            if fn == "datetime":
                if args and args[0] == ("str", "now"):
                    return self.now(), FALSE
                return self.expr(args[0], tab, key)
            if fn == "json_extract":
                a, an = self.expr(args[0], tab, key)
                b, _ = self.expr(args[1], tab, key)
                return json_extract(a, b), z3.Or(an, json_extract_null(a, b))
            if fn == "coalesce":
                a, an = self.expr(args[0], tab, key)
                b, bn = self.expr(args[1], tab, key)
                return z3.If(an, b, a), z3.And(an, bn)
            if fn in ("strftime", "julianday", "unixepoch"):
                return self.now(), FALSE
            f = z3.Function("sql_fn_" + fn, *([INT] * len(args)), INT)
            vals = [self.expr(a, tab, key) for a in args]
            return f(*[v for v, _ in vals]), (z3.Or(*[n for _, n in vals]) if vals else FALSE)
        b = self.cond(e, tab, key)
        return z3.If(b, z3.IntVal(1), z3.IntVal(0)), FALSE

    def cond(self, e, tab, key):
        """SQL three-valued condition collapsed to 'is true' (NULL comparisons are not true)."""
        if e is None:
            return TRUE
        k = e[0]
        if k == "and":
            return z3.And(self.cond(e[1], tab, key), self.cond(e[2], tab, key))
        if k == "or":
            return z3.Or(self.cond(e[1], tab, key), self.cond(e[2], tab, key))
        if k == "not":
            return z3.Not(self.cond(e[1], tab, key))  # exact for non-NULL operands (the repository's uses)
        if k == "cmp":
            a, an = self.expr(e[2], tab, key)
            b, bn = self.expr(e[3], tab, key)
            o = e[1]
            dtcols = getattr(get_db(self.I), "dtcols", ())
            tname = getattr(getattr(tab, "schema", None), "name", None)
            sqlite_col = lambda x: x[0] == "col" and (tname, x[1]) in dtcols  # written by datetime() earlier in this unit
            is_dt = lambda x: (x[0] == "call" and x[1] == "datetime") or sqlite_col(x)
            bare = lambda x: x[0] in ("col", "param", "qparam") and not sqlite_col(x)
            if o in ("<", "<=", ">", ">=") and ((is_dt(e[2]) and bare(e[3])) or (is_dt(e[3]) and bare(e[2]))):
                # TEXT comparison of a datetime() result ('YYYY-MM-DD HH:MM:SS') with a bare column / parameter, which the Python
                # side writes with isoformat() ('YYYY-MM-DDTHH:MM:SS+00:00'): byte-wise, NOT chronological ('T' > ' ' on the same
                # day).  Nothing is known about its outcome; both sides wrapped in datetime(), or both bare, compare in time order.
                self.I.st.assumptions.add("a datetime() result compared with a bare TEXT column / parameter is not chronological (outcome unknown)")
                f = z3.Function("sql_text_cmp_" + {"<": "lt", "<=": "le", ">": "gt", ">=": "ge"}[o], INT, INT, BOOL)
                return z3.And(z3.Not(an), z3.Not(bn), f(a, b))
            c = {"=": a == b, "!=": a != b, "<>": a != b, "<": a < b, "<=": a <= b, ">": a > b, ">=": a >= b}[o]
            return z3.And(z3.Not(an), z3.Not(bn), c)
        if k == "isnull":
            _, n = self.expr(e[1], tab, key)
            return z3.Not(n) if e[2] else n
        if k == "in":
            a, an = self.expr(e[1], tab, key)
            items = [self.expr(x, tab, key) for x in e[2]]
            c = z3.And(z3.Not(an), z3.Or(*[z3.And(z3.Not(n), a == v) for v, n in items]))
            return z3.Not(c) if e[3] else c
        if k == "in_select":
            a, an = self.expr(e[1], tab, key)
            sub = e[2]
            stab = get_db(self.I).table(sub.table)
            r = fresh_int("subrow")
            if len(sub.cols) != 1:
                raise Unsupported("SQL IN (SELECT ...) with several columns")
            col0 = sub.cols[0][0]
            if col0 != "*" and col0[0] == "col" and stab.schema.pk == [col0[1]]:
                # the subquery selects the primary key of its table, and tables are keyed by it: membership is a direct
                # look-up of the row with that key (exact, and free of the existential quantifier); a NULL operand makes
                # both IN and NOT IN unknown, i.e. the row is not selected
                inner = z3.And(z3.Select(stab.exists, a), self.cond(sub.where, stab, a))
                return z3.And(z3.Not(an), z3.Not(inner) if e[3] else inner)
            v, vn = self.expr(col0, stab, r)
            body = z3.And(z3.Select(stab.exists, r), self.cond(sub.where, stab, r), z3.Not(vn), v == a)
            c = z3.And(z3.Not(an), z3.Exists([r], body))
            return z3.Not(c) if e[3] else c
        if k == "like":
            f = z3.Function("sql_like", INT, INT, BOOL)
            a, an = self.expr(e[1], tab, key)
            b, bn = self.expr(e[2], tab, key)
            c = z3.And(z3.Not(an), f(a, b))
            return z3.Not(c) if e[3] else c
        v, n = self.expr(e, tab, key)
        return z3.And(z3.Not(n), v != 0)


def pk_key(ev: SqlEval, st_: Stmt, tab: Table):
    """If WHERE pins every primary-key column by equality, return (key term, remaining condition list)."""
    pk = tab.schema.pk
    if not pk:
        return None, None
    conj = []

    def flat(e):
        if e is not None and e[0] == "and":
            flat(e[1])
            flat(e[2])
        elif e is not None:
            conj.append(e)

    flat(st_.where)
    found = {}
    rest = []
    for c in conj:
        if c[0] == "cmp" and c[1] == "=" and c[2][0] == "col" and c[2][1] in pk and c[3][0] in ("param", "qparam", "num", "str") and c[2][1] not in found:
            found[c[2][1]] = c[3]
        elif c[0] == "cmp" and c[1] == "=" and c[3][0] == "col" and c[3][1] in pk and c[2][0] in ("param", "qparam", "num", "str") and c[3][1] not in found:
            found[c[3][1]] = c[2]
        else:
            rest.append(c)
    if set(found) != set(pk):
        return None, None
    vals = []
    nulls = []
    for c in pk:
        v, n = ev.expr(found[c], None, None)
        vals.append(v)
        nulls.append(n)
    key = vals[0] if len(vals) == 1 else pair(vals[0], vals[1])
    return (key, z3.Or(*nulls)), rest


def make_key(tab: Table, colvals: dict):
    pk = tab.schema.pk
    if len(pk) == 1:
        return colvals[pk[0]][0]
    return pair(colvals[pk[0]][0], colvals[pk[1]][0])


# ----------------------------------------------------------------------------- executing statements
def new_row(I, stmt: Stmt, tab: Table, key):
    oid = I.st.new_id()
    I.st.objs[oid] = ObjRec("$row", None, {}, {"table": tab.schema.name, "key": key, "tab": tab.copy(), "stmt": stmt})
    return SObj(oid)


def row_get(I, row: SObj, col, stmt_cols=None):
    rec = I.st.objs[row.oid]
    tab, key = rec.meta["tab"], rec.meta["key"]
    if "values" in rec.meta:
        vals = rec.meta["values"]
        if isinstance(col, int):
            t, n = vals[col][1], vals[col][2]
        else:
            hit = [x for x in vals if x[0] == col]
            if not hit:
                I.raise_builtin("IndexError", f"No item with that key: {col}")
            t, n = hit[0][1], hit[0][2]
        cname = vals[col][0] if isinstance(col, int) else col
        if cname in tab.schema.notnull:
            n = FALSE
        if tab.schema.pk == [cname]:
            t = key
    else:
        if isinstance(col, int):
            col = tab.schema.cols[col]
        if col not in tab.cols:
            I.raise_builtin("IndexError", f"No item with that key: {col}")
        t, n = z3.Select(tab.cols[col], key), z3.Select(tab.nulls[col], key)
        if col in tab.schema.notnull:
            n = FALSE  # NOT NULL / PRIMARY KEY column (schema constraint, assumed enforced by SQLite)
        if tab.schema.pk == [col]:
            t = key
    return SqlValue.wrap(I, t, n, tab.schema.types.get(col, "") if isinstance(col, str) else "")


class SqlValue:
    @staticmethod
    def wrap(I, t, n, coltype=""):
        """A column value read back: an integer-coded value that may be NULL.  Typed lazily by use: SStr and SInt share
        the integer representation, so we hand out an SVal-free union object: SOpt(SInt) that also compares as a string."""
        v = SSqlCell(t)
        v.coltype = coltype
        ns = z3.simplify(n)
        if z3.is_false(ns):
            return v
        return SOpt(v, n)


class SSqlCell(SInt):
    """Column value: integer code usable as int or as str (same representation); `coltype` is the declared SQL type."""

    coltype = ""

    def __repr__(self):
        return f"SSqlCell({self.t})"


def execute(I, conn, sql_v: V, params: V):
    if not (isinstance(sql_v, SStr) and sql_v.lit is not None):
        raise Unsupported("SQL text is not a literal")
    stmt = parse(sql_v.lit)
    db = get_db(I)
    tab = db.table(stmt.table)
    ev = SqlEval(I, params)
    cur = I.st.new_id()
    crec = ObjRec("$cursor", None, {}, {"stmt": stmt})
    I.st.objs[cur] = crec
    cursor = SObj(cur)
    eff = dict(stmt=stmt, table=stmt.table, kind=stmt.kind, params=params)
    if stmt.kind == "select":
        _select(I, ev, stmt, tab, crec, eff)
    elif stmt.kind == "insert":
        _insert(I, ev, stmt, tab, crec, eff)
    elif stmt.kind == "update":
        _update(I, ev, stmt, tab, crec, eff)
    elif stmt.kind == "delete":
        _delete(I, ev, stmt, tab, crec, eff)
    eff["now"] = getattr(ev, "_now", None)
    I.st.emit("sql", **eff)
    return cursor


def _select(I, ev, stmt, tab, crec, eff):
    agg = [c for c, _ in stmt.cols if c != "*" and c[0] == "call" and c[1] in ("count", "max", "min", "sum")]
    if agg:
        if len(stmt.cols) != 1:
            raise Unsupported("SQL aggregate with other columns")
        n = fresh_int("sql_agg")
        if agg[0][1] == "count":
            I.st.assume(n >= 0)
            kk, rest = pk_key(ev, stmt, tab)
            if kk is not None:
                key, knull = kk
                hit = z3.And(z3.Not(knull), z3.Select(tab.exists, key), *[ev.cond(c, tab, key) for c in rest])
                I.st.assume(n == z3.If(hit, 1, 0))
        crec.meta["rows"] = ("agg", n)
        eff["result"] = n
        return
    kk, rest = pk_key(ev, stmt, tab)
    if kk is not None:
        key, knull = kk
        hit = z3.And(z3.Not(knull), z3.Select(tab.exists, key), *[ev.cond(c, tab, key) for c in rest])
        crec.meta["rows"] = ("one", hit, key)
    else:
        r = fresh_int("row")
        cond = z3.And(z3.Select(tab.exists, r), ev.cond(stmt.where, tab, r))
        crec.meta["rows"] = ("any", r, cond)
        eff["cand"] = (r, cond)  # the candidate predicate of an unpinned SELECT, over the bound row variable
    crec.meta["tab"] = tab.copy()
    eff["where"] = stmt.where


def _project(I, ev, stmt, tab, key):
    vals = []
    for c, alias in stmt.cols:
        if c == "*":
            for cn in tab.schema.cols:
                vals.append((cn, z3.Select(tab.cols[cn], key), z3.Select(tab.nulls[cn], key)))
        else:
            t, n = ev.expr(c, tab, key)
            name = alias or (c[1] if c[0] == "col" else f"col{len(vals)}")
            vals.append((name, t, n))
    return vals


def cursor_fetchone(I, cursor: SObj):
    rec = I.st.objs[cursor.oid]
    rows = rec.meta.get("rows")
    stmt = rec.meta["stmt"]
    if rows is None:
        raise Unsupported("fetchone on a non-query cursor")
    if rows[0] == "agg":
        row = new_row(I, stmt, get_db(I).table(stmt.table), z3.IntVal(0))
        I.st.objs[row.oid].meta["values"] = [("count", rows[1], FALSE)]
        return row
    if rows[0] == "returning":
        hit, row = rows[1], rows[2]
        if I.st.branch(hit):
            return row
        return SNone
    tab = rec.meta["tab"]
    ev = SqlEval(I, rec.meta.get("params"))
    if rows[0] == "one":
        _, hit, key = rows
        if I.st.branch(hit):
            row = new_row(I, stmt, tab, key)
            I.st.objs[row.oid].meta["values"] = _project(I, ev, stmt, tab, key)
            return row
        return SNone
    _, r, cond = rows
    found = fresh_bool("row_found")
    I.st.emit("sql_fetchone", table=stmt.table, found=found)
    if I.st.branch(found):
        I.st.assume(cond)
        row = new_row(I, stmt, tab, r)
        I.st.objs[row.oid].meta["values"] = _project(I, ev, stmt, tab, r)
        rec.meta["found"] = (r, cond)
        return row
    j = z3.Int(fresh_name("anyrow"))
    I.st.assume(z3.ForAll([j], z3.Not(z3.substitute(cond, (r, j)))))
    return SNone


def _insert(I, ev, stmt, tab, crec, eff):
    colvals = {}
    for c, e in zip(stmt.cols, stmt.values):
        colvals[c] = ev.expr(e, tab, None)
        if e[0] == "call" and e[1] == "datetime":
            # the column now holds text in SQLite's own format: a later comparison of it with a bare (isoformat) parameter is
            # byte-wise, not chronological (see SqlEval.cond)
            db = get_db(I)
            db.dtcols = set(getattr(db, "dtcols", ())) | {(stmt.table, c)}
    pk = tab.schema.pk
    if tab.schema.autoinc and pk[0] not in colvals:
        key = fresh_int("rowid")
        I.st.assume(z3.Not(z3.Select(tab.exists, key)))
        I.st.assume(key > 0)
        conflict = FALSE
        colvals[pk[0]] = (key, FALSE)
    elif pk and all(p in colvals for p in pk):
        key = make_key(tab, colvals)
        conflict = z3.Select(tab.exists, key)
    else:
        key = fresh_int("rowid")
        I.st.assume(z3.Not(z3.Select(tab.exists, key)))
        conflict = FALSE
    # UNIQUE columns other than the key: a clash is possible (abstracted as a nondeterministic conflict)
    uniq = [u for u in tab.schema.unique if u in colvals and u not in pk]
    if uniq:
        conflict = z3.Or(conflict, fresh_bool("unique_conflict"))
    eff.update(key=key, conflict=conflict, colvals=colvals)
    if stmt.or_replace:
        conflict_eff = FALSE
    else:
        conflict_eff = conflict
    inserted = z3.Not(conflict_eff)
    if not stmt.or_ignore and not stmt.or_replace:
        if I.st.branch(conflict):
            eff["raised"] = "IntegrityError"
            I.st.emit("sql", **eff)
            oid = I.st.new_id()
            I.st.objs[oid] = ObjRec("IntegrityError", None, {"args": STuple([])}, {"exception": True})
            raise PyRaise(SObj(oid))
        inserted = TRUE
    tab.exists = z3.Store(tab.exists, key, z3.If(inserted, TRUE, z3.Select(tab.exists, key)))
    for c in tab.schema.cols:
        if c in colvals:
            v, n = colvals[c]
        else:
            v, n = z3.Int(fresh_name(f"default_{c}")), z3.Bool(fresh_name(f"default_{c}?"))
        tab.cols[c] = z3.Store(tab.cols[c], key, z3.If(inserted, v, z3.Select(tab.cols[c], key)))
        tab.nulls[c] = z3.Store(tab.nulls[c], key, z3.If(inserted, n, z3.Select(tab.nulls[c], key)))
    crec.fields["rowcount"] = SInt(z3.If(inserted, z3.IntVal(1), z3.IntVal(0)))
    crec.fields["lastrowid"] = SInt(key)
    eff["inserted"] = inserted
    if stmt.returning is not None:
        raise Unsupported("SQL INSERT ... RETURNING")


def _update(I, ev, stmt, tab, crec, eff):
    kk, rest = pk_key(ev, stmt, tab)
    old = tab.copy()
    if kk is not None:
        key, knull = kk
        hit = z3.And(z3.Not(knull), z3.Select(tab.exists, key), *[ev.cond(c, tab, key) for c in rest])
        newvals = {c: ev.expr(e, old, key) for c, e in stmt.sets}
        for c, (v, n) in newvals.items():
            tab.cols[c] = z3.Store(tab.cols[c], key, z3.If(hit, v, z3.Select(old.cols[c], key)))
            tab.nulls[c] = z3.Store(tab.nulls[c], key, z3.If(hit, n, z3.Select(old.nulls[c], key)))
        crec.fields["rowcount"] = SInt(z3.If(hit, z3.IntVal(1), z3.IntVal(0)))
        # the statement's own WHERE over an ARBITRARY table state (fresh arrays, unrelated to anything read before): what the
        # statement guarantees by itself when other transactions may have committed since this connection last looked
        anyt = Table(tab.schema, fresh_name("@any"))
        hit_any = z3.And(z3.Not(knull), z3.Select(anyt.exists, key), *[ev.cond(c, anyt, key) for c in rest])
        eff.update(key=key, hit=hit, rest=rest, sets=newvals, pinned=True, hit_any=hit_any, any_tab=anyt)
    else:
        r = z3.Int(fresh_name("urow"))
        hit = z3.And(z3.Select(old.exists, r), ev.cond(stmt.where, old, r))
        anyt = Table(tab.schema, fresh_name("@any"))
        eff.update(hit_any=z3.And(z3.Select(anyt.exists, r), ev.cond(stmt.where, anyt, r)), any_tab=anyt)
        for c, e in stmt.sets:
            v, n = ev.expr(e, old, r)
            tab.cols[c] = z3.Lambda([r], z3.If(hit, v, z3.Select(old.cols[c], r)))
            tab.nulls[c] = z3.Lambda([r], z3.If(hit, n, z3.Select(old.nulls[c], r)))
        n_ = fresh_int("rowcount")
        I.st.assume(n_ >= 0)
        crec.fields["rowcount"] = SInt(n_)
        eff.update(key=None, hit=hit, bound=r, pinned=False)
    if stmt.returning is not None:
        raise Unsupported("SQL UPDATE ... RETURNING")


def _delete(I, ev, stmt, tab, crec, eff):
    kk, rest = pk_key(ev, stmt, tab)
    old = tab.copy()
    if kk is not None:
        key, knull = kk
        hit = z3.And(z3.Not(knull), z3.Select(tab.exists, key), *[ev.cond(c, tab, key) for c in rest])
        tab.exists = z3.Store(tab.exists, key, z3.If(hit, FALSE, z3.Select(old.exists, key)))
        crec.fields["rowcount"] = SInt(z3.If(hit, z3.IntVal(1), z3.IntVal(0)))
        eff.update(key=key, hit=hit, pinned=True)
        if stmt.returning is not None:
            row = new_row(I, stmt, old, key)
            crec.meta["rows"] = ("returning", hit, row)
    else:
        r = z3.Int(fresh_name("drow"))
        hit = z3.And(z3.Select(old.exists, r), ev.cond(stmt.where, old, r))
        tab.exists = z3.Lambda([r], z3.And(z3.Select(old.exists, r), z3.Not(hit)))
        n_ = fresh_int("rowcount")
        I.st.assume(n_ >= 0)
        crec.fields["rowcount"] = SInt(n_)
        eff.update(key=None, hit=hit, bound=r, pinned=False)
        if stmt.returning is not None:
            raise Unsupported("SQL bulk DELETE ... RETURNING")


# ----------------------------------------------------------------------------- connection / cursor models
def install(reg):
    def conn_execute(I, a, k):
        conn, sql_v = a[0], a[1]
        params = a[2] if len(a) > 2 else SNone
        cur = execute(I, conn, sql_v, params)
        I.st.objs[cur.oid].meta["params"] = params
        return cur

    def conn_commit(I, a, k):
        get_db(I).commit()
        I.st.emit("db_commit", n=get_db(I).commits)
        return SNone

    def conn_rollback(I, a, k):
        get_db(I).rollback()
        I.st.emit("db_rollback")
        return SNone

    reg.methods[("$connection", "execute")] = conn_execute
    reg.methods[("$connection", "commit")] = conn_commit
    reg.methods[("$connection", "rollback")] = conn_rollback
    reg.methods[("$cursor", "fetchone")] = lambda I, a, k: cursor_fetchone(I, a[0])

    def cursor_fetchall(I, a, k):
        """The result set of a SELECT that does not pin the primary key: a list of rows whose keys are exactly the keys of
        the table that satisfy the WHERE clause, each once (ORDER BY / LIMIT are not represented: Unsupported)."""
        from .typesys import fresh_value
        from .values import Seg

        rec = I.st.objs[a[0].oid]
        rows = rec.meta.get("rows")
        stmt = rec.meta["stmt"]
        if rows is None or rows[0] != "any" or stmt.limit is not None:
            raise Unsupported("cursor.fetchall on this kind of query")
        if stmt.order_by:
            # ORDER BY is not represented: the rows come in an unspecified order (a superset of the behaviours of the sorted
            # result, so what is proved for every order holds for the sorted one; order-dependent claims are out of reach)
            I.st.assumptions.add("ORDER BY of a multi-row SELECT is not represented (rows in unspecified order)")
        tab = rec.meta["tab"]
        ev = SqlEval(I, rec.meta.get("params"))
        keys = fresh_value(I.st, I.typer, ("list", ("int",)), "rows")
        arr = I._elem_array(keys.lid, "$v", z3.IntSort())
        n = I.ops.list_len(keys)
        i, j, r = z3.Int(fresh_name("ri")), z3.Int(fresh_name("rj")), z3.Int(fresh_name("rk"))
        sat = lambda key: z3.And(z3.Select(tab.exists, key), ev.cond(stmt.where, tab, key))
        idx_of = z3.Function(fresh_name("row_index"), z3.IntSort(), z3.IntSort())
        I.st.assume(z3.ForAll([i], z3.Implies(z3.And(i >= 0, i < n), sat(z3.Select(arr, i)))))
        I.st.assume(z3.ForAll([r], z3.Implies(sat(r), z3.And(idx_of(r) >= 0, idx_of(r) < n, z3.Select(arr, idx_of(r)) == r))))
        I.st.assume(z3.ForAll([i, j], z3.Implies(z3.And(i >= 0, i < n, j >= 0, j < n, z3.Select(arr, i) == z3.Select(arr, j)), i == j)))
        g = fresh_int("g")
        key_g = z3.Select(arr, g)
        row = new_row(I, stmt, tab, key_g)
        I.st.objs[row.oid].meta["values"] = _project(I, ev, stmt, tab, key_g)
        I.st.emit("sql_fetchall", table=stmt.table, keys=keys, where=stmt.where, tab=tab, sat=sat)
        return I.ops.new_derived([Seg(keys.lid, (), n, g, TRUE, row)])

    reg.methods[("$cursor", "fetchall")] = cursor_fetchall


def new_connection(I, name="conn") -> SObj:
    oid = I.st.new_id()
    I.st.objs[oid] = ObjRec("$connection", None, {}, {"name": name})
    return SObj(oid)
