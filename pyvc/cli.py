"""Command-line front end: ./check <ID> --tier quick|thorough ; ./check --replay <file>."""
from __future__ import annotations

import argparse
import importlib
import json
import multiprocessing as mp
import os
import subprocess
import sys
import time
import traceback

ROOT = os.path.dirname(os.path.dirname(os.path.abspath(__file__)))
sys.path.insert(0, ROOT)

LEVELS = {}  # property -> level category, filled from MANIFEST.json


def _load_manifest_levels():
    try:
        m = json.load(open(os.path.join(ROOT, "MANIFEST.json")))
        for c in m.get("checks", []):
            LEVELS[c["property_id"]] = c["level_claimed"]["category"]
    except Exception:
        pass


SPLIT_AT = 16
BUDGET = 24


def _worker(job):
    prop, idx, tier, timeout_ms, prefixes = job
    from pyvc import smt, verify

    try:
        mod = importlib.import_module(f"contracts.{prop.lower()}")
        verify.KNOWN = _known()
        unit = mod.units(tier)[idx]
        ur = verify.run_unit(unit, timeout_ms=timeout_ms, prefixes=prefixes, split_at=(unit.split_at or SPLIT_AT) if prefixes is None else 0,
                             budget=0 if prefixes is None else (1 if unit.split_at else BUDGET))
        res = []
        for r in ur.results:
            res.append(dict(name=r.name, status=r.status, backend=r.backend, time_s=round(r.time_s, 4), detail=r.detail[:800],
                            canary=r.canary, replay=r.replay, replay_verdict=r.replay_verdict, finding=r.finding, path=r.path))
        return dict(unit=unit.name, func=unit.func, paths=ur.paths, results=res, unsupported=ur.unsupported, error=ur.error,
                    assumptions=sorted(ur.assumptions), inlined=sorted(ur.inlined), wall_s=round(ur.wall_s, 3), samples=ur.samples,
                    src_hash=verify.get_index().source_hash(unit.func) if ":" in unit.func else "", smt=dict(smt.STATS),
                    notes=unit.notes, frontier=ur.frontier, idx=idx)
    except BaseException as e:  # noqa
        return dict(unit=f"{prop}#{idx}", func="", paths=0, results=[], unsupported=None,
                    error=f"{type(e).__name__}: {e}\n{traceback.format_exc(limit=10)}", assumptions=[], inlined=[], wall_s=0.0,
                    samples=[], src_hash="", smt={}, notes="", frontier=[], idx=idx)


def _known():
    try:
        return json.load(open(os.path.join(ROOT, "known_findings.json"))).get("findings", [])
    except FileNotFoundError:
        return []


def run_property(prop: str, tier: str) -> int:
    t0 = time.time()
    os.chdir(ROOT)
    os.environ["PYVC_RUN_ID"] = str(os.getpid())
    import glob

    for f in glob.glob(os.path.join(ROOT, "out", "replay", ".scenario_*")):
        try:
            os.unlink(f)
        except OSError:
            pass
    _load_manifest_levels()
    seed = int(os.environ.get("VERIF_SEED", "0") or 0)
    timeout_ms = 10000 if tier == "quick" else 120000
    if tier == "thorough":
        os.environ["PYVC_BOTH_BACKENDS"] = "1"
    mod = importlib.import_module(f"contracts.{prop.lower()}")
    units = mod.units(tier)
    jobs = [(prop, i, tier, timeout_ms, None) for i in range(len(units))]
    ctx = mp.get_context("fork")
    with ctx.Pool(16) as pool:
        outs = pool.map(_worker, jobs, chunksize=1)
        # second phase: the unexplored frontiers of large units, spread over all cores
        by_idx = {o["idx"]: o for o in outs}
        jobs2 = [(prop, o["idx"], tier, timeout_ms, [p]) for o in outs for p in (o.get("frontier") or [])]
        rounds = 0
        while jobs2 and rounds < 200:
            rounds += 1
            outs2 = pool.map(_worker, jobs2, chunksize=1)
            jobs2 = [(prop, o2["idx"], tier, timeout_ms, [p]) for o2 in outs2 for p in (o2.get("frontier") or [])]
            for o2 in outs2:
                o = by_idx[o2["idx"]]
                o["results"] += o2["results"]
                o["paths"] += o2["paths"]
                o["wall_s"] = round(o["wall_s"] + o2["wall_s"], 3)
                o["assumptions"] = sorted(set(o["assumptions"]) | set(o2["assumptions"]))
                o["inlined"] = sorted(set(o["inlined"]) | set(o2["inlined"]))
                o["error"] = o["error"] or o2["error"]
                o["unsupported"] = o["unsupported"] or o2["unsupported"]
                for kk, vv in (o2.get("smt") or {}).items():
                    o["smt"][kk] = o["smt"].get(kk, 0) + vv
    extras = []
    if tier == "thorough" and not os.environ.get("PYVC_SELFTEST_CHILD"):
        extras += seed_selftest(prop)
    if hasattr(mod, "extras"):
        try:
            extras += mod.extras(tier, seed)
        except BaseException as e:  # noqa
            extras = [dict(name=f"{prop}/extras", status="error", detail=f"{type(e).__name__}: {e}\n{traceback.format_exc(limit=8)}",
                           backend="", time_s=0.0)]
    return report(prop, tier, seed, mod, outs, extras, time.time() - t0)


def report(prop, tier, seed, mod, outs, extras, wall) -> int:
    known = [k for k in _known() if k.get("property") == prop]
    obligations = discharged = 0
    violations = []
    undecided = []
    errors = []
    known_hit = {}
    canary_ok = {}
    canary_all = {}
    samples = []
    per_unit = []
    assumptions = set()
    bounded = []
    for o in outs:
        if o["error"]:
            errors.append(f"{o['unit']}: {o['error']}")
        if o["unsupported"]:
            undecided.append(dict(name=o["unit"], detail="unsupported: " + o["unsupported"]))
        nd = nv = 0
        for r in o["results"]:
            base = r["name"].split("#")[0]
            if r["canary"]:
                canary_all.setdefault(base, 0)
                canary_all[base] += 1
                if r["status"] != "discharged":
                    canary_ok[base] = True
                continue
            obligations += 1
            if r["status"] == "discharged":
                discharged += 1
                nd += 1
            elif r["status"] == "known":
                discharged += 1
                nd += 1
                known_hit.setdefault(r["finding"], r)
            elif r["status"] == "violation":
                violations.append(r)
                nv += 1
            elif r["status"] in ("undecided", "failed"):
                undecided.append(r)
            else:
                errors.append(f"{r['name']}: {r['status']} {r['detail']}")
        assumptions |= set(o["assumptions"])
        per_unit.append(dict(unit=o["unit"], func=o["func"], src_hash=o["src_hash"], paths=o["paths"], obligations=len([r for r in o["results"] if not r["canary"]]),
                             discharged=nd, violations=nv, wall_s=o["wall_s"], inlined=o["inlined"][:40], smt=o["smt"], notes=o["notes"]))
        for smp in o["samples"][:1]:
            samples.append(dict(unit=o["unit"], **smp))
        for r in o["results"][:2]:
            if not r["canary"]:
                samples.append(dict(obligation=r["name"], status=r["status"], backend=r["backend"], time_s=r["time_s"]))
    for e in extras:
        if e.get("bounded"):
            bounded.append(e)
            if e["status"] == "violation":
                violations.append(e)
            elif e["status"] == "error":
                errors.append(f"{e['name']}: {e.get('detail', '')}")
            continue
        obligations += 1
        if e["status"] == "discharged":
            discharged += 1
        elif e["status"] == "known":
            discharged += 1
            known_hit.setdefault(e.get("finding"), e)
        elif e["status"] == "violation":
            violations.append(e)
        elif e["status"] == "undecided":
            undecided.append(e)
        else:
            errors.append(f"{e['name']}: {e.get('detail', '')}")
        samples.append(dict(obligation=e["name"], status=e["status"], backend=e.get("backend", ""), time_s=e.get("time_s", 0)))
    vacuous = [c for c in canary_all if not canary_ok.get(c)]
    if vacuous:
        errors.append("canary obligations verified (vacuity): " + ", ".join(sorted(vacuous)))
    if obligations == 0 and not bounded:
        errors.append("zero obligations generated")
    # ---- output
    for kid, r in known_hit.items():
        kf = next((k for k in known if k["id"] == kid), {})
        print(f"KNOWN-FINDING: property={prop} {kf.get('what', kid)} [{r['name'].split('#')[0]}]")
    for r in violations:
        tail = " no-failing-input-found" if r.get("replay_verdict") in ("none", "", None) else ""
        replay = r.get("replay") or _structural_replay(prop, r)
        print(f"VIOLATION property={prop} replay={replay} obligation={r['name']}{tail}")
    level = LEVELS.get(prop, getattr(mod, "LEVEL", "proof"))
    status = "violation" if violations else ("error" if errors else ("undecided" if undecided else "held"))
    ev = dict(
        property_id=prop, tier=tier, seed=seed, level=level,
        coverage=dict(obligations=obligations, discharged=discharged,
                      checker_cmd=f"./check {prop} --tier {tier}",
                      trusted_base=sorted(set(getattr(mod, "TRUSTED", [])) | {"pyvc VC generator (DESIGN 1.2-1.5)", "z3 5.1.0 / cvc5 1.0.3", "Python semantics as encoded (DESIGN 1.3)"}),
                      samples=samples[:12], units=per_unit, canaries=dict(total=len(canary_all), refuted=len([c for c in canary_all if canary_ok.get(c)])),
                      undecided=[dict(name=u["name"], detail=u.get("detail", "")[:300]) for u in undecided][:40],
                      known_findings_hit=sorted(k for k in known_hit if k),
                      bounded_stand_ins=[dict(name=b["name"], status=b["status"], bound=b.get("bound", ""), cases=b.get("cases", 0),
                                              nontrivial=b.get("nontrivial", 0), samples=b.get("samples", [])[:2], time_s=b.get("time_s", 0)) for b in bounded],
                      evaluations=obligations + sum(b.get("cases", 0) for b in bounded),
                      distinct_nontrivial=discharged + sum(b.get("nontrivial", 0) for b in bounded),
                      rule="one evaluation = one named obligation (function x path x clause) generated from the current source, distinct by name; plus, for bounded stand-ins (listed separately, never counted in 'discharged'), one evaluation per enumerated input, non-trivial = input that exercises the clause (e.g. a valid graph, a non-empty reset set, an expression that evaluates)",
                      explanation=getattr(mod, "EXPLANATION", ""), verdict=status, errors=errors[:20]),
        assumptions=sorted(assumptions | set(getattr(mod, "ASSUMPTIONS", []))),
        wall_s=round(wall, 2), violations=len(violations))
    evdir = os.environ.get("PYVC_EVIDENCE_DIR", os.path.join(ROOT, "evidence"))
    os.makedirs(evdir, exist_ok=True)
    with open(os.path.join(evdir, f"{prop}.json"), "w") as fh:
        json.dump(ev, fh, indent=1, default=str)
    print(f"{prop} [{tier}] obligations={obligations} discharged={discharged} violations={len(violations)} "
          f"undecided={len(undecided)} errors={len(errors)} known={len(known_hit)} wall={wall:.1f}s -> {status}")
    for u in undecided[:10]:
        print(f"  undecided: {u['name']}: {u.get('detail', '')[:200]}")
    for e in errors[:10]:
        print(f"  error: {e[:600]}")
    if violations:
        return 1
    if errors:
        return 3
    if undecided:
        return 2
    return 0


def seed_selftest(prop):
    """Thorough tier: every seeded property-breaking change recorded under /verif/seeded for this property is applied to a
    scratch copy of the repository (outside /repo and /verif, removed afterwards) and the quick check must report a
    violation there.  A seed that is no longer detected is a checker regression (status error)."""
    import shutil
    import tempfile

    out = []
    sdir = os.path.join(ROOT, "seeded")
    if not os.path.isdir(sdir):
        return out
    repo = os.environ.get("PYVC_REPO", "/repo")
    for sid in sorted(os.listdir(sdir)):
        meta_p = os.path.join(sdir, sid, "meta.json")
        if not os.path.exists(meta_p):
            continue
        meta = json.load(open(meta_p))
        if meta.get("property") != prop:
            continue
        t0 = time.time()
        scratch = tempfile.mkdtemp(prefix=f"pyvc_selftest_{sid}_")
        try:
            for sub in ("src", "tests"):
                shutil.copytree(os.path.join(repo, sub), os.path.join(scratch, sub), ignore=shutil.ignore_patterns("__pycache__"))
            p = subprocess.run(["git", "apply", "--whitespace=nowarn", os.path.join(sdir, sid, "patch.diff")], cwd=scratch, capture_output=True, text=True)
            if p.returncode != 0:
                out.append(dict(name=f"{prop}/selftest/{sid}", status="error", bounded=True, bound="seed patch no longer applies", detail=p.stderr[-300:],
                                backend="self-test", time_s=round(time.time() - t0, 1)))
                continue
            env = dict(os.environ, PYVC_REPO=scratch, PYVC_SELFTEST_CHILD="1", PYVC_EVIDENCE_DIR=os.path.join(scratch, "evidence"))
            env.pop("PYVC_BOTH_BACKENDS", None)
            q = subprocess.run(["python3-vt", "-m", "pyvc.cli", prop, "--tier", "quick"], cwd=ROOT, capture_output=True, text=True, env=env, timeout=3000)
            detected = q.returncode == 1 and "VIOLATION" in q.stdout
            # exit 2 = some obligation of the changed code could not be decided (solver budget, typically on a busy machine):
            # the change is not accepted as holding, but no violation was named either -- recorded as such, not as an error.
            # Only a change that the check lets pass (exit 0) or that crashes it (exit 3) is a checker regression.
            not_proved = q.returncode == 2
            und = [l.strip() for l in q.stdout.splitlines() if l.strip().startswith("undecided:")]
            out.append(dict(name=f"{prop}/selftest/{sid}", status="discharged" if (detected or not_proved) else "error", bounded=True,
                            bound="seeded change applied to a scratch copy: the quick check must not hold (violation expected; undecided tolerated and recorded)",
                            cases=1, nontrivial=1 if detected else 0,
                            detail=("detected: " + [l for l in q.stdout.splitlines() if l.startswith("VIOLATION")][0][:200]) if detected else
                            (("not proved (undecided, exit 2): " + (und[0][:200] if und else "")) if not_proved else
                             ("NOT detected (exit %d): " % q.returncode + q.stdout[-300:])), backend="self-test", time_s=round(time.time() - t0, 1)))
        finally:
            shutil.rmtree(scratch, ignore_errors=True)
    return out


def _structural_replay(prop, r) -> str:
    d = os.path.join(ROOT, "out", "replay", prop)
    os.makedirs(d, exist_ok=True)
    f = os.path.join(d, r["name"].replace("/", "_").replace("#", "_") + ".json")
    with open(f, "w") as fh:
        json.dump(dict(property=prop, obligation=r["name"], verifier_output=r.get("detail", ""), backend=r.get("backend", "")), fh, indent=1)
    return os.path.relpath(f, ROOT)


def replay(path: str) -> int:
    spec = json.load(open(path))
    if "args" in spec:
        p = subprocess.run(["/venv/bin/python", os.path.join(ROOT, "replay", "native.py"), path])
        return p.returncode
    if spec.get("scenario_cmd"):
        return subprocess.run(spec["scenario_cmd"], shell=True, cwd=ROOT).returncode
    print(json.dumps(spec, indent=1)[:4000])
    return 0


def main(argv=None) -> int:
    ap = argparse.ArgumentParser()
    ap.add_argument("prop", nargs="?")
    ap.add_argument("--tier", default=os.environ.get("VERIF_TIER", "quick"))
    ap.add_argument("--replay")
    a = ap.parse_args(argv)
    if a.replay:
        return replay(a.replay)
    if not a.prop:
        ap.error("property id required")
    try:
        return run_property(a.prop.upper(), a.tier)
    except BaseException as e:  # noqa
        if isinstance(e, SystemExit):
            raise
        traceback.print_exc()
        return 3


if __name__ == "__main__":
    sys.exit(main())
