"""Type descriptors read from the real annotations, and creation of fresh symbolic values of a type."""
from __future__ import annotations

import ast

import z3

from .values import (BOOL, ENUMS, INT, STRS, VAL, SBool, SDict, SEnum, SFloat, SInt, SList, SNone, SObj, SOpt, SSet,
                     SStr, SVal, DictRec, ListRec, ObjRec, Unsupported)
from .values import fresh_name as _fresh_name

# descriptors: ('bool',) ('int',) ('float',) ('str',) ('enum', name) ('opt', T) ('val',) ('dict', Tv)
#              ('list', T) ('set', T) ('obj', clsname) ('none',) ('any',) ('tuple', [T..]) ('opaque', tag)

SCALARS = {"bool": ("bool",), "int": ("int",), "float": ("float",), "str": ("str",), "Any": ("val",),
           "object": ("val",), "None": ("none",), "datetime": ("int",), "timedelta": ("int",), "bytes": ("str",)}


class Typer:
    def __init__(self, index):
        self.index = index
        self.overrides: dict[tuple[str, str], tuple] = {}  # (class simple name, field) -> type

    def from_ann(self, ann, module: str):
        if ann is None:
            return ("val",)
        if isinstance(ann, ast.Constant) and isinstance(ann.value, str):
            try:
                ann = ast.parse(ann.value, mode="eval").body
            except SyntaxError:
                return ("val",)
        if isinstance(ann, ast.Constant) and ann.value is None:
            return ("none",)
        if isinstance(ann, ast.Name):
            if ann.id in SCALARS:
                return SCALARS[ann.id]
            ci = self.index.find_class(ann.id, module)
            if ci is not None:
                if self.index.is_enum(ci):
                    self.declare_enum(ci)
                    return ("enum", ci.name)
                return ("obj", ci.name)
            if ann.id in ("dict", "Dict", "Mapping"):
                return ("dict", ("val",))
            if ann.id in ("list", "List", "Sequence", "Iterable"):
                return ("list", ("val",))
            if ann.id in ("set", "Set", "frozenset"):
                return ("set", ("str",))
            return ("opaque", ann.id)
        if isinstance(ann, ast.Attribute):
            return self.from_ann(ast.Name(id=ann.attr), module)
        if isinstance(ann, ast.BinOp) and isinstance(ann.op, ast.BitOr):
            parts = self._union_parts(ann)
            ts = [self.from_ann(p, module) for p in parts]
            non = [t for t in ts if t != ("none",)]
            has_none = len(non) != len(ts)
            if not non:
                return ("none",)
            # weakref.ReferenceType[X] | X | None etc: take the last object type
            objs = [t for t in non if t[0] == "obj"]
            base = objs[-1] if objs else non[0]
            if len(set(non)) > 1 and not objs:
                base = ("val",)
            return ("opt", base) if has_none else base
        if isinstance(ann, ast.Subscript):
            head = ann.value.id if isinstance(ann.value, ast.Name) else (ann.value.attr if isinstance(ann.value, ast.Attribute) else "")
            sl = ann.slice
            if head in ("Optional",):
                return ("opt", self.from_ann(sl, module))
            if head in ("list", "List", "Sequence", "Iterable", "Iterator"):
                return ("list", self.from_ann(sl, module))
            if head in ("set", "Set", "frozenset", "FrozenSet"):
                return ("set", self.from_ann(sl, module))
            if head in ("dict", "Dict", "Mapping", "MutableMapping"):
                if isinstance(sl, ast.Tuple) and len(sl.elts) == 2:
                    return ("dict", self.from_ann(sl.elts[1], module))
                return ("dict", ("val",))
            if head in ("tuple", "Tuple"):
                if isinstance(sl, ast.Tuple) and any(isinstance(e, ast.Constant) and e.value is Ellipsis for e in sl.elts):
                    return ("havoc",)  # variadic tuple: arity unknown
                if isinstance(sl, ast.Tuple):
                    return ("tuple", [self.from_ann(e, module) for e in sl.elts])
                return ("tuple", [self.from_ann(sl, module)])
            if head in ("type", "Type", "Callable", "ReferenceType"):
                return ("opaque", head)
            return self.from_ann(ann.value, module)
        return ("val",)

    def _union_parts(self, ann):
        if isinstance(ann, ast.BinOp) and isinstance(ann.op, ast.BitOr):
            return self._union_parts(ann.left) + self._union_parts(ann.right)
        return [ann]

    def declare_enum(self, ci):
        members = [k for k, _ in self.index.enum_members(ci)]
        return ENUMS.declare(ci.name, members)

    def field_type(self, ci, name: str):
        for c in self.index.mro(ci):
            if (c.name, name) in self.overrides:
                return self.overrides[(c.name, name)]
        fields = self.index.all_fields(ci)
        if name in fields:
            ann, _d, owner = fields[name]
            return self.from_ann(ann, owner.module)
        return None

    # z3 sort used to store a scalar type in arrays
    def sort_of(self, t):
        k = t[0]
        if k == "bool":
            return BOOL
        if k in ("int",):
            return INT
        if k == "float":
            return z3.RealSort()
        if k == "str":
            return STRS
        if k == "enum":
            return ENUMS.sort(t[1])
        if k == "val":
            return VAL
        return None


def wrap(t, term):
    """z3 term of scalar type t -> V."""
    k = t[0]
    if k == "bool":
        return SBool(term)
    if k == "int":
        return SInt(term)
    if k == "float":
        return SFloat(term)
    if k == "str":
        return SStr(term)
    if k == "enum":
        return SEnum(t[1], term)
    if k == "val":
        return SVal(term)
    raise Unsupported(f"wrap {t}")


def fresh_value(st, typer: Typer, t, name: str, det: bool = False):
    """A fresh unconstrained symbolic value of type t (det: deterministic symbol names, no counter)."""
    fresh_name = (lambda n: n) if det else _fresh_name
    k = t[0]
    if k in ("bool", "int", "float", "str", "enum", "val"):
        term = z3.Const(fresh_name(name), typer.sort_of(t))
        if k == "float":
            return SFloat(term)
        return wrap(t, term)
    if k == "none":
        return SNone
    if k == "havoc":
        from .values import SHavoc

        return SHavoc(fresh_name(name))
    if k == "opt":
        inner = fresh_value(st, typer, t[1], name, det)
        return SOpt(inner, z3.Bool(fresh_name(name + "?")))
    if k == "obj":
        oid = st.new_id()
        ci = typer.index.find_class(t[1])
        st.objs[oid] = ObjRec(t[1], ci, {}, {"name": name, "symbolic": True})
        return SObj(oid)
    if k in ("list", "set"):
        lid = st.new_id()
        rec = ListRec("base", elem_type=t[1], length=z3.Int(fresh_name(name + ".len")), name=name)
        if t[1][0] == "opt":
            rec.opt_elems = True
            rec.elem_type = t[1][1]
        st.lists[lid] = rec
        st.assume(rec.length >= 0)
        return SList(lid) if k == "list" else SSet(lid)
    if k == "dict":
        did = st.new_id()
        st.dicts[did] = DictRec("sym", vals=z3.Array(fresh_name(name + ".vals"), STRS, VAL),
                                has=z3.Array(fresh_name(name + ".has"), STRS, BOOL), val_type=t[1], meta={"name": name})
        return SDict(did)
    if k == "tuple":
        from .values import STuple

        return STuple([fresh_value(st, typer, x, f"{name}.{i}", det) for i, x in enumerate(t[1])])
    if k in ("opaque", "any"):
        from .values import SOpaque

        return SOpaque(name)
    raise Unsupported(f"fresh_value {t}")
