"""Handler effect traces: assumed contracts of the store / queue / transaction API (their postconditions are the
ones proved for the real SQLite implementations in layer L1) and helpers to state trace properties T1-T7."""
from __future__ import annotations

import z3

from .ops import FALSE, TRUE
from .state import Effect
from .typesys import fresh_value
from .values import (ObjRec, PyRaise, SBool, SDict, SElem, SEnum, SInt, SList, SNone, SObj, SOpaque, SOpt, SStr, STuple,
                     SVal, Unsupported, V, fresh_bool, fresh_int, fresh_name)


# ----------------------------------------------------------------------------- object helpers
def new_model_obj(I, cls: str, name: str, **meta) -> SObj:
    oid = I.st.new_id()
    I.st.objs[oid] = ObjRec(cls, None, {}, dict(meta, name=name))
    return SObj(oid)


def new_symbolic(I, cls: str, name: str) -> SObj:
    v = fresh_value(I.st, I.typer, ("obj", cls), name, det=True)
    I.st.objs[v.oid].meta["symbolic"] = True
    return v


def _counter(I, key: str) -> int:
    n = I.st.ghost.get(key, 0) + 1
    I.st.ghost[key] = n
    return n


def raise_exc(I, clsname: str, module: str | None = None):
    ci = I.index.find_class(clsname, module)
    if ci is not None:
        oid = I.st.new_id()
        rec = ObjRec(ci.name, ci, {"args": STuple([])}, {"exception": True})
        I.st.objs[oid] = rec
        raise PyRaise(SObj(oid))
    I.raise_builtin(clsname, "")


def snapshot_stage(I, stage: V) -> dict:
    """Capture what a store of `stage` would write (status, tasks' statuses, version, context)."""
    st = I.st
    snap: dict = {"obj": stage}
    snap["status"] = I.getattr(stage, "status")
    snap["id"] = I.getattr(stage, "id")
    tasks = I.getattr(stage, "tasks")
    snap["tasks"] = tasks
    if isinstance(tasks, SList):
        rec = st.lists[tasks.lid]
        if rec.kind == "base":
            # force the status array to exist so that loaded/stored arrays can be compared
            e = SElem(tasks.lid, tuple(tasks.idx) + (z3.Int("$probe"),))
            I.elem_getattr(e, "status")
            snap["task_status"] = I._select(rec.fields["status"], tasks.idx)
            snap["task_len"] = I.ops.list_len(tasks)
    ctx = I.getattr(stage, "context")
    if isinstance(ctx, SDict):
        drec = st.dicts[ctx.did]
        if drec.kind == "conc":
            c2 = I.ops.copy_dict(ctx)
            I.ops.dict_symbolize(c2)
            drec = st.dicts[c2.did]
        snap["ctx_vals"], snap["ctx_has"] = drec.vals, drec.has
    return snap


def _note_version(I, stage, eff) -> None:
    """Ghost for C07: the version a store presents to the guard, against the version the row had when this object was
    loaded plus the number of this object's own successful stores since (the only legitimate source of a version)."""
    if not isinstance(stage, SObj):
        return
    ld = loaded_info(I, stage)
    if "version" not in ld:
        return
    eff.data["ver_presented"] = I.ops.as_int(I.getattr(stage, "version"))
    eff.data["ver_legit"] = I.ops.as_int(ld["version"]) + I.st.objs[stage.oid].meta.get("ver_bumps", 0)


def loaded_info(I, obj: V) -> dict:
    if isinstance(obj, SObj):
        return I.st.objs[obj.oid].meta.get("loaded", {})
    if isinstance(obj, SElem):
        return I.st.lists[obj.lid].meta.get("loaded", {})
    return {}


def mark_loaded(I, obj: SObj, kind: str, how: str) -> None:
    """Record the durable values an object had when it was loaded (ghost)."""
    rec = I.st.objs[obj.oid]
    info = {"kind": kind, "how": how, "seq": _counter(I, "load_seq")}
    info["status"] = I.getattr(obj, "status")
    if kind == "stage":
        info["version"] = I.getattr(obj, "version")
        tasks = I.getattr(obj, "tasks")
        lrec = I.st.lists[tasks.lid]
        e = SElem(tasks.lid, (z3.Int("$probe"),))
        I.elem_getattr(e, "status")
        info["task_status"] = lrec.fields["status"]
        info["tasks_lid"] = tasks.lid
        ctx = I.getattr(obj, "context")
        drec = I.st.dicts[ctx.did]
        info["ctx_vals"], info["ctx_has"] = drec.vals, drec.has
        st_time = I.getattr(obj, "start_time")
        info["start_time"] = st_time
    rec.meta["loaded"] = info
    I.st.emit("load", obj=obj, kind=kind, how=how)


# ----------------------------------------------------------------------------- the store / queue model
class StoreModel:
    """Installs models for WorkflowStore, Queue, StoreTransaction, EventRecorder into a registry."""

    def __init__(self, reg, stage_exists="either"):
        self.reg = reg
        r = reg
        r.methods[("WorkflowStore", "retrieve")] = self.retrieve
        r.methods[("WorkflowStore", "retrieve_stage")] = self.retrieve_stage
        r.methods[("WorkflowStore", "get_upstream_stages")] = self.stage_list("upstream")
        r.methods[("WorkflowStore", "get_downstream_stages")] = self.stage_list("downstream")
        r.methods[("WorkflowStore", "get_synthetic_stages")] = self.stage_list("synthetic")
        r.methods[("WorkflowStore", "transaction")] = self.transaction
        r.methods[("WorkflowStore", "store_stage")] = self.standalone("store_stage")
        r.methods[("WorkflowStore", "add_stage")] = self.standalone("add_stage")
        r.methods[("WorkflowStore", "cancel")] = self.standalone("cancel")
        r.methods[("WorkflowStore", "store")] = self.standalone("store")
        r.methods[("WorkflowStore", "update_status")] = self.standalone("update_status")
        r.methods[("WorkflowStore", "pause")] = self.standalone("pause")
        r.methods[("WorkflowStore", "resume")] = self.standalone("resume")
        r.methods[("WorkflowStore", "get_merged_ancestor_outputs")] = self.ancestor_outputs
        r.methods[("StoreTransaction", "store_stage")] = self.txn_store_stage
        r.methods[("StoreTransaction", "push_message")] = self.txn_push
        r.methods[("StoreTransaction", "mark_message_processed")] = self.txn_mark
        r.methods[("StoreTransaction", "update_workflow_status")] = self.txn_update_workflow
        r.methods[("StoreTransaction", "acquire_claim")] = self.txn_claim
        r.methods[("Queue", "push")] = self.queue_push
        r.methods[("Queue", "reschedule")] = self.queue_op("reschedule")
        r.methods[("Queue", "ack")] = self.queue_op("ack")
        r.methods[("Queue", "has_pending_message_for_task")] = self.queue_pending
        r.methods[("Queue", "ensure_scheduled")] = self.queue_op("ensure_scheduled")
        r.methods[("TaskRegistry", "get")] = self.registry_get

    def registry_get(self, I, a, k):
        # assumed: returns some task implementation (opaque user code) or raises TaskNotFoundError
        if I.st.choose("task_not_found"):
            raise_exc(I, "TaskNotFoundError", "stabilize.tasks.registry")
        n = _counter(I, "impl_n")
        impl = new_model_obj(I, "TaskImpl", f"task_impl{n}", open=True)

        def is_enabled(I2, a2, k2):
            return SBool(fresh_bool("task_enabled"))

        I.st.objs[impl.oid].fields["is_enabled"] = __import__("pyvc.values", fromlist=["SModel"]).SModel(is_enabled, None, "SkippableTask.is_enabled")
        return impl

    # -- construction of the handler's collaborators
    @staticmethod
    def make_repository(I) -> SObj:
        return new_model_obj(I, "WorkflowStore", "repository")

    @staticmethod
    def make_queue(I) -> SObj:
        return new_model_obj(I, "Queue", "queue")

    @staticmethod
    def make_recorder(I) -> V:
        rec = new_model_obj(I, "EventRecorder", "event_recorder")
        return SOpt(rec, z3.Bool("event_recorder_absent"))

    # -- loads
    def retrieve(self, I, a, k):
        exec_id = a[1] if len(a) > 1 else k.get("execution_id")
        if I.st.choose("workflow_not_found"):
            I.st.emit("load_failed", kind="execution")
            raise_exc(I, "WorkflowNotFoundError", "stabilize.persistence.store")
        n = _counter(I, "exec_n")
        ex = new_symbolic(I, "Workflow", f"execution{n}")
        I.st.objs[ex.oid].fields["id"] = exec_id
        mark_loaded(I, ex, "execution", "retrieve")
        return ex

    def retrieve_stage(self, I, a, k):
        stage_id = a[1] if len(a) > 1 else k.get("stage_id")
        if I.st.choose("stage_not_found"):
            I.st.emit("load_failed", kind="stage")
            I.raise_builtin("ValueError", "stage not found")
        n = _counter(I, "stage_n")
        stg = new_symbolic(I, "StageExecution", f"stage{n}")
        I.st.objs[stg.oid].fields["id"] = stage_id
        mark_loaded(I, stg, "stage", "retrieve_stage")
        return stg

    def stage_list(self, how):
        def f(I, a, k):
            n = _counter(I, "stagelist_n")
            lst = fresh_value(I.st, I.typer, ("list", ("obj", "StageExecution")), f"{how}{n}", det=True)
            I.st.lists[lst.lid].meta["loaded"] = {"kind": "stage_list", "how": how}
            I.st.emit("load", obj=lst, kind="stage_list", how=how)
            return lst
        return f

    def ancestor_outputs(self, I, a, k):
        n = _counter(I, "anc_n")
        d = fresh_value(I.st, I.typer, ("dict", ("val",)), f"ancestor_outputs{n}", det=True)
        return d

    # -- transactions
    def transaction(self, I, a, k):
        n = _counter(I, "txn_n")
        txn = new_model_obj(I, "StoreTransaction", f"txn{n}", txn_id=n)

        def enter(I2, cm):
            if I2.st.ghost.get("open_txn") is not None:
                I2.st.emit("nested_txn", txn=n)
            I2.st.ghost["open_txn"] = n
            I2.st.emit("txn_begin", txn=n)
            return txn

        def exit_(I2, cm, exc):
            I2.st.ghost["open_txn"] = None
            staged = I2.st.ghost.get("txn_staged", {}).pop(n, [])
            if exc is None:
                I2.st.emit("txn_commit", txn=n)
            else:
                # rollback_versions (proved for the real store.transaction in L1, C07/rollback-restores)
                for oid, ver, bumps in reversed(staged):
                    I2.st.objs[oid].fields["version"] = ver
                    I2.st.objs[oid].meta["ver_bumps"] = bumps
                I2.st.emit("txn_rollback", txn=n, exc=exc)
            return False

        cm = new_model_obj(I, "$txn_cm", f"txn_cm{n}")
        I.st.objs[cm.oid].meta["enter"] = enter
        I.st.objs[cm.oid].meta["exit"] = exit_
        return cm

    def _txn_id(self, I, txn):
        return I.st.objs[txn.oid].meta.get("txn_id")

    def txn_store_stage(self, I, a, k):
        txn, stage = a[0], a[1]
        expected = a[2] if len(a) > 2 else k.get("expected_phase", SNone)
        snap = snapshot_stage(I, stage)
        eff = I.st.emit("store_stage", txn=self._txn_id(I, txn), stage=stage, snap=snap, expected_phase=expected,
                        loaded=dict(loaded_info(I, stage)))
        _note_version(I, stage, eff)
        if I.st.choose("concurrency_error"):
            eff.data["failed"] = True
            raise_exc(I, "ConcurrencyError", "stabilize.errors")
        # success: the in-memory version is bumped (proved for the real AtomicTransaction.store_stage in L1)
        if isinstance(stage, SObj):
            ver = I.getattr(stage, "version")
            rec = I.st.objs[stage.oid]
            I.st.ghost.setdefault("txn_staged", {}).setdefault(self._txn_id(I, txn), []).append((stage.oid, ver, rec.meta.get("ver_bumps", 0)))
            rec.fields["version"] = SInt(I.ops.as_int(ver) + 1)
            rec.meta["ver_bumps"] = rec.meta.get("ver_bumps", 0) + 1
        return SNone

    def txn_push(self, I, a, k):
        txn, msg = a[0], a[1]
        delay = a[2] if len(a) > 2 else k.get("delay", SNone)
        I.st.emit("push", txn=self._txn_id(I, txn), msg=msg, delay=delay, cls=self._cls(I, msg))
        return SNone

    def txn_mark(self, I, a, k):
        txn = a[0]
        mid = k.get("message_id", a[1] if len(a) > 1 else SNone)
        I.st.emit("mark", txn=self._txn_id(I, txn), message_id=mid, handler_type=k.get("handler_type", SNone))
        return SNone

    def txn_update_workflow(self, I, a, k):
        txn, wf = a[0], a[1]
        I.st.emit("update_workflow", txn=self._txn_id(I, txn), workflow=wf, status=I.getattr(wf, "status"),
                  loaded=dict(loaded_info(I, wf)))
        return SNone

    def txn_claim(self, I, a, k):
        txn = a[0]
        got = fresh_bool("claim_acquired")
        I.st.emit("claim", txn=self._txn_id(I, txn), args=list(a[1:]), kwargs=dict(k), result=got)
        return SBool(got)

    def _cls(self, I, msg):
        ci = I.class_of(msg)
        return ci.name if ci is not None else "?"

    # -- operations that commit on their own
    def standalone(self, name):
        def f(I, a, k):
            data = dict(op=name, args=list(a[1:]), kwargs=dict(k), in_txn=I.st.ghost.get("open_txn"))
            if name == "store_stage":
                data["snap"] = snapshot_stage(I, a[1])
                data["loaded"] = dict(loaded_info(I, a[1]))
            eff = I.st.emit("standalone", **data)
            if name == "store_stage":
                _note_version(I, a[1], eff)
            if name in ("store_stage",) and I.st.choose("concurrency_error"):
                eff.data["failed"] = True  # this write lost the compare-and-swap: nothing was stored
                raise_exc(I, "ConcurrencyError", "stabilize.errors")
            if name == "store_stage" and isinstance(a[1], SObj):
                ver = I.getattr(a[1], "version")
                rec = I.st.objs[a[1].oid]
                rec.fields["version"] = SInt(I.ops.as_int(ver) + 1)
                rec.meta["ver_bumps"] = rec.meta.get("ver_bumps", 0) + 1
            return SNone
        return f

    def queue_push(self, I, a, k):
        msg = a[1]
        delay = a[2] if len(a) > 2 else k.get("delay", SNone)
        I.st.emit("queue_push", msg=msg, delay=delay, cls=self._cls(I, msg), in_txn=I.st.ghost.get("open_txn"))
        return SNone

    def queue_op(self, name):
        def f(I, a, k):
            I.st.emit("queue_op", op=name, args=list(a[1:]), in_txn=I.st.ghost.get("open_txn"))
            return SNone
        return f

    def queue_pending(self, I, a, k):
        b = fresh_bool("pending_for_task")
        I.st.emit("queue_query", op="has_pending_message_for_task", args=list(a[1:]), result=b)
        return SBool(b)


def install_recorder(reg):
    """EventRecorder.record_* -> Event effects (kind = method name)."""
    kinds = ["record_workflow_started", "record_workflow_completed", "record_workflow_failed", "record_workflow_canceled",
             "record_workflow_paused", "record_workflow_resumed", "record_stage_started", "record_stage_completed",
             "record_stage_failed", "record_stage_skipped", "record_stage_canceled", "record_task_started",
             "record_task_completed", "record_task_failed", "record_task_retried", "record_jump", "record_stage_jumped",
             "record_context_updated", "record_stage_suspended", "record_stage_resumed", "record_signal_received"]

    def mk(kind):
        def f(I, a, k):
            ent = a[1] if len(a) > 1 else SNone
            status = None
            try:
                status = I.getattr(ent, "status") if isinstance(ent, (SObj, SElem)) else None
            except (PyRaise, Unsupported):
                status = None
            I.st.emit("event", kind=kind, entity=ent, status=status, in_txn=I.st.ghost.get("open_txn"), kwargs=dict(k))
            return SNone
        return f

    for kd in kinds:
        reg.methods[("EventRecorder", kd)] = mk(kd)


def install_handler_base(reg):
    """Assumed contracts for the handler base class plumbing."""

    def retry_on_concurrency_error(I, a, k):
        # contract: invokes func; a ConcurrencyError leads to a re-invocation (covered by the arbitrary loaded state of
        # this analysis: C07/retry-reloads) or, after max_retries, escapes.  The escaping case is kept.
        func = a[1]
        try:
            I.call(func, [], {})
        except PyRaise as pr:
            if "ConcurrencyError" in I.exc_class_names(pr.exc):
                I.st.emit("concurrency_retry")
            raise
        return SNone

    reg.contracts["stabilize.handlers.base:StabilizeHandler.retry_on_concurrency_error"] = retry_on_concurrency_error
    reg.methods[("StabilizeHandler", "set_event_context")] = lambda I, a, k: SNone
    reg.props[("StabilizeHandler", "event_recorder")] = lambda I, obj: I.obj_getattr(obj, "_event_recorder")
    reg.props[("StageExecution", "execution")] = _stage_execution
    reg.type_overrides[("StageExecution", "_execution")] = ("obj", "Workflow")


def _stage_execution(I, obj):
    if isinstance(obj, SObj):
        rec = I.st.objs[obj.oid]
        if "_execution" in rec.fields:
            return rec.fields["_execution"]
        v = new_symbolic(I, "Workflow", f"{rec.meta.get('name', 'stage')}.execution")
        rec.fields["_execution"] = v
        if getattr(I.registry, "appendable_stages", False):
            # the unit appends to execution.stages: present the (arbitrary) loaded list as a derived list over itself
            base = I.getattr(v, "stages")
            I.st.objs[v.oid].fields["stages"] = I.ops.new_derived(I.ops.segments(base))
        if rec.meta.get("loaded"):
            # the execution row comes with the loaded stage: remember its durable status (ghost) for the legal-write check
            I.st.objs[v.oid].meta["loaded"] = {"kind": "execution", "how": "stage.execution", "status": I.getattr(v, "status")}
        return v
    # a stage that is an element of a loaded workflow's stage list belongs to that workflow
    from .values import SList

    for oid, rec in I.st.objs.items():
        if (rec.cls == "Workflow" or (rec.ci is not None and rec.ci.name == "Workflow")) and isinstance(rec.fields.get("stages"), SList) \
                and rec.fields["stages"].lid == obj.lid and len(obj.idx) == 1:
            return SObj(oid)
    return I.elem_field(obj, "_execution", ("obj", "Workflow"))


# ----------------------------------------------------------------------------- trace views
class Txn:
    def __init__(self, tid):
        self.tid = tid
        self.effects: list[Effect] = []
        self.committed = False
        self.rolled_back = False


def transactions(effects) -> list[Txn]:
    out: dict[int, Txn] = {}
    order = []
    for e in effects:
        if e.kind == "txn_begin":
            out[e.data["txn"]] = Txn(e.data["txn"])
            order.append(e.data["txn"])
        elif e.kind == "txn_commit":
            out[e.data["txn"]].committed = True
        elif e.kind == "txn_rollback":
            out[e.data["txn"]].rolled_back = True
        elif e.data.get("txn") in out and e.kind in ("store_stage", "push", "mark", "update_workflow", "claim"):
            out[e.data["txn"]].effects.append(e)
        elif e.kind == "foreach":
            for b in e.data["body"]:
                if b.data.get("txn") in out:
                    out[b.data["txn"]].effects.append(Effect("foreach", dict(e.data, body=[b])))
    return [out[t] for t in order]


def flat(effects):
    """Yield (effect, guard) with foreach bodies unfolded (guard = z3 Bool over the bound index, or True)."""
    for e in effects:
        if e.kind == "foreach":
            rng = z3.And(e.data["g"] >= 0, e.data["g"] < e.data["hi"], e.data["cond"],
                         *[z3.And(fg >= 0, fg < fhi, fc) for (_l, _p, fhi, fg, fc) in e.data.get("outer", ())])
            for b, gd in flat(e.data["body"]):
                yield b, z3.And(rng, gd) if not z3.is_true(gd) else rng
        else:
            yield e, TRUE
