"""Models of Python builtins and of methods of builtin types (part of the encoding, see DESIGN 1.3)."""
from __future__ import annotations

import ast

import z3


def _zsum(ts):
    """z3.Sum, except that a one-element sum is the element itself: z3 prints (+ x) for it, which cvc5 1.0 rejects."""
    ts = list(ts)
    return ts[0] if len(ts) == 1 else z3.Sum(ts)


from .ops import FALSE, TRUE, val_truthy
from .values import (EMPTY, VAL, ListRec, ObjRec, PyRaise, SBool, SBuiltin, SCarried, SClass, SDict, SElem, SEnum,
                     SExternal, SFloat, SFunc, SInt, SList, SModel, SNone, SObj, SOpaque, SOpt, SSet, SStr, STuple, SVal,
                     Seg, Unsupported, V, fresh_int, fresh_name, vdict_get, vdict_has, vdict_size, vhashable, vlist_get,
                     vlist_has_str, vlist_len)

BUILTINS = {"len", "isinstance", "issubclass", "bool", "int", "str", "float", "list", "set", "frozenset", "dict", "tuple",
            "sorted", "any", "all", "sum", "max", "min", "hasattr", "getattr", "setattr", "type", "range", "enumerate",
            "zip", "print", "repr", "id", "abs", "round", "next", "iter", "callable", "reversed", "hash", "object",
            "NotImplemented", "property", "staticmethod", "classmethod", "map", "filter", "vars", "open", "bytes", "super", "bytearray"}


def _mk(cls: str, I, **fields):
    oid = I.st.new_id()
    I.st.objs[oid] = ObjRec(cls, None, dict(fields), {})
    return SObj(oid)


def call_builtin(I, name: str, args, kwargs):
    from .index import BUILTIN_EXC

    if name in BUILTIN_EXC or name == "FrozenInstanceError":
        oid = I.st.new_id()
        I.st.objs[oid] = ObjRec(name, None, {"args": STuple(list(args))}, {"exception": True})
        return SObj(oid)
    fn = globals().get("b_" + name.replace(".", "_"))
    if fn is None:
        raise Unsupported(f"builtin {name}")
    return fn(I, args, kwargs)


def b_len(I, a, k):
    v = a[0]
    if isinstance(v, (SList, SSet)):
        return SInt(I.ops.list_len(v))
    if isinstance(v, STuple):
        return SInt(z3.IntVal(len(v.items)))
    if isinstance(v, SDict):
        rec = I.st.dicts[v.did]
        if rec.kind == "conc":
            return SInt(z3.IntVal(len(rec.items)))
        n = fresh_int("dlen")
        I.st.assume(n >= 0)
        I.st.assume((n > 0) == I.ops.dict_nonempty(v))
        return SInt(n)
    if isinstance(v, SStr):
        if v.lit is not None:
            return SInt(z3.IntVal(len(v.lit)))
        f = z3.Function("str_len", z3.IntSort(), z3.IntSort())
        I.st.assume(f(v.t) >= 0)
        I.st.assume((f(v.t) == 0) == (v.t == EMPTY))
        return SInt(f(v.t))
    if isinstance(v, SVal):
        return val_len(I, v)
    if isinstance(v, SOpt):
        if I.st.branch(v.isnone):
            I.raise_builtin("TypeError", "object of type 'NoneType' has no len()")
        return b_len(I, [v.inner], k)
    raise Unsupported(f"len of {type(v).__name__}")


def b_isinstance(I, a, k):
    return SBool(I.isinstance_(a[0], a[1]))


def b_issubclass(I, a, k):
    if isinstance(a[0], SClass) and isinstance(a[1], SClass):
        return SBool(z3.BoolVal(a[1].ci.name in I.index.base_names(a[0].ci)))
    raise Unsupported("issubclass")


def b_bool(I, a, k):
    if not a:
        return SBool(FALSE)
    return SBool(I.ops.truthy(a[0]))


def b_int(I, a, k):
    if not a:
        return SInt(z3.IntVal(0))
    v = a[0]
    if isinstance(v, SInt):
        return v
    if isinstance(v, SBool):
        return SInt(I.ops.as_int(v))
    if isinstance(v, SFloat):
        return SInt(z3.ToInt(v.t))  # floor for non-negative values; the repository only truncates times
    if isinstance(v, SStr):
        f = z3.Function("int_of_str", z3.IntSort(), z3.IntSort())
        ok = z3.Function("str_is_int", z3.IntSort(), z3.BoolSort())
        if I.st.branch(z3.Not(ok(v.t))):
            I.raise_builtin("ValueError", "invalid literal for int()")
        return SInt(f(v.t))
    if isinstance(v, SVal):
        return val_int(I, v)
    if isinstance(v, SOpt):
        if I.st.branch(I.ops.is_none(v)):
            I.raise_builtin("TypeError", "int() argument must be a string or a number, not 'NoneType'")
        return b_int(I, [v.inner], k)
    raise Unsupported(f"int() of {type(v).__name__}")


def b_bytearray(I, a, k):
    """bytearray(n): n zero bytes (a symbolic list of ints)."""
    from .typesys import fresh_value

    if len(a) != 1 or not isinstance(a[0], (SInt, SBool)):
        raise Unsupported("bytearray() of something other than a length")
    lst = fresh_value(I.st, I.typer, ("list", ("int",)), fresh_name("bytearray"), det=True)
    n = I.ops.as_int(a[0])
    if I.st.branch(n < 0):
        I.raise_builtin("ValueError", "negative count")
    arr = I._elem_array(lst.lid, "$v", z3.IntSort())
    j = z3.Int(fresh_name("bj"))
    I.st.assume(I.ops.list_len(lst) == n)
    I.st.assume(z3.ForAll([j], z3.Select(arr, j) == 0))
    return lst


def b_float(I, a, k):
    v = a[0]
    if isinstance(v, (SInt, SBool, SFloat)):
        return SFloat(I.ops.as_real(v))
    raise Unsupported("float()")


def b_str(I, a, k):
    if not a:
        return I.ops.lit("")
    v = a[0]
    if isinstance(v, SStr):
        return v
    if isinstance(v, SInt):
        f = z3.Function("str_of_int", z3.IntSort(), z3.IntSort())
        g = z3.Function("int_of_str", z3.IntSort(), z3.IntSort())
        ok = z3.Function("str_is_int", z3.IntSort(), z3.BoolSort())
        I.st.assume(z3.And(g(f(v.t)) == v.t, ok(f(v.t)), f(v.t) != EMPTY))
        return SStr(f(v.t))
    if isinstance(v, SEnum):
        m = I.find_attr_in_class(v, "__str__")
        if m is not None:
            return I.call(m, [], {})
        return I.enum_getattr(v, "name")
    try:
        return I.ops.fmt("{}", [v])
    except Unsupported:
        return I.ops.opaque_str("str")


b_repr = b_str


def b_list(I, a, k):
    if not a:
        return I.ops.new_conc_list([])
    v = a[0]
    if isinstance(v, SVal):
        # list(<dynamic value>): for a list value a fresh list value with the same elements (a shallow copy); a dict or
        # str value would iterate keys / characters, which the dynamic-value model does not represent
        if I.st.branch(z3.Not(VAL.is_VList(v.t))):
            if I.st.branch(z3.Or(VAL.is_VDict(v.t), VAL.is_VStr(v.t))):
                # the keys of a dict value / the characters of a str value: some list about which nothing else is known
                unk = z3.Int(fresh_name("vlist_of_keys"))
                I.st.assume(vlist_len(unk) >= 0)
                return SVal(VAL.VList(unk))
            I.raise_builtin("TypeError", "object is not iterable")
        src = VAL.vl(v.t)
        cp = z3.Int(fresh_name("vlist_copy"))
        j = z3.Int(fresh_name("j"))
        I.st.assume(vlist_len(cp) == vlist_len(src))
        I.st.assume(vlist_len(src) >= 0)
        I.st.assume(z3.ForAll([j], vlist_get(cp, j) == vlist_get(src, j)))
        s_ = z3.Int(fresh_name("s"))
        I.st.assume(z3.ForAll([s_], vlist_has_str(cp, s_) == vlist_has_str(src, s_)))
        return SVal(VAL.VList(cp))
    return I.ops.new_derived(I.iter_segments(v))


def b_tuple(I, a, k):
    if not a:
        return STuple([])
    segs = I.iter_segments(a[0])
    if all(isinstance(s, tuple) for s in segs):
        return STuple([x for s in segs for x in s[1]])
    return I.ops.new_derived(segs)


def b_set(I, a, k):
    if not a:
        return I.ops.new_conc_list([], as_set=True)
    v = a[0]
    if isinstance(v, SOpt):
        if I.st.branch(I.ops.is_none(v)):
            I.raise_builtin("TypeError", "'NoneType' object is not iterable")
        v = v.inner
    if isinstance(v, SVal):
        # set(<list value>) -- only membership of strings is observable through the supported operations
        oid = I.st.new_id()
        I.st.objs[oid] = ObjRec("$valset", None, {"v": v}, {})
        return SObj(oid)
    segs = I.iter_segments(v)
    out = I.ops.new_derived(segs, as_set=True)
    I.st.lists[out.lid].meta["maybe_dups"] = True
    return out


b_frozenset = b_set


def b_dict(I, a, k):
    d = I.ops.new_dict()
    if a:
        src = a[0]
        if isinstance(src, SDict):
            d = I.ops.copy_dict(src)
        elif isinstance(src, SVal):
            dict_update_from_val(I, d, src)
        else:
            for s in I.iter_segments(src):
                if not isinstance(s, tuple):
                    raise Unsupported("dict() of a symbolic sequence")
                for it in s[1]:
                    kk, vv = it.items
                    I.ops.dict_set(d, kk, vv)
    for kk, vv in k.items():
        I.ops.dict_set(d, I.ops.lit(kk), vv)
    return d


def b_sorted(I, a, k):
    v = a[0]
    segs = I.iter_segments(v)
    if all(isinstance(s, tuple) for s in segs) and sum(len(s[1]) for s in segs) <= 1:
        return I.ops.new_conc_list([x for s in segs for x in s[1]])
    # order is not modelled: same members, unspecified order
    out = I.ops.new_derived(segs)
    I.st.lists[out.lid].meta["unordered"] = True
    return out


def _any_all(I, a, want_any: bool):
    segs = I.iter_segments(a[0])
    parts = []
    for s in segs:
        if isinstance(s, tuple):
            for x in s[1]:
                t = I.ops.truthy(x)
                parts.append(t if want_any else t)
        else:
            t = I.ops.truthy(s.mapv)
            if want_any:
                parts.append(I.ops.count_seg(s, z3.And(s.cond, t)) > 0)
            else:
                parts.append(I.ops.count_seg(s, z3.And(s.cond, z3.Not(t))) == 0)
    if want_any:
        return SBool(z3.Or(*parts) if parts else FALSE)
    return SBool(z3.And(*parts) if parts else TRUE)


def b_any(I, a, k):
    return _any_all(I, a, True)


def b_all(I, a, k):
    return _any_all(I, a, False)


def b_sum(I, a, k):
    segs = I.iter_segments(a[0])
    tot = I.ops.as_int(a[1]) if len(a) > 1 else z3.IntVal(0)
    for s in segs:
        if isinstance(s, tuple):
            for x in s[1]:
                tot = tot + I.ops.as_int(x)
        else:
            if isinstance(s.mapv, (SInt, SBool)) and not I._depends_on(s.mapv, s.g):
                tot = tot + I.ops.as_int(s.mapv) * I.ops.count_seg(s)
            else:
                raise Unsupported("sum over a symbolic sequence")
    return SInt(tot)


def _minmax(I, a, k, is_max):
    items = a if len(a) > 1 else None
    if items is None:
        segs = I.iter_segments(a[0])
        if not all(isinstance(s, tuple) for s in segs):
            raise Unsupported("max/min over a symbolic sequence")
        items = [x for s in segs for x in s[1]]
    if not items:
        if "default" in k:
            return k["default"]
        I.raise_builtin("ValueError", "max() arg is an empty sequence")
    res = items[0]
    for x in items[1:]:
        c = I.order(ast.Gt() if is_max else ast.Lt(), x, res)
        res = I.ops.ite(c, x, res)
    return res


def b_max(I, a, k):
    return _minmax(I, a, k, True)


def b_min(I, a, k):
    return _minmax(I, a, k, False)


def b_abs(I, a, k):
    v = a[0]
    if isinstance(v, SInt):
        return SInt(z3.If(v.t >= 0, v.t, -v.t))
    if isinstance(v, SFloat):
        return SFloat(z3.If(v.t >= 0, v.t, -v.t))
    raise Unsupported("abs")


def b_round(I, a, k):
    v = a[0]
    if isinstance(v, SInt):
        return v
    f = z3.Function("py_round", z3.RealSort(), z3.IntSort())
    return SInt(f(I.ops.as_real(v)))


def b_hasattr(I, a, k):
    name = a[1]
    if not (isinstance(name, SStr) and name.lit is not None):
        raise Unsupported("hasattr with a non-literal name")
    return SBool(I.has_attr(a[0], name.lit))


def b_getattr(I, a, k):
    name = a[1]
    if not (isinstance(name, SStr) and name.lit is not None):
        raise Unsupported("getattr with a non-literal name")
    if len(a) > 2:
        if isinstance(a[0], (SObj, SElem, SOpt)) or a[0] is SNone:
            h = I.has_attr(a[0], name.lit)
            if I.st.branch(h):
                return I.getattr(a[0], name.lit)
            return a[2]
        try:
            return I.getattr(a[0], name.lit)
        except PyRaise:
            return a[2]
    return I.getattr(a[0], name.lit)


def b_setattr(I, a, k):
    name = a[1]
    if not (isinstance(name, SStr) and name.lit is not None):
        raise Unsupported("setattr with a non-literal name")
    I.setattr(a[0], name.lit, a[2])
    return SNone


def b_type(I, a, k):
    v = a[0]
    ci = I.class_of(v)
    if ci is not None:
        return SClass(ci)
    if isinstance(v, SObj):
        rec = I.st.objs[v.oid]
        oid = I.st.new_id()
        I.st.objs[oid] = ObjRec("$type", None, {"__name__": I.ops.lit(rec.cls)}, {})
        return SObj(oid)
    names = {SStr: "str", SInt: "int", SBool: "bool", SList: "list", SDict: "dict", SFloat: "float", STuple: "tuple", SSet: "set"}
    for t, n in names.items():
        if isinstance(v, t):
            return SBuiltin(n)
    if isinstance(v, SVal):
        oid = I.st.new_id()
        I.st.objs[oid] = ObjRec("$type", None, {"__name__": I.ops.opaque_str("tname")}, {})
        return SObj(oid)
    raise Unsupported("type()")


def b_range(I, a, k):
    if len(a) == 1:
        lo, hi = z3.IntVal(0), I.ops.as_int(a[0])
    elif len(a) == 2:
        lo, hi = I.ops.as_int(a[0]), I.ops.as_int(a[1])
    else:
        lo, hi, step = (z3.simplify(I.ops.as_int(x)) for x in a)
        if all(z3.is_int_value(x) for x in (lo, hi, step)):
            return I.ops.new_conc_list([SInt(z3.IntVal(i)) for i in range(lo.as_long(), hi.as_long(), step.as_long())])
        raise Unsupported("range with a symbolic step")
    return _mk("$range", I, lo=lo, hi=hi)


def b_enumerate(I, a, k):
    return _mk("$enumerate", I, it=a[0])


def b_zip(I, a, k):
    cols = []
    for x in a:
        segs = I.iter_segments(x)
        if not all(isinstance(s, tuple) for s in segs):
            raise Unsupported("zip of symbolic sequences")
        cols.append([y for s in segs for y in s[1]])
    n = min(len(c) for c in cols) if cols else 0
    return I.ops.new_conc_list([STuple([c[i] for c in cols]) for i in range(n)])


def b_print(I, a, k):
    return SNone


def b_id(I, a, k):
    v = a[0]
    if isinstance(v, SObj):
        return SInt(z3.IntVal(v.oid))
    return SInt(fresh_int("id"))


def b_callable(I, a, k):
    v = a[0]
    return SBool(z3.BoolVal(isinstance(v, (SFunc, SModel, SBuiltin, SClass, SExternal))))


def b_next(I, a, k):
    segs = I.iter_segments(a[0])
    total = []
    for s in segs:
        if isinstance(s, tuple):
            if s[1]:
                return s[1][0]
            continue
        n = I.ops.count_seg(s)
        if I.st.branch(n > 0):
            w = I.first_index(s.lid, s.pidx, s.hi, s.g, s.cond)
            return I.subst_value(s.mapv, s.g, w)
    if len(a) > 1:
        return a[1]
    I.raise_builtin("StopIteration", "")


def b_iter(I, a, k):
    return a[0]


def b_reversed(I, a, k):
    segs = I.iter_segments(a[0])
    if all(isinstance(s, tuple) for s in segs):
        return I.ops.new_conc_list(list(reversed([x for s in segs for x in s[1]])))
    raise Unsupported("reversed() of a symbolic sequence")


def b_hash(I, a, k):
    f = z3.Function("py_hash", VAL, z3.IntSort())
    return SInt(f(I.ops.to_val(a[0])))


def b_object(I, a, k):
    return _mk("object", I)


def b_vars(I, a, k):
    raise Unsupported("vars()")


# ============================================================================ methods of builtin types
def method(I, obj: V, name: str) -> V:
    if isinstance(obj, (SList,)):
        fn = globals().get("l_" + name)
    elif isinstance(obj, SSet):
        fn = globals().get("set_" + name) or globals().get("l_" + name)
    elif isinstance(obj, SDict):
        fn = globals().get("d_" + name)
    elif isinstance(obj, SStr):
        fn = globals().get("s_" + name)
    elif isinstance(obj, STuple):
        fn = globals().get("t_" + name)
    elif isinstance(obj, SVal):
        fn = globals().get("v_" + name)
    elif isinstance(obj, SInt):
        fn = globals().get("i_" + name)
    elif isinstance(obj, SObj):
        fn = None
    else:
        fn = None
    if fn is None:
        pytype = {SList: list, SSet: set, SDict: dict, SStr: str, STuple: tuple, SInt: int}.get(type(obj))
        if pytype is not None and not hasattr(pytype, name):
            # the Python type has no such attribute at all: AttributeError, exactly as at run time
            I.raise_builtin("AttributeError", f"'{pytype.__name__}' object has no attribute '{name}'")
        raise Unsupported(f"method {name} on {type(obj).__name__}")
    return SModel(fn, obj, f"{type(obj).__name__}.{name}")


# ---- list
def l_append(I, a, k):
    lst, x = a
    rec = I.st.lists[lst.lid]
    if rec.kind == "base":
        raise Unsupported("append to a symbolic base list")
    rec.write_log.append(("$append", x))
    if rec.kind == "conc":
        rec.items.append(x)
    else:
        rec.segs.append(("conc", [x]))
    return SNone


def l_extend(I, a, k):
    lst, other = a
    rec = I.st.lists[lst.lid]
    rec.write_log.append(("$extend", other))
    I.list_extend(lst, other)
    return SNone


def l_copy(I, a, k):
    return I.ops.new_derived(I.ops.segments(a[0]), as_set=isinstance(a[0], SSet))


def l_index(I, a, k):
    lst, x = a
    rec = I.st.lists[lst.lid]
    if rec.kind == "base" and isinstance(x, SElem) and x.lid == lst.lid:
        return SInt(x.idx[-1])
    if rec.kind == "conc":
        for i, it in enumerate(rec.items):
            if I.st.branch(I.ops.eq(it, x)):
                return SInt(z3.IntVal(i))
        I.raise_builtin("ValueError", "x not in list")
    if rec.kind == "base":
        I.raise_builtin("ValueError", "x not in list")
    raise Unsupported("list.index on a derived list")


def l_pop(I, a, k):
    lst = a[0]
    rec = I.st.lists[lst.lid]
    rec.write_log.append(("$pop", None))
    if rec.kind != "conc":
        raise Unsupported("pop on a symbolic list")
    if not rec.items:
        I.raise_builtin("IndexError", "pop from empty list")
    i = I.concrete_int(a[1]) if len(a) > 1 else -1
    return rec.items.pop(i)


def l_remove(I, a, k):
    lst, x = a
    rec = I.st.lists[lst.lid]
    rec.write_log.append(("$remove", x))
    if rec.kind != "conc":
        raise Unsupported("remove on a symbolic list")
    for i, it in enumerate(rec.items):
        if I.st.branch(I.ops.eq(it, x)):
            del rec.items[i]
            return SNone
    I.raise_builtin("ValueError" if isinstance(lst, SList) else "KeyError", "x not in list")


def l_insert(I, a, k):
    lst, pos, x = a
    rec = I.st.lists[lst.lid]
    rec.write_log.append(("$insert", x))
    if rec.kind != "conc":
        raise Unsupported("insert on a symbolic list")
    rec.items.insert(I.concrete_int(pos), x)
    return SNone


def l_clear(I, a, k):
    rec = I.st.lists[a[0].lid]
    rec.write_log.append(("$clear", None))
    rec.kind, rec.items, rec.segs = "conc", [], []
    return SNone


def l_sort(I, a, k):
    rec = I.st.lists[a[0].lid]
    rec.meta["unordered"] = True
    return SNone


def l_count(I, a, k):
    lst, x = a
    tot = z3.IntVal(0)
    for s in I.ops.segments(lst):
        if isinstance(s, tuple):
            for it in s[1]:
                tot = tot + z3.If(I.ops.eq(it, x), 1, 0)
        else:
            tot = tot + I.ops.count_seg(s, z3.And(s.cond, I.ops.eq(s.mapv, x)))
    return SInt(tot)


# ---- set
def set_add(I, a, k):
    s, x = a
    I.st.lists[s.lid].write_log.append(("$append", x))
    I.set_add(s, x)
    return SNone


def set_update(I, a, k):
    s = a[0]
    for other in a[1:]:
        I.st.lists[s.lid].write_log.append(("$extend", other))
        I.list_extend(s, other)
    return SNone


def set_discard(I, a, k):
    s, x = a
    rec = I.st.lists[s.lid]
    rec.write_log.append(("$remove", x))
    if rec.kind != "conc":
        raise Unsupported("discard on a symbolic set")
    for i, it in enumerate(list(rec.items)):
        if I.st.branch(I.ops.eq(it, x)):
            rec.items.remove(it)
    return SNone


def set_remove(I, a, k):
    s, x = a
    if I.st.branch(z3.Not(I.ops.contains(s, x))):
        I.raise_builtin("KeyError", "x")
    return set_discard(I, a, k)


def set_issuperset(I, a, k):
    s, other = a
    return SBool(_subset(I, other, s))


def set_issubset(I, a, k):
    s, other = a
    return SBool(_subset(I, s, other))


def _subset(I, small, big):
    parts = []
    for s in I.iter_segments(small):
        if isinstance(s, tuple):
            for x in s[1]:
                parts.append(I.contains(big, x))
        else:
            inn = I.contains(big, s.mapv)
            parts.append(I.ops.count_seg(s, z3.And(s.cond, z3.Not(inn))) == 0)
    return z3.And(*parts) if parts else TRUE


def set_union(I, a, k):
    out = I.ops.new_derived([s for x in a for s in I.iter_segments(x)], as_set=True)
    I.st.lists[out.lid].meta["maybe_dups"] = True
    return out


def set_intersection(I, a, k):
    return set_binop(I, ast.BitAnd(), a[0], a[1])


def set_difference(I, a, k):
    return set_binop(I, ast.Sub(), a[0], a[1])


def set_binop(I, op, a, b):
    if isinstance(op, ast.BitOr):
        return set_union(I, [a, b], {})
    segs = []
    for s in I.ops.segments(a):
        if isinstance(s, tuple):
            keep = []
            for x in s[1]:
                inb = I.contains(b, x)
                want = inb if isinstance(op, ast.BitAnd) else z3.Not(inb)
                if I.st.branch(want):
                    keep.append(x)
            segs.append(("conc", keep))
        else:
            inb = I.contains(b, s.mapv)
            want = inb if isinstance(op, ast.BitAnd) else z3.Not(inb)
            segs.append(Seg(s.lid, s.pidx, s.hi, s.g, z3.And(s.cond, want), s.mapv))
    if not isinstance(op, (ast.BitAnd, ast.Sub)):
        raise Unsupported("set operator")
    return I.ops.new_derived(segs, as_set=True)


# ---- tuple
def t_index(I, a, k):
    for i, it in enumerate(a[0].items):
        if I.st.branch(I.ops.eq(it, a[1])):
            return SInt(z3.IntVal(i))
    I.raise_builtin("ValueError", "not in tuple")


def t_count(I, a, k):
    return SInt(_zsum([z3.If(I.ops.eq(it, a[1]), 1, 0) for it in a[0].items]) if a[0].items else z3.IntVal(0))


# ---- dict
def d_get(I, a, k):
    d, key = a[0], a[1]
    default = a[2] if len(a) > 2 else k.get("default", SNone)
    has, val = I.ops.dict_get(d, key)
    hs = z3.simplify(has)
    if z3.is_true(hs):
        return val
    if z3.is_false(hs):
        return default
    if isinstance(default, (SList, SSet, SDict, SObj)) and not I.pure:
        return val if I.st.branch(has) else default
    return I.ops.ite(has, val, default)


def d_pop(I, a, k):
    d, key = a[0], a[1]
    has, val = I.ops.dict_get(d, key)
    if len(a) > 2:
        res = I.ops.ite(has, val, a[2]) if not z3.is_true(z3.simplify(has)) else val
        if z3.is_false(z3.simplify(has)):
            res = a[2]
    else:
        if I.st.branch(z3.Not(has)):
            I.raise_builtin("KeyError", "key")
        res = val
    I.st.dicts[d.did].meta.setdefault("mut", []).append("pop")
    I.ops.dict_del(d, key)
    return res


def d_setdefault(I, a, k):
    d, key = a[0], a[1]
    default = a[2] if len(a) > 2 else SNone
    has, val = I.ops.dict_get(d, key)
    if I.st.branch(has):
        return val
    I.st.dicts[d.did].meta.setdefault("mut", []).append("set")
    I.ops.dict_set(d, key, default)
    return default


def d_update(I, a, k):
    d = a[0]
    I.st.dicts[d.did].meta.setdefault("mut", []).append("update")
    for src in a[1:]:
        I.dict_update(d, src)
    for kk, vv in k.items():
        I.ops.dict_set(d, I.ops.lit(kk), vv)
    return SNone


def d_copy(I, a, k):
    return I.ops.copy_dict(a[0])


def _items(mode):
    def f(I, a, k):
        return _mk("$dict_items", I, d=a[0], mode=mode)
    return f


d_items = _items("items")
d_keys = _items("keys")
d_values = _items("values")


def d_clear(I, a, k):
    rec = I.st.dicts[a[0].did]
    rec.meta.setdefault("mut", []).append("clear")
    rec.kind, rec.items, rec.vals, rec.has = "conc", [], None, None
    rec.meta.pop("nonempty", None)
    I.dict_writeback(a[0]) if rec.backing else None
    return SNone


# ---- str
def s_join(I, a, k):
    sep, it = a
    try:
        segs = I.iter_segments(it)
    except Unsupported:
        return I.ops.opaque_str("join")
    if sep.lit is not None and all(isinstance(s, tuple) for s in segs):
        items = [x for s in segs for x in s[1]]
        if all(isinstance(x, SStr) and x.lit is not None for x in items):
            return I.ops.lit(sep.lit.join(x.lit for x in items))
    return I.ops.opaque_str("join")


def s_format(I, a, k):
    return I.ops.opaque_str("format")


STRPREDS: dict = {}  # (predicate, literal arguments) used anywhere in this process: universally valid ground facts follow


def _str_pred(fname):
    def f(I, a, k):
        s = a[0]
        if s.lit is not None and all(isinstance(x, SStr) and x.lit is not None for x in a[1:]):
            return SBool(z3.BoolVal(getattr(s.lit, fname)(*[x.lit for x in a[1:]])))
        fn = z3.Function("str_" + fname, *([z3.IntSort()] * len(a)), z3.BoolSort())
        if all(isinstance(x, SStr) and x.lit is not None for x in a[1:]):
            # the predicate is an uninterpreted function of the string code; its value on every interned literal is the
            # real one -- ground facts of the string theory, added when an obligation is discharged (verify.string_facts)
            STRPREDS[(fname, tuple(x.lit for x in a[1:]))] = True
        return SBool(fn(*[x.t for x in a]))
    return f


s_startswith = _str_pred("startswith")
s_endswith = _str_pred("endswith")
s_isidentifier = _str_pred("isidentifier")
s_isdigit = _str_pred("isdigit")


def _str_fun(fname):
    def f(I, a, k):
        s = a[0]
        if s.lit is not None and all(isinstance(x, SStr) and x.lit is not None for x in a[1:]):
            r = getattr(s.lit, fname)(*[x.lit for x in a[1:]])
            if isinstance(r, str):
                return I.ops.lit(r)
        fn = z3.Function("str_" + fname, *([z3.IntSort()] * len(a)), z3.IntSort())
        return SStr(fn(*[x.t if isinstance(x, SStr) else I.ops.as_int(x) for x in a]))
    return f


s_lower = _str_fun("lower")
s_upper = _str_fun("upper")
s_strip = _str_fun("strip")
s_lstrip = _str_fun("lstrip")
s_rstrip = _str_fun("rstrip")
s_replace = _str_fun("replace")
s_title = _str_fun("title")


def s_split(I, a, k):
    raise Unsupported("str.split")


def s_encode(I, a, k):
    return a[0]


def s_decode(I, a, k):
    return a[0]


def i_total_seconds(I, a, k):
    # timedelta values are modelled as integer milliseconds
    return SFloat(z3.ToReal(I.ops.as_int(a[0])) / 1000)


def i_isoformat(I, a, k):
    # timestamps are integers; their ISO text is order-isomorphic (assumption: datetime() comparisons order ISO text).
    # A datetime object and its ISO text are always truthy, so the integer that encodes them is not 0.
    I.st.assume(I.ops.as_int(a[0]) != 0)
    return a[0]


def i_bit_length(I, a, k):
    raise Unsupported("int.bit_length")


# ============================================================================ Val (dynamic JSON-like values)
_other_hashable = z3.Function("vother_hashable", z3.IntSort(), z3.BoolSort())


def _hashable(t):
    """lists and dicts are unhashable, None / bool / int / float / str are hashable, other objects unknown"""
    return z3.And(z3.Not(VAL.is_VList(t)), z3.Not(VAL.is_VDict(t)), z3.Or(z3.Not(VAL.is_VOther(t)), _other_hashable(VAL.vo(t))))


def _tags(t):
    return dict(none=VAL.is_VNone(t), bool=VAL.is_VBool(t), int=VAL.is_VInt(t), str=VAL.is_VStr(t), float=VAL.is_VFloat(t),
                list=VAL.is_VList(t), dict=VAL.is_VDict(t), other=VAL.is_VOther(t))


def val_isinstance(I, v: SVal, cls):
    name = cls.name if isinstance(cls, SBuiltin) else (cls.ci.name if isinstance(cls, SClass) else cls.qual.split(":")[-1])
    tg = _tags(v.t)
    m = {"dict": tg["dict"], "Mapping": tg["dict"], "list": tg["list"], "str": tg["str"], "bool": tg["bool"],
         "int": z3.Or(tg["int"], tg["bool"]), "float": tg["float"], "NoneType": tg["none"], "object": TRUE}
    if name in m:
        return m[name]
    if name in ("tuple", "set", "frozenset", "bytes"):
        return FALSE  # JSON-like values only (stated assumption of the Val sort)
    f = z3.Function("val_isinstance_" + name, VAL, z3.BoolSort())
    return z3.And(tg["other"], f(v.t))


def val_len(I, v: SVal):
    tg = _tags(v.t)
    if I.st.branch(z3.Not(z3.Or(tg["list"], tg["dict"], tg["str"]))):
        I.raise_builtin("TypeError", "object has no len()")
    f = z3.Function("str_len", z3.IntSort(), z3.IntSort())
    n = z3.If(tg["list"], vlist_len(VAL.vl(v.t)), z3.If(tg["dict"], vdict_size(VAL.vd(v.t)), f(VAL.vs(v.t))))
    I.st.assume(n >= 0)
    return SInt(n)


def val_int(I, v: SVal):
    tg = _tags(v.t)
    if I.st.branch(z3.Or(tg["none"], tg["list"], tg["dict"], tg["other"])):
        I.raise_builtin("TypeError", "int() argument")
    if I.st.branch(tg["str"]):
        return b_int(I, [SStr(VAL.vs(v.t))], {})
    return SInt(z3.If(tg["int"], VAL.vi(v.t), z3.If(tg["bool"], z3.If(VAL.vb(v.t), 1, 0), z3.ToInt(VAL.vf(v.t)))))


def val_contains(I, container, x):
    if isinstance(container, SStr):
        f = z3.Function("str_contains", z3.IntSort(), z3.IntSort(), z3.BoolSort())
        if isinstance(x, SStr):
            return f(container.t, x.t)
        raise Unsupported("'in' on str with non-str")
    t = container.t
    tg = _tags(t)
    if not I.pure and I.st.branch(z3.Not(z3.Or(tg["list"], tg["dict"], tg["str"]))):
        I.raise_builtin("TypeError", "argument is not iterable")
    xv = I.ops.to_val(x)
    if not I.pure and I.st.branch(z3.And(tg["dict"], z3.Not(_hashable(xv)))):
        I.raise_builtin("TypeError", "unhashable type")
    f = z3.Function("vlist_has", z3.IntSort(), VAL, z3.BoolSort())
    fs = z3.Function("str_contains", z3.IntSort(), z3.IntSort(), z3.BoolSort())
    return z3.If(tg["list"], f(VAL.vl(t), xv),
                 z3.If(tg["dict"], z3.And(VAL.is_VStr(xv), vdict_has(VAL.vd(t), VAL.vs(xv))),
                       z3.And(VAL.is_VStr(xv), fs(VAL.vs(t), VAL.vs(xv)))))


def val_subscript(I, obj, key):
    if isinstance(obj, SStr):
        return I.ops.opaque_str("char")
    t = obj.t
    tg = _tags(t)
    kv = I.ops.to_val(key)
    if I.pure:
        return SVal(z3.If(tg["dict"], vdict_get(VAL.vd(t), VAL.vs(kv)), vlist_get(VAL.vl(t), VAL.vi(kv))))
    if I.st.branch(z3.Not(z3.Or(tg["list"], tg["dict"], tg["str"]))):
        I.raise_builtin("TypeError", "object is not subscriptable")
    if I.st.branch(tg["dict"]):
        if I.st.branch(z3.Not(_hashable(kv))):
            I.raise_builtin("TypeError", "unhashable type")
        has = z3.And(VAL.is_VStr(kv), vdict_has(VAL.vd(t), VAL.vs(kv)))
        if I.st.branch(z3.Not(has)):
            I.raise_builtin("KeyError", "key")
        return SVal(vdict_get(VAL.vd(t), VAL.vs(kv)))
    isint = z3.Or(VAL.is_VInt(kv), VAL.is_VBool(kv))
    if I.st.branch(z3.Not(isint)):
        I.raise_builtin("TypeError", "indices must be integers")
    i = z3.If(VAL.is_VInt(kv), VAL.vi(kv), z3.If(VAL.vb(kv), 1, 0))
    if I.st.branch(tg["list"]):
        n = vlist_len(VAL.vl(t))
        I.st.assume(n >= 0)
        if I.st.branch(z3.Or(i >= n, i < -n)):
            I.raise_builtin("IndexError", "list index out of range")
        return SVal(vlist_get(VAL.vl(t), z3.If(i >= 0, i, n + i)))
    f = z3.Function("str_len", z3.IntSort(), z3.IntSort())
    n = f(VAL.vs(t))
    if I.st.branch(z3.Or(i >= n, i < -n)):
        I.raise_builtin("IndexError", "string index out of range")
    return I.ops.opaque_str("char")


def val_setitem(I, obj, key, v):
    raise Unsupported("item assignment on a dynamic value")


def val_neg(I, v):
    if isinstance(v, SOpt):
        if I.st.branch(v.isnone):
            I.raise_builtin("TypeError", "bad operand type for unary -: 'NoneType'")
        return I.neg(v.inner)
    if isinstance(v, SVal):
        tg = _tags(v.t)
        if I.st.branch(z3.Not(z3.Or(tg["int"], tg["bool"], tg["float"]))):
            I.raise_builtin("TypeError", "bad operand type for unary -")
        if I.st.branch(tg["float"]):
            return SVal(VAL.VFloat(-VAL.vf(v.t)))
        return SVal(VAL.VInt(-z3.If(tg["int"], VAL.vi(v.t), z3.If(VAL.vb(v.t), 1, 0))))
    I.raise_builtin("TypeError", "bad operand type for unary -")


def _num(t):
    tg = _tags(t)
    return z3.Or(tg["int"], tg["bool"], tg["float"])


def _as_real(t):
    tg = _tags(t)
    return z3.If(tg["int"], z3.ToReal(VAL.vi(t)), z3.If(tg["bool"], z3.If(VAL.vb(t), z3.RealVal(1), z3.RealVal(0)), VAL.vf(t)))


def val_order(I, op, a, b):
    ta, tb = I.ops.to_val(a), I.ops.to_val(b)
    both_num = z3.And(_num(ta), _num(tb))
    both_str = z3.And(VAL.is_VStr(ta), VAL.is_VStr(tb))
    both_list = z3.And(VAL.is_VList(ta), VAL.is_VList(tb))
    if not I.pure and I.st.branch(z3.Not(z3.Or(both_num, both_str, both_list))):
        I.raise_builtin("TypeError", "'<' not supported between instances")
    x, y = _as_real(ta), _as_real(tb)
    num = {ast.Lt: x < y, ast.LtE: x <= y, ast.Gt: x > y, ast.GtE: x >= y}[type(op)]
    f = z3.Function("val_lt", VAL, VAL, z3.BoolSort())
    lt, eq = f(ta, tb), ta == tb
    oth = {ast.Lt: lt, ast.LtE: z3.Or(lt, eq), ast.Gt: z3.And(z3.Not(lt), z3.Not(eq)), ast.GtE: z3.Not(lt)}[type(op)]
    return z3.If(both_num, num, oth)


def val_binop(I, op, a, b):
    try:
        ta, tb = I.ops.to_val(a), I.ops.to_val(b)
    except Unsupported:
        raise Unsupported(f"binary operator on {type(a).__name__}/{type(b).__name__}")
    both_num = z3.And(_num(ta), _num(tb))
    if isinstance(op, ast.Add):
        ok = z3.Or(both_num, z3.And(VAL.is_VStr(ta), VAL.is_VStr(tb)), z3.And(VAL.is_VList(ta), VAL.is_VList(tb)))
    elif isinstance(op, (ast.Sub, ast.Mult, ast.Div, ast.FloorDiv, ast.Mod)):
        ok = both_num
    else:
        raise Unsupported("operator on dynamic values")
    if I.st.branch(z3.Not(ok)):
        I.raise_builtin("TypeError", "unsupported operand type(s)")
    f = z3.Function("val_" + type(op).__name__.lower(), VAL, VAL, VAL)
    res = f(ta, tb)
    if isinstance(op, (ast.Add, ast.Sub, ast.Mult)):
        x, y = VAL.vi(ta), VAL.vi(tb)
        exact = {ast.Add: x + y, ast.Sub: x - y, ast.Mult: x * y}[type(op)]
        res = z3.If(z3.And(VAL.is_VInt(ta), VAL.is_VInt(tb)), VAL.VInt(exact), res)  # exact on ints (mathematical integers)
    return SVal(res)


BITOPS_USED: set = set()


def int_bitop(I, op, x, y):
    """<<, >>, |, &, ^ on integers are uninterpreted functions; the facts about them on BYTE operands that proofs may use
    are supplied by bit_theory_facts() (each checked exhaustively against CPython's own operators)."""
    nm = "int_" + type(op).__name__.lower()
    BITOPS_USED.add(nm)
    f = z3.Function(nm, z3.IntSort(), z3.IntSort(), z3.IntSort())
    return SInt(f(x, y))


_BIT_FACTS_CHECKED = False


def bit_theory_facts() -> list:
    """For j in 0..7 and every byte x:   1 << j = 2^j;   x & 2^j is 2^j if bit j of x is set and 0 otherwise;
    x | 2^j is x if bit j is set and x + 2^j otherwise -- where 'bit j of x is set' is (x // 2^j) % 2 == 1."""
    global _BIT_FACTS_CHECKED
    if not _BIT_FACTS_CHECKED:
        for j in range(8):
            assert (1 << j) == 2 ** j
            for x in range(256):
                setb = (x // 2 ** j) % 2 == 1
                assert (x & (2 ** j)) == (2 ** j if setb else 0)
                assert (x | (2 ** j)) == (x if setb else x + 2 ** j)
        _BIT_FACTS_CHECKED = True
    if not BITOPS_USED:
        return []
    shl = z3.Function("int_lshift", z3.IntSort(), z3.IntSort(), z3.IntSort())
    band = z3.Function("int_bitand", z3.IntSort(), z3.IntSort(), z3.IntSort())
    bor = z3.Function("int_bitor", z3.IntSort(), z3.IntSort(), z3.IntSort())
    x = z3.Int("byte_x")
    out = []
    for j in range(8):
        m = 2 ** j
        out.append(shl(z3.IntVal(1), z3.IntVal(j)) == m)
        setb = (x / m) % 2 == 1
        out.append(z3.ForAll([x], z3.Implies(z3.And(x >= 0, x < 256), band(x, z3.IntVal(m)) == z3.If(setb, m, 0))))
        out.append(z3.ForAll([x], z3.Implies(z3.And(x >= 0, x < 256), bor(x, z3.IntVal(m)) == z3.If(setb, x, x + m))))
    return out


def do_slice(I, obj, sl, env):
    if isinstance(obj, SStr):
        return I.ops.opaque_str("slice")
    if isinstance(obj, SList):
        rec = I.st.lists[obj.lid]
        lo = I.concrete_int(I.eval(sl.lower, env)) if sl.lower else None
        hi = I.concrete_int(I.eval(sl.upper, env)) if sl.upper else None
        if rec.kind == "conc":
            return I.ops.new_conc_list(rec.items[lo:hi])
        if lo in (None, 0) and hi == 1:
            # xs[:1] of a symbolic list: the first element if there is one
            if I.st.branch(I.ops.list_len(obj) > 0):
                return I.ops.new_conc_list([I.list_index(obj, SInt(z3.IntVal(0)))])
            return I.ops.new_conc_list([])
        if lo == 1 and hi is None and rec.kind == "base":
            g = fresh_int("g")
            n = I.ops.list_len(obj)
            return I.ops.new_derived([Seg(obj.lid, tuple(obj.idx), n, g, g >= 1, I.elem_value(obj.lid, tuple(obj.idx) + (g,)))])
    if isinstance(obj, SVal) and sl.step is None:
        # xs[lo:hi] of a dynamic value with constant non-negative bounds: a new list holding the elements lo .. min(hi, len) - 1
        lo = I.concrete_int(I.eval(sl.lower, env)) if sl.lower else 0
        hi = I.concrete_int(I.eval(sl.upper, env)) if sl.upper else None
        if lo is not None and lo >= 0 and (hi is None or hi >= 0):
            t = obj.t
            if I.st.branch(z3.Not(VAL.is_VList(t))):
                if I.st.branch(VAL.is_VStr(t)):
                    return I.ops.opaque_str("slice")
                I.raise_builtin("TypeError", "object is not subscriptable")
            l = VAL.vl(t)
            n = vlist_len(l)
            I.st.assume(n >= 0)
            start = z3.If(n < lo, n, z3.IntVal(lo))
            stop = n if hi is None else z3.If(n < hi, n, z3.IntVal(hi))
            res = vlist_slice(l, z3.IntVal(lo), z3.IntVal(-1 if hi is None else hi))
            j = z3.Int(fresh_name("j"))
            ln = z3.If(stop > start, stop - start, 0)
            I.st.assume(vlist_len(res) == ln)
            I.st.assume(z3.ForAll([j], z3.Implies(z3.And(j >= 0, j < ln), vlist_get(res, j) == vlist_get(l, j + lo))))
            return SVal(VAL.VList(res))
    raise Unsupported("slice")


def val_iter_segments(I, v: SVal):
    t = v.t
    tg = _tags(t)
    if I.st.branch(z3.Not(z3.Or(tg["list"], tg["dict"], tg["str"]))):
        I.raise_builtin("TypeError", "object is not iterable")
    back = I.ops.from_val_back(t)
    if back is not None:
        return I.iter_segments(back)
    if I.st.branch(tg["list"]):
        lid = VAL.vl(t)
        g = fresh_int("g")
        n = vlist_len(lid)
        I.st.assume(n >= 0)
        return [Seg(-2, (lid,), n, g, TRUE, SVal(vlist_get(lid, g)))]
    raise Unsupported("iteration over a dynamic dict/str value")


def dict_update_from_val(I, d, src: SVal):
    t = src.t
    if I.st.branch(z3.Not(VAL.is_VDict(t))):
        I.raise_builtin("TypeError", "dict update from a non-mapping")
    back = I.ops.from_val_back(t)
    if back is not None:
        return I.dict_update(d, back)
    I.ops.dict_symbolize(d)
    rec = I.st.dicts[d.did]
    did = VAL.vd(t)
    k = z3.Int(fresh_name("k"))
    rec.vals = z3.Lambda([k], z3.If(vdict_has(did, k), vdict_get(did, k), z3.Select(rec.vals, k)))
    rec.has = z3.Lambda([k], z3.Or(vdict_has(did, k), z3.Select(rec.has, k)))
    old_ne = rec.meta.get("nonempty")
    rec.meta["nonempty"] = z3.Or(vdict_size(did) > 0, old_ne) if old_ne is not None else z3.Bool(fresh_name("ne"))
    I.dict_writeback(d)


# ---- methods on Val (dict-like / list-like dynamic values)
def v_get(I, a, k):
    v, key = a[0], a[1]
    default = a[2] if len(a) > 2 else SNone
    t = v.t
    if not I.pure and I.st.branch(z3.Not(VAL.is_VDict(t))):
        I.raise_builtin("AttributeError", "'get'")
    back = I.ops.from_val_back(t)
    if back is not None:
        return d_get(I, [back, key] + list(a[2:]), k)
    kv = I.ops.to_val(key)
    if not I.pure and I.st.branch(z3.Not(_hashable(kv))):
        I.raise_builtin("TypeError", "unhashable type")
    has = z3.And(VAL.is_VStr(kv), vdict_has(VAL.vd(t), VAL.vs(kv)))
    got = SVal(vdict_get(VAL.vd(t), VAL.vs(kv)))
    if isinstance(default, (SList, SSet, SDict, SObj)) and not I.pure:
        return got if I.st.branch(has) else default
    return I.ops.ite(has, got, default)


vlist_tail = z3.Function("vlist_tail", z3.IntSort(), z3.IntSort())
vlist_slice = z3.Function("vlist_slice", z3.IntSort(), z3.IntSort(), z3.IntSort(), z3.IntSort())


def v_pop(I, a, k):
    """list.pop(0) on a dynamic list value: returns the head; the wrapper now denotes the tail (same Python object)."""
    v = a[0]
    if len(a) != 2 or not (isinstance(a[1], SInt) and z3.is_int_value(z3.simplify(a[1].t)) and z3.simplify(a[1].t).as_long() == 0):
        raise Unsupported("pop on a dynamic value other than pop(0)")
    t = v.t
    if I.st.branch(z3.Not(VAL.is_VList(t))):
        I.raise_builtin("AttributeError", "pop")
    l = VAL.vl(t)
    n = vlist_len(l)
    I.st.assume(n >= 0)
    if I.st.branch(n <= 0):
        I.raise_builtin("IndexError", "pop from empty list")
    head = vlist_get(l, z3.IntVal(0))
    tl = vlist_tail(l)
    j = z3.Int(fresh_name("j"))
    I.st.assume(vlist_len(tl) == n - 1)
    I.st.assume(z3.ForAll([j], z3.Implies(z3.And(j >= 0, j < n - 1), vlist_get(tl, j) == vlist_get(l, j + 1))))
    v.t = VAL.VList(tl)
    return SVal(head)


def v_items(I, a, k):
    raise Unsupported("items() of a dynamic value")


vlist_snoc = z3.Function("vlist_snoc", z3.IntSort(), VAL, z3.IntSort())


def v_append(I, a, k):
    """list.append on a dynamic list value: the wrapper now denotes old ++ [x] (same Python object)."""
    v, x = a
    t = v.t
    if I.st.branch(z3.Not(VAL.is_VList(t))):
        I.raise_builtin("AttributeError", "append")
    l = VAL.vl(t)
    n = vlist_len(l)
    I.st.assume(n >= 0)
    xv = I.ops.to_val(x)
    nl = vlist_snoc(l, xv)
    j = z3.Int(fresh_name("j"))
    I.st.assume(vlist_len(nl) == n + 1)
    I.st.assume(vlist_get(nl, n) == xv)
    I.st.assume(z3.ForAll([j], z3.Implies(z3.And(j >= 0, j < n), vlist_get(nl, j) == vlist_get(l, j))))
    v.t = VAL.VList(nl)
    return SNone


def v_startswith(I, a, k):
    v = a[0]
    if I.st.branch(z3.Not(VAL.is_VStr(v.t))):
        I.raise_builtin("AttributeError", "startswith")
    return s_startswith(I, [SStr(VAL.vs(v.t))] + list(a[1:]), k)
