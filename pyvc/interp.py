"""Symbolic interpreter over the Python AST of the real source."""
from __future__ import annotations

import ast
import copy

import z3

from . import builtins_model as BM
from .index import BUILTIN_EXC, ClassInfo, Index, builtin_exc_ancestors
from .loops import LoopMixin
from .objects import ObjectMixin, _GenClose
from .ops import FALSE, TRUE, Ops
from .state import State
from .typesys import Typer, fresh_value
from .values import (ENUMS, STR, VAL, DictRec, ListRec, ObjRec, PathEnd, PyRaise, SBool, SBuiltin, SCarried, SClass,
                     SDict, SElem, SEnum, SExternal, SFloat, SFunc, SInt, SList, SModel, SModule, SNone, SObj, SOpaque,
                     SOpt, SSet, SStr, SSuper, STuple, SVal, Unsupported, V, fresh_bool, fresh_int, fresh_name)


class Env:
    __slots__ = ("vars", "parent", "nonlocals", "globals_", "module", "func")

    def __init__(self, parent=None, module="", func=None):
        self.vars: dict[str, V] = {}
        self.parent = parent
        self.nonlocals: set[str] = set()
        self.globals_: set[str] = set()
        self.module = module
        self.func = func

    def lookup(self, name: str):
        e = self
        while e is not None:
            if name in e.vars:
                return e.vars[name]
            e = e.parent
        return None

    def assign(self, name: str, v: V) -> None:
        if name in self.nonlocals:
            e = self.parent
            while e is not None:
                if name in e.vars:
                    e.vars[name] = v
                    return
                e = e.parent
        self.vars[name] = v

    def find_env(self, name: str):
        e = self
        while e is not None:
            if name in e.vars:
                return e
            e = e.parent
        return None


class _Return(Exception):
    def __init__(self, value):
        self.value = value


class _Break(Exception):
    pass


class _Continue(Exception):
    pass


MAX_DEPTH = 60


class Interp(ObjectMixin, LoopMixin):
    def __init__(self, index: Index, st: State, registry=None):
        self.index = index
        self.st = st
        self.typer = Typer(index)
        self.ops = Ops(self)
        self.registry = registry  # assumed contracts / models
        self.depth = 0
        self.pure = 0  # >0: specification mode (no forking on and/or/ifexp)
        self.yield_hooks: list = []
        self.call_stack: list[str] = []
        self.module_cache: dict[tuple[str, str], V] = {}
        self.trace_calls = False
        if registry is not None:
            registry.configure(self)

    # ================================================================== names
    def lookup_name(self, name: str, env: Env) -> V:
        v = env.lookup(name)
        if v is not None:
            if isinstance(v, SCarried):
                raise Unsupported(f"loop-carried variable '{name}' read inside summarised loop")
            return v
        return self.module_global(env.module, name)

    def module_global(self, module: str, name: str) -> V:
        key = (module, name)
        if key in self.module_cache:
            return self.module_cache[key]
        scache = self.st.ghost.setdefault("modcache", {})
        if key in scache:
            return scache[key]
        kind, payload = self.index.resolve(module, name)
        if kind == "func":
            m, node = payload
            v: V = SFunc(node, m, None, None, None, node.name)
        elif kind == "class":
            v = SClass(payload)
        elif kind == "module":
            v = SModule(payload)
        elif kind == "const":
            m, expr = payload
            override = self.registry.const_override(m, name) if self.registry else None
            if override is not None:
                v = override(self)
            else:
                v = self.eval(expr, Env(None, m))
        else:
            if name in BM.BUILTINS:
                v = SBuiltin(name)
            elif name in BUILTIN_EXC:
                v = SBuiltin(name)
            elif name in ("True", "False", "None"):
                v = {"True": SBool(TRUE), "False": SBool(FALSE), "None": SNone}[name]
            else:
                mi = self.index.modules.get(module)
                if mi is not None and name in mi.imports:
                    v = SExternal(mi.imports[name])
                else:
                    raise Unsupported(f"unresolved name '{name}' in {module}")
        if isinstance(v, (SFunc, SClass, SModule, SExternal, SBuiltin, SEnum, SBool, SInt, SStr)):
            self.module_cache[key] = v  # state-independent values
        elif name.isupper():
            scache[key] = v  # CONSTANTS living in the state (dicts, sets, objects): cached per state lineage
        return v

    # ================================================================== expressions
    def eval(self, node, env: Env) -> V:
        m = getattr(self, "e_" + type(node).__name__, None)
        if m is None:
            raise Unsupported(f"expression {type(node).__name__}")
        return m(node, env)

    def e_Constant(self, node, env):
        v = node.value
        if v is None:
            return SNone
        if isinstance(v, bool):
            return SBool(z3.BoolVal(v))
        if isinstance(v, int):
            return SInt(z3.IntVal(v))
        if isinstance(v, float):
            return SFloat(z3.RealVal(repr(v)))
        if isinstance(v, str):
            return self.ops.lit(v)
        if isinstance(v, bytes):
            return self.ops.lit(v.decode("latin1"))
        if v is Ellipsis:
            return SNone
        raise Unsupported(f"constant {v!r}")

    def e_Name(self, node, env):
        return self.lookup_name(node.id, env)

    def e_Attribute(self, node, env):
        obj = self.eval(node.value, env)
        return self.getattr(obj, node.attr)

    def e_JoinedStr(self, node, env):
        parts = []
        args = []
        lits = []
        for v in node.values:
            if isinstance(v, ast.Constant):
                parts.append(str(v.value).replace("{", "{{").replace("}", "}}"))
                lits.append(str(v.value))
            else:
                parts.append("{}")
                try:
                    a = self.eval(v.value, env)
                except Unsupported:
                    return self.ops.opaque_str("fstr")
                args.append(a)
                lits.append(a.lit if isinstance(a, SStr) and a.lit is not None and v.format_spec is None else None)
        if all(x is not None for x in lits):
            return self.ops.lit("".join(lits))
        return self.ops.fmt("".join(parts), args)

    def e_FormattedValue(self, node, env):
        return self.eval(node.value, env)

    def e_Tuple(self, node, env):
        return STuple(self._elts(node.elts, env))

    def e_List(self, node, env):
        return self.ops.new_conc_list(self._elts(node.elts, env))

    def e_Set(self, node, env):
        return self.ops.new_conc_list(self._elts(node.elts, env), as_set=True)

    def _elts(self, elts, env):
        out = []
        for e in elts:
            if isinstance(e, ast.Starred):
                v = self.eval(e.value, env)
                out.extend(self.concrete_items(v))
            else:
                out.append(self.eval(e, env))
        return out

    def e_Dict(self, node, env):
        items = []
        d = self.ops.new_dict()
        for k, v in zip(node.keys, node.values):
            if k is None:
                src = self.eval(v, env)
                self.dict_update(d, src)
            else:
                self.ops.dict_set(d, self.eval(k, env), self.eval(v, env))
        return d

    def e_Lambda(self, node, env):
        return SFunc(node, env.module, env, None, None, "<lambda>")

    def e_NamedExpr(self, node, env):
        v = self.eval(node.value, env)
        env.assign(node.target.id, v)
        return v

    def e_Starred(self, node, env):
        raise Unsupported("starred expression")

    def e_Await(self, node, env):
        raise Unsupported("await")

    def e_Yield(self, node, env):
        if not self.yield_hooks:
            raise Unsupported("yield outside a modelled context manager")
        hook = self.yield_hooks[-1]
        val = self.eval(node.value, env) if node.value is not None else SNone
        return hook(val)

    # -- boolean structure
    def cond(self, node, env):
        """Evaluate an expression for its truth value -> z3 Bool (may fork inside)."""
        return self.ops.truthy(self.eval(node, env))

    def e_BoolOp(self, node, env):
        is_and = isinstance(node.op, ast.And)
        if self.pure:
            vals = [self.eval(v, env) for v in node.values]
            res = vals[-1]
            for v in reversed(vals[:-1]):
                t = self.ops.truthy(v)
                res = self.ops.ite(t, res, v) if is_and else self.ops.ite(t, v, res)
            return res
        last = None
        for i, vnode in enumerate(node.values):
            last = self.eval(vnode, env)
            if i == len(node.values) - 1:
                return last
            t = self.ops.truthy(last)
            taken = self.st.branch(t)
            if is_and and not taken:
                return last if not isinstance(last, (SBool,)) else SBool(FALSE)
            if (not is_and) and taken:
                if isinstance(last, SOpt):
                    return last.inner  # truthy, hence not None
                return last if not isinstance(last, (SBool,)) else SBool(TRUE)
        return last

    def e_UnaryOp(self, node, env):
        v = self.eval(node.operand, env)
        if isinstance(node.op, ast.Not):
            return SBool(z3.Not(self.ops.truthy(v)))
        if isinstance(node.op, ast.USub):
            return self.neg(v)
        if isinstance(node.op, ast.UAdd):
            return v
        raise Unsupported("unary op")

    def neg(self, v):
        if isinstance(v, SInt):
            return SInt(-v.t)
        if isinstance(v, SFloat):
            return SFloat(-v.t)
        if isinstance(v, SBool):
            return SInt(-self.ops.as_int(v))
        return BM.val_neg(self, v)

    def e_IfExp(self, node, env):
        if self.pure:
            c = self.cond(node.test, env)
            return self.ops.ite(c, self.eval(node.body, env), self.eval(node.orelse, env))
        if self.st.branch(self.cond(node.test, env)):
            return self.eval(node.body, env)
        return self.eval(node.orelse, env)

    def e_Compare(self, node, env):
        left = self.eval(node.left, env)
        res = None
        for op, rnode in zip(node.ops, node.comparators):
            right = self.eval(rnode, env)
            c = self.compare(op, left, right)
            res = c if res is None else z3.And(res, c)
            left = right
        return SBool(res)

    def compare(self, op, a: V, b: V):
        if isinstance(op, ast.Eq):
            return self.ops.eq(a, b)
        if isinstance(op, ast.NotEq):
            return z3.Not(self.ops.eq(a, b))
        if isinstance(op, ast.Is):
            return self.is_(a, b)
        if isinstance(op, ast.IsNot):
            return z3.Not(self.is_(a, b))
        if isinstance(op, ast.In):
            return self.contains(b, a)
        if isinstance(op, ast.NotIn):
            return z3.Not(self.contains(b, a))
        return self.order(op, a, b)

    def is_(self, a, b):
        if a is SNone or b is SNone:
            return self.ops.eq(a, b)
        if isinstance(a, SBool) and isinstance(b, SBool):
            return a.t == b.t
        if isinstance(a, SVal) and isinstance(b, SBool):
            return a.t == VAL.VBool(b.t)
        if isinstance(a, (SObj, SElem, SEnum, SClass)) or isinstance(b, (SObj, SElem, SEnum, SClass)):
            if isinstance(a, SObj) and isinstance(b, SObj):
                return z3.BoolVal(a.oid == b.oid)
            return self.ops.eq(a, b)
        return self.ops.eq(a, b)

    def order(self, op, a, b):
        a = self.ops.strip_opt(a) if isinstance(a, SOpt) else a
        b = self.ops.strip_opt(b) if isinstance(b, SOpt) else b
        if isinstance(a, (SInt, SBool)) and isinstance(b, (SInt, SBool)):
            x, y = self.ops.as_int(a), self.ops.as_int(b)
        elif isinstance(a, (SInt, SBool, SFloat)) and isinstance(b, (SInt, SBool, SFloat)):
            x, y = self.ops.as_real(a), self.ops.as_real(b)
        elif isinstance(a, SStr) and isinstance(b, SStr):
            f = z3.Function("str_lt", z3.IntSort(), z3.IntSort(), z3.BoolSort())
            lt = f(a.t, b.t)
            eq = a.t == b.t
            return {ast.Lt: lt, ast.LtE: z3.Or(lt, eq), ast.Gt: z3.And(z3.Not(lt), z3.Not(eq)), ast.GtE: z3.Not(lt)}[type(op)]
        else:
            return BM.val_order(self, op, a, b)
        return {ast.Lt: x < y, ast.LtE: x <= y, ast.Gt: x > y, ast.GtE: x >= y}[type(op)]

    def contains(self, container: V, x: V):
        if isinstance(container, (SList, SSet)):
            return self.ops.contains(container, x)
        if isinstance(container, STuple):
            return z3.Or(*[self.ops.eq(i, x) for i in container.items]) if container.items else FALSE
        if isinstance(container, SDict):
            has, _ = self.ops.dict_get(container, x)
            return has
        if isinstance(container, SOpt):
            if self.pure:
                return z3.And(z3.Not(self.ops.is_none(container)), self.contains(container.inner, x))
            if self.st.branch(self.ops.is_none(container)):
                self.raise_builtin("TypeError", "argument of type 'NoneType' is not iterable")
            return self.contains(container.inner, x)
        if isinstance(container, (SVal, SStr)):
            return BM.val_contains(self, container, x)
        if isinstance(container, SObj) and self.st.objs[container.oid].cls == "$valset":
            return BM.val_contains(self, self.st.objs[container.oid].fields["v"], x)
        raise Unsupported(f"'in' on {type(container).__name__}")

    def e_BinOp(self, node, env):
        a = self.eval(node.left, env)
        b = self.eval(node.right, env)
        return self.binop(node.op, a, b)

    def binop(self, op, a, b):
        if isinstance(a, SCarried) or isinstance(b, SCarried):
            raise Unsupported("loop-carried variable read")
        for x in (a, b):
            if isinstance(x, SOpt) and not isinstance(x.inner, SVal):
                if not self.pure and self.st.branch(self.ops.is_none(x)):
                    self.raise_builtin("TypeError", "unsupported operand type(s): 'NoneType'")
        a = a.inner if isinstance(a, SOpt) and not isinstance(a.inner, SVal) else a
        b = b.inner if isinstance(b, SOpt) and not isinstance(b.inner, SVal) else b
        if isinstance(a, (SInt, SBool)) and isinstance(b, (SInt, SBool)):
            x, y = self.ops.as_int(a), self.ops.as_int(b)
            if isinstance(op, ast.Add):
                return SInt(x + y)
            if isinstance(op, ast.Sub):
                return SInt(x - y)
            if isinstance(op, ast.Mult):
                return SInt(x * y)
            if isinstance(op, (ast.FloorDiv, ast.Mod)):
                if self.st.branch(y == 0):
                    self.raise_builtin("ZeroDivisionError", "division by zero")
                # python floor semantics: z3 div/mod are euclidean for positive divisor
                # python floor semantics; z3 div/mod are euclidean, equal to floor for a positive divisor
                if isinstance(op, ast.FloorDiv):
                    return SInt(z3.If(y > 0, x / y, (-x) / (-y)))
                return SInt(z3.If(y > 0, x % y, -((-x) % (-y))))
            if isinstance(op, ast.Div):
                if self.st.branch(y == 0):
                    self.raise_builtin("ZeroDivisionError", "division by zero")
                return SFloat(z3.ToReal(x) / z3.ToReal(y))
            if isinstance(op, ast.Pow):
                if z3.is_int_value(z3.simplify(y)) and z3.is_int_value(z3.simplify(x)):
                    return SInt(z3.IntVal(z3.simplify(x).as_long() ** z3.simplify(y).as_long()))
                f = z3.Function("int_pow", z3.IntSort(), z3.IntSort(), z3.IntSort())
                return SInt(f(x, y))
            if isinstance(op, ast.BitOr) and isinstance(a, SBool) and isinstance(b, SBool):
                return SBool(z3.Or(a.t, b.t))
            if isinstance(op, ast.BitAnd) and isinstance(a, SBool) and isinstance(b, SBool):
                return SBool(z3.And(a.t, b.t))
            if isinstance(op, (ast.LShift, ast.RShift, ast.BitOr, ast.BitAnd, ast.BitXor)):
                return BM.int_bitop(self, op, x, y)
        if isinstance(a, (SInt, SBool, SFloat)) and isinstance(b, (SInt, SBool, SFloat)):
            x, y = self.ops.as_real(a), self.ops.as_real(b)
            if isinstance(op, ast.Add):
                return SFloat(x + y)
            if isinstance(op, ast.Sub):
                return SFloat(x - y)
            if isinstance(op, ast.Mult):
                return SFloat(x * y)
            if isinstance(op, ast.Div):
                if self.st.branch(y == 0):
                    self.raise_builtin("ZeroDivisionError", "division by zero")
                return SFloat(x / y)
            if isinstance(op, ast.Pow):
                f = z3.Function("real_pow", z3.RealSort(), z3.RealSort(), z3.RealSort())
                return SFloat(f(x, y))
        if isinstance(a, SStr) and isinstance(b, SStr) and isinstance(op, ast.Add):
            if a.lit is not None and b.lit is not None:
                return self.ops.lit(a.lit + b.lit)
            return self.ops.fmt("{}{}", [a, b])
        if isinstance(a, SStr) and isinstance(op, ast.Mod):
            return self.ops.opaque_str("pct")
        if isinstance(a, (SList,)) and isinstance(b, (SList,)) and isinstance(op, ast.Add):
            return self.ops.new_derived(self.ops.segments(a) + self.ops.segments(b))
        if isinstance(a, STuple) and isinstance(b, STuple) and isinstance(op, ast.Add):
            return STuple(a.items + b.items)
        if isinstance(a, SSet) and isinstance(b, SSet):
            return BM.set_binop(self, op, a, b)
        if isinstance(a, SDict) and isinstance(b, SDict) and isinstance(op, ast.BitOr):
            d = self.ops.copy_dict(a)
            self.dict_update(d, b)
            return d
        return BM.val_binop(self, op, a, b)

    def e_Subscript(self, node, env):
        obj = self.eval(node.value, env)
        if isinstance(node.slice, ast.Slice):
            return BM.do_slice(self, obj, node.slice, env)
        key = self.eval(node.slice, env)
        return self.subscript(obj, key)

    def subscript(self, obj: V, key: V) -> V:
        if isinstance(obj, SDict):
            has, val = self.ops.dict_get(obj, key)
            if not self.pure and self.st.branch(z3.Not(has)):
                self.raise_builtin("KeyError", "key")
            return val
        if isinstance(obj, STuple):
            k = self.concrete_int(key)
            return obj.items[k]
        if isinstance(obj, SList):
            return self.list_index(obj, key)
        if isinstance(obj, SOpt):
            if self.st.branch(obj.isnone):
                self.raise_builtin("TypeError", "'NoneType' object is not subscriptable")
            return self.subscript(obj.inner, key)
        if isinstance(obj, SClass):
            # Enum['NAME'] or generic alias
            if self.index.is_enum(obj.ci):
                return self.enum_by_name(obj.ci, key)
            return obj
        if isinstance(obj, (SVal, SStr)):
            return BM.val_subscript(self, obj, key)
        if isinstance(obj, (SExternal, SBuiltin)):
            return obj
        if isinstance(obj, SObj) and self.st.objs[obj.oid].cls == "$row":
            from . import sql

            if isinstance(key, SStr) and key.lit is not None:
                return sql.row_get(self, obj, key.lit)
            return sql.row_get(self, obj, self.concrete_int(key))
        raise Unsupported(f"subscript on {type(obj).__name__}")

    def concrete_int(self, v: V) -> int:
        if isinstance(v, SInt):
            s = z3.simplify(v.t)
            if z3.is_int_value(s):
                return s.as_long()
        raise Unsupported("non-constant integer where a constant is required")

    # -- comprehensions
    def e_ListComp(self, node, env):
        return self.comprehension(node, env, "list")

    def e_SetComp(self, node, env):
        return self.comprehension(node, env, "set")

    def e_GeneratorExp(self, node, env):
        return self.comprehension(node, env, "list")

    def e_DictComp(self, node, env):
        return self.dict_comprehension(node, env)

    # -- calls
    def e_Call(self, node, env):
        # special forms that need unevaluated arguments
        if isinstance(node.func, ast.Name) and node.func.id == "super" and not node.args:
            selfv = env.lookup("self") or env.lookup("cls")
            return SSuper(selfv, env.func.cls if env.func else None)
        fv = self.eval(node.func, env)
        args = []
        for a in node.args:
            if isinstance(a, ast.Starred):
                args.extend(self.concrete_items(self.eval(a.value, env)))
            else:
                args.append(self.eval(a, env))
        kwargs = {}
        for kw in node.keywords:
            if kw.arg is None:
                d = self.eval(kw.value, env)
                if isinstance(d, SDict) and self.st.dicts[d.did].kind == "conc":
                    for kk, vv in self.st.dicts[d.did].items:
                        if isinstance(kk, SStr) and kk.lit is not None:
                            kwargs[kk.lit] = vv
                        else:
                            raise Unsupported("**kwargs with non-literal key")
                else:
                    raise Unsupported("**kwargs of a symbolic dict")
            else:
                kwargs[kw.arg] = self.eval(kw.value, env)
        return self.call(fv, args, kwargs, node)

    def concrete_items(self, v: V):
        if isinstance(v, STuple):
            return list(v.items)
        if isinstance(v, (SList, SSet)):
            rec = self.st.lists[v.lid]
            if rec.kind == "conc":
                return list(rec.items)
        raise Unsupported("unpacking of a symbolic-length sequence")

    # ================================================================== statements
    def exec_block(self, stmts, env: Env) -> None:
        for s in stmts:
            self.exec_stmt(s, env)

    def exec_stmt(self, node, env: Env) -> None:
        m = getattr(self, "s_" + type(node).__name__, None)
        if m is None:
            raise Unsupported(f"statement {type(node).__name__}")
        m(node, env)

    def s_Expr(self, node, env):
        if isinstance(node.value, ast.Constant):
            return
        if self.is_logging_call(node.value):
            return
        self.eval(node.value, env)

    def is_logging_call(self, e) -> bool:
        if isinstance(e, ast.Call) and isinstance(e.func, ast.Attribute) and isinstance(e.func.value, ast.Name):
            if e.func.value.id in ("logger", "logging", "log", "_logger") and e.func.attr in (
                    "debug", "info", "warning", "error", "exception", "critical", "log", "warn"):
                return True
        return False

    def s_Pass(self, node, env):
        return

    def s_Import(self, node, env):
        for al in node.names:
            name = al.asname or al.name.split(".")[0]
            tgt = al.name if al.asname else al.name.split(".")[0]
            env.assign(name, SModule(tgt) if tgt in self.index.modules else SExternal(tgt))

    def s_ImportFrom(self, node, env):
        mi = self.index.modules.get(env.module)
        base = self.index._resolve_from(mi, node) if mi else (node.module or "")
        for al in node.names:
            name = al.asname or al.name
            if base in self.index.modules:
                kind, payload = self.index.resolve(base, al.name)
                if kind != "external":
                    env.assign(name, self.module_global(base, al.name))
                    continue
                sub = f"{base}.{al.name}"
                if sub in self.index.modules:
                    env.assign(name, SModule(sub))
                    continue
            env.assign(name, SExternal(f"{base}:{al.name}"))

    def s_Global(self, node, env):
        env.globals_.update(node.names)

    def s_Nonlocal(self, node, env):
        env.nonlocals.update(node.names)

    def s_FunctionDef(self, node, env):
        f = SFunc(node, env.module, env, None, env.func.cls if env.func else None, node.name)
        decos = node.decorator_list
        v: V = f
        for d in reversed(decos):
            if ast.unparse(d).split(".")[-1] in ("contextmanager", "staticmethod", "wraps"):
                continue
            dv = self.eval(d, env)
            v = self.call(dv, [v], {}, d)
        env.assign(node.name, v)

    def s_ClassDef(self, node, env):
        raise Unsupported("nested class definition")

    def s_Return(self, node, env):
        raise _Return(self.eval(node.value, env) if node.value is not None else SNone)

    def s_Break(self, node, env):
        raise _Break()

    def s_Continue(self, node, env):
        raise _Continue()

    def s_Assert(self, node, env):
        if self.st.branch(z3.Not(self.cond(node.test, env))):
            self.raise_builtin("AssertionError", "assert")

    def s_Delete(self, node, env):
        for t in node.targets:
            if isinstance(t, ast.Subscript):
                obj = self.eval(t.value, env)
                key = self.eval(t.slice, env)
                if isinstance(obj, SDict):
                    has, _ = self.ops.dict_get(obj, key)
                    if self.st.branch(z3.Not(has)):
                        self.raise_builtin("KeyError", "key")
                    self.ops.dict_del(obj, key)
                    continue
            if isinstance(t, ast.Name):
                env.vars.pop(t.id, None)
                continue
            raise Unsupported("del target")

    def s_Assign(self, node, env):
        v = self.eval(node.value, env)
        for t in node.targets:
            self.assign_target(t, v, env)

    def s_AnnAssign(self, node, env):
        if node.value is None:
            return
        self.assign_target(node.target, self.eval(node.value, env), env)

    def s_AugAssign(self, node, env):
        t = node.target
        if isinstance(t, ast.Name):
            cur = env.lookup(t.id)
            if isinstance(cur, SCarried):
                delta = self.eval(node.value, env)
                return self.carried_augassign(env, t.id, cur, node.op, delta)
            cur = self.lookup_name(t.id, env)
        else:
            cur = self.eval(t, env)
        rhs = self.eval(node.value, env)
        if isinstance(cur, SList) and isinstance(node.op, ast.Add):
            self.list_extend(cur, rhs)
            return
        if isinstance(cur, SSet) and isinstance(node.op, ast.BitOr):
            self.list_extend(cur, rhs)
            return
        self.assign_target(t, self.binop(node.op, cur, rhs), env)

    def assign_target(self, t, v: V, env: Env) -> None:
        if isinstance(t, ast.Name):
            if t.id in env.globals_:
                raise Unsupported("assignment to a module global")
            env.assign(t.id, v)
        elif isinstance(t, (ast.Tuple, ast.List)):
            items = self.concrete_items(v) if not isinstance(v, STuple) else v.items
            if len(items) != len(t.elts):
                self.raise_builtin("ValueError", "unpack")
            for tt, vv in zip(t.elts, items):
                self.assign_target(tt, vv, env)
        elif isinstance(t, ast.Attribute):
            obj = self.eval(t.value, env)
            self.setattr(obj, t.attr, v)
        elif isinstance(t, ast.Subscript):
            obj = self.eval(t.value, env)
            key = self.eval(t.slice, env)
            self.setitem(obj, key, v)
        else:
            raise Unsupported(f"assignment target {type(t).__name__}")

    def setitem(self, obj, key, v):
        if isinstance(obj, SDict):
            self.ops.dict_set(obj, key, v)
            return
        if isinstance(obj, SList):
            rec = self.st.lists[obj.lid]
            if rec.kind == "conc":
                k = self.concrete_int(key)
                rec.items[k] = v
                return
            if rec.kind == "base" and rec.elem_type is not None and rec.elem_type[0] in ("int", "bool", "str", "float", "enum", "val") and not rec.opt_elems:
                # xs[k] = v on a symbolic list of scalars: a store into the element array (IndexError out of range)
                k = self.ops.as_int(key)
                n = self.ops.list_len(obj)
                if self.st.branch(z3.Or(k >= n, k < -n)):
                    self.raise_builtin("IndexError", "list assignment index out of range")
                idx = z3.simplify(z3.If(k >= 0, k, n + k))
                srt = self.typer.sort_of(rec.elem_type)
                arr = self._elem_array(obj.lid, "$v", srt)
                val = self.ops.to_val(v) if rec.elem_type[0] == "val" else (self.ops.as_int(v) if rec.elem_type[0] == "int" else v.t)
                rec.fields["$v"] = self._store(arr, tuple(obj.idx) + (idx,), val)
                rec.write_log.append(("$v", tuple(obj.idx) + (idx,)))
                return
        if isinstance(obj, SOpt):
            if self.st.branch(obj.isnone):
                self.raise_builtin("TypeError", "'NoneType' object does not support item assignment")
            return self.setitem(obj.inner, key, v)
        if isinstance(obj, SVal):
            return BM.val_setitem(self, obj, key, v)
        raise Unsupported(f"item assignment on {type(obj).__name__}")

    def s_If(self, node, env):
        if self.st.branch(self.cond(node.test, env)):
            self.exec_block(node.body, env)
        else:
            self.exec_block(node.orelse, env)

    def s_Raise(self, node, env):
        if node.exc is None:
            cur = env.lookup("$exc")
            if cur is None:
                raise Unsupported("bare raise outside except")
            raise PyRaise(cur)
        ev = self.eval(node.exc, env)
        if isinstance(ev, (SClass, SBuiltin)):
            ev = self.call(ev, [], {}, node)
        if node.cause is not None:
            cause = self.eval(node.cause, env)
            if isinstance(ev, SObj):
                self.st.objs[ev.oid].fields["__cause__"] = cause
        raise PyRaise(ev)

    def s_Try(self, node, env):
        try:
            try:
                self.exec_block(node.body, env)
            except PyRaise as pr:
                handled = False
                for h in node.handlers:
                    if self.exc_matches(pr.exc, h.type, env):
                        handled = True
                        if h.name:
                            env.assign(h.name, pr.exc)
                        saved = env.vars.get("$exc")
                        env.vars["$exc"] = pr.exc
                        try:
                            self.exec_block(h.body, env)
                        finally:
                            if saved is None:
                                env.vars.pop("$exc", None)
                            else:
                                env.vars["$exc"] = saved
                        break
                if not handled:
                    raise
            else:
                self.exec_block(node.orelse, env)
        finally:
            if node.finalbody:
                # a finally block runs on every exit; internal control exceptions (Unsupported/PathEnd) skip it
                import sys

                et = sys.exc_info()[0]
                if et is None or issubclass(et, (PyRaise, _Return, _Break, _Continue, _GenClose)):
                    self.exec_block(node.finalbody, env)

    def exc_class_names(self, exc: V) -> list[str]:
        if isinstance(exc, SObj):
            rec = self.st.objs[exc.oid]
            if rec.ci is not None:
                names = []
                for c in self.index.mro(rec.ci):
                    names.append(c.name)
                    for b in c.bases:
                        bn = b.split("[")[0].split(".")[-1]
                        if bn in BUILTIN_EXC:
                            names.extend(builtin_exc_ancestors(bn))
                return names
            return builtin_exc_ancestors(rec.cls) if rec.cls in BUILTIN_EXC else [rec.cls, "Exception", "BaseException"]
        raise Unsupported("exception value")

    def exc_matches(self, exc: V, tnode, env) -> bool:
        if tnode is None:
            return True
        tv = self.eval(tnode, env)
        tvs = tv.items if isinstance(tv, STuple) else [tv]
        names = self.exc_class_names(exc)
        for t in tvs:
            if isinstance(t, SClass):
                if t.ci.name in names:
                    return True
            elif isinstance(t, SBuiltin):
                if t.name in names:
                    return True
            elif isinstance(t, SExternal):
                if t.qual.split(":")[-1].split(".")[-1] in names:
                    return True
            else:
                raise Unsupported("except clause type")
        return False

    def raise_builtin(self, name: str, msg: str = ""):
        oid = self.st.new_id()
        self.st.objs[oid] = ObjRec(name, None, {"args": STuple([self.ops.lit(msg)])}, {"exception": True})
        raise PyRaise(SObj(oid))

    def s_With(self, node, env):
        self._with_items(node.items, node.body, env)

    def _with_items(self, items, body, env):
        if not items:
            self.exec_block(body, env)
            return
        item = items[0]
        cm = self.eval(item.context_expr, env)
        self.with_cm(cm, item.optional_vars, lambda: self._with_items(items[1:], body, env), env)

    def s_While(self, node, env):
        self.exec_while(node, env)

    def s_For(self, node, env):
        self.exec_for(node, env)

    # ================================================================== calls
    def call(self, fv: V, args: list, kwargs: dict, node=None) -> V:
        if isinstance(fv, SFunc):
            return self.call_func(fv, args, kwargs)
        if isinstance(fv, SModel):
            a = ([fv.self_val] if fv.self_val is not None else []) + list(args)
            return fv.fn(self, a, kwargs)
        if isinstance(fv, SBuiltin):
            return BM.call_builtin(self, fv.name, args, kwargs)
        if isinstance(fv, SClass):
            return self.construct(fv.ci, args, kwargs)
        if isinstance(fv, SExternal):
            if self.registry is not None:
                m = self.registry.external(fv.qual)
                if m is not None:
                    self.st.assumptions.add(f"assumed:{fv.qual}")
                    return m(self, args, kwargs)
            raise Unsupported(f"call of external '{fv.qual}' without an assumed contract")
        if isinstance(fv, SOpt):
            if self.st.branch(fv.isnone):
                self.raise_builtin("TypeError", "'NoneType' object is not callable")
            return self.call(fv.inner, args, kwargs, node)
        if isinstance(fv, SObj):
            rec = self.st.objs[fv.oid]
            if "call" in rec.meta:
                return rec.meta["call"](self, [fv] + list(args), kwargs)
            m = self.find_attr_in_class(fv, "__call__")
            if m is not None:
                return self.call(m, args, kwargs, node)
        raise Unsupported(f"call of {type(fv).__name__}")

    def call_func(self, f: SFunc, args: list, kwargs: dict, raw: bool = False) -> V:
        node = f.node
        qual = self.func_qual(f)
        if not raw and not isinstance(node, ast.Lambda) and any(
                ast.unparse(d).split(".")[-1] == "contextmanager" for d in node.decorator_list):
            oid = self.st.new_id()
            self.st.objs[oid] = ObjRec("$gen_cm", None, {}, {"gen": (f, list(args), dict(kwargs))})
            return SObj(oid)
        if self.registry is not None and not isinstance(node, ast.Lambda):
            c = self.registry.call_contract(qual)
            if c is not None:
                self.st.assumptions.add(f"contract:{qual}")
                a = ([f.self_val] if f.self_val is not None else []) + list(args)
                return c(self, a, kwargs)
        if self.depth > MAX_DEPTH:
            raise Unsupported(f"call depth exceeded at {qual}")
        if qual in self.call_stack and self.call_stack.count(qual) >= 2:
            raise Unsupported(f"recursive function {qual} needs a contract")
        env = Env(f.env, f.module, f)
        a = node.args
        params = [p.arg for p in a.posonlyargs + a.args]
        pos = list(args)
        if f.self_val is not None:
            pos = [f.self_val] + pos
        ndef = len(a.defaults)
        defaults = dict(zip(params[len(params) - ndef:], a.defaults)) if ndef else {}
        kwargs = dict(kwargs)
        for i, p in enumerate(params):
            if i < len(pos):
                env.vars[p] = pos[i]
            elif p in kwargs:
                env.vars[p] = kwargs.pop(p)
            elif p in defaults:
                env.vars[p] = self.eval(defaults[p], Env(f.env, f.module, None))
            else:
                self.raise_builtin("TypeError", f"missing argument {p}")
        if len(pos) > len(params):
            if a.vararg:
                env.vars[a.vararg.arg] = STuple(pos[len(params):])
            else:
                self.raise_builtin("TypeError", "too many positional arguments")
        elif a.vararg:
            env.vars[a.vararg.arg] = STuple([])
        for p, d in zip(a.kwonlyargs, a.kw_defaults):
            if p.arg in kwargs:
                env.vars[p.arg] = kwargs.pop(p.arg)
            elif d is not None:
                env.vars[p.arg] = self.eval(d, Env(f.env, f.module, None))
            else:
                self.raise_builtin("TypeError", f"missing keyword argument {p.arg}")
        if kwargs:
            if a.kwarg:
                env.vars[a.kwarg.arg] = self.ops.new_dict([(self.ops.lit(k), v) for k, v in kwargs.items()])
            else:
                self.raise_builtin("TypeError", f"unexpected keyword {list(kwargs)}")
        elif a.kwarg:
            env.vars[a.kwarg.arg] = self.ops.new_dict()
        if isinstance(node, ast.Lambda):
            self.depth += 1
            try:
                return self.eval(node.body, env)
            finally:
                self.depth -= 1
        self.st.inlined.add(qual)
        self.depth += 1
        self.call_stack.append(qual)
        try:
            self.exec_block(node.body, env)
        except _Return as r:
            return r.value
        except Unsupported as e:
            if not getattr(e, "_located", False):
                e._located = True
                e.args = (f"{e.args[0]} [in {' > '.join(q.split(':')[-1] for q in self.call_stack[-4:])}]",)
            raise
        finally:
            self.depth -= 1
            self.call_stack.pop()
        return SNone

    def func_qual(self, f: SFunc) -> str:
        if isinstance(f.node, ast.Lambda):
            return f"{f.module}:<lambda>@{f.node.lineno}"
        if f.cls is not None and f.env is None:
            return f"{f.cls.module}:{f.cls.name}.{f.node.name}"
        return f"{f.module}:{f.node.name}"
