"""Proof units: run a real function symbolically under a contract and discharge its obligations."""
from __future__ import annotations

import ast
import copy
import time
import traceback
from dataclasses import dataclass, field
from typing import Any, Callable

import z3


def _zsum(ts):
    """z3.Sum, except that a one-element sum is the element itself: z3 prints (+ x) for it, which cvc5 1.0 rejects."""
    ts = list(ts)
    return ts[0] if len(ts) == 1 else z3.Sum(ts)


from . import smt
from .index import Index
from .interp import Env, Interp
from .ops import FALSE, TRUE
from .state import State, explore
from .typesys import fresh_value
from .values import (PathEnd, PyRaise, SBool, SFunc, SModel, SNone, SObj, STuple, Seg, Unsupported, V, fresh_int,
                     fresh_name)

_INDEX: Index | None = None


def get_index() -> Index:
    global _INDEX
    if _INDEX is None:
        _INDEX = Index()
    return _INDEX


@dataclass
class Obl:
    """One obligation kind of a unit; `check(ctx)` returns a z3 Bool (to be valid on the path), or a list of
    (suffix, z3 Bool), or None when the obligation does not apply to the path."""

    name: str
    check: Any  # str (spec expression) | callable(ctx)
    when: str = "return"  # 'return' | 'raise' | 'any'
    canary: Any = None  # a deliberately wrong variant that must be refuted (vacuity guard)
    native: str | None = None  # native form of the postcondition when `check` is not a spec string
    scenario: str | None = None  # replay scenario script for structural obligations


@dataclass
class Unit:
    prop: str
    name: str
    func: str  # "module:func" or "module:Class.method"
    params: list = field(default_factory=list)  # [(name, type descriptor)]
    self_type: Any = None
    requires: list = field(default_factory=list)  # spec strings / callables(ctx)->z3 Bool
    obligations: list = field(default_factory=list)
    names: Any = None  # callable(I) -> dict of extra names for spec expressions
    setup: Any = None  # callable(ctx) after parameters exist (extra assumptions, ghost)
    registry: Any = None
    allowed_raises: Any = None  # list of exception class names allowed to escape (None = not checked)
    all_params: bool = False  # parameters of the real signature that `params` does not list are symbolic too (not defaulted)
    split_at: int = 0  # hand the exploration out to other processes once this many prefixes are pending (0 = the CLI default)
    native_script: str | None = None  # replay/units/<script>: native replay of a composed unit (args of ctx.args, concretised)
    may_always_raise: bool = False  # the unit is expected to have no normal-return path (vacuity guard off)
    max_paths: int = 4000
    run: Any = None  # custom runner(ctx) replacing the plain call (for traces)
    notes: str = ""
    native_func: str | None = None  # "module:attr" to call natively in the replay (default: derived from func)
    replayable: bool = True


class Ctx:
    def __init__(self, unit: Unit, I: Interp):
        self.unit = unit
        self.I = I
        self.args: dict[str, V] = {}
        self.self_val: V | None = None
        self.result: V | None = None
        self.exc: V | None = None
        self.st0: State | None = None
        self.extra: dict = {}
        self.names: dict[str, V] = {}

    @property
    def st(self) -> State:
        return self.I.st

    def spec_env(self, extra=None) -> Env:
        module = self.unit.func.split(":")[0]
        env = Env(None, module)
        env.vars.update(SPEC_BUILTINS)
        env.vars.update(self.names)
        env.vars.update(self.args)
        if self.self_val is not None:
            env.vars["self"] = self.self_val
        if self.result is not None:
            env.vars["result"] = self.result
        if self.exc is not None:
            env.vars["exc"] = self.exc
        if extra:
            env.vars.update(extra)
        env.vars["$ctx"] = SModel(lambda I, a, k: SNone, None, "$ctx")
        return env

    def ev(self, expr: str, extra=None):
        """Evaluate a spec expression (pure mode) to a z3 Bool."""
        node = ast.parse(expr.strip(), mode="eval").body
        self.I.pure += 1
        try:
            v = self.I.eval(node, self.spec_env(extra))
        finally:
            self.I.pure -= 1
        return self.I.ops.truthy(v)

    def val(self, expr: str, extra=None) -> V:
        node = ast.parse(expr.strip(), mode="eval").body
        self.I.pure += 1
        try:
            return self.I.eval(node, self.spec_env(extra))
        finally:
            self.I.pure -= 1

    def old(self, expr: str):
        cur = self.I.st
        self.I.st = self.st0
        try:
            return self.val(expr)
        finally:
            self.I.st = cur


# ------------------------------------------------------------------ spec builtins (pure)
def _sp_implies(I, a, k):
    return SBool(z3.Implies(I.ops.truthy(a[0]), I.ops.truthy(a[1])))


def _sp_iff(I, a, k):
    return SBool(I.ops.truthy(a[0]) == I.ops.truthy(a[1]))


def _sp_count(I, a, k):
    lst, fn = a
    tot = z3.IntVal(0)
    for s in I.iter_segments(lst):
        if isinstance(s, tuple):
            for x in s[1]:
                tot = tot + z3.If(I.ops.truthy(I.call(fn, [x], {})), 1, 0)
        else:
            c = I.ops.truthy(I.call(fn, [s.mapv], {}))
            tot = tot + I.ops.count_seg(s, z3.And(s.cond, c))
    return __import__("pyvc.values", fromlist=["SInt"]).SInt(z3.simplify(tot))


def _sp_forall(I, a, k):
    lst, fn = a
    parts = []
    for s in I.iter_segments(lst):
        if isinstance(s, tuple):
            parts += [I.ops.truthy(I.call(fn, [x], {})) for x in s[1]]
        else:
            c = I.ops.truthy(I.call(fn, [s.mapv], {}))
            parts.append(I.ops.count_seg(s, z3.And(s.cond, z3.Not(c))) == 0)
    return SBool(z3.And(*parts) if parts else TRUE)


def _sp_exists(I, a, k):
    lst, fn = a
    parts = []
    for s in I.iter_segments(lst):
        if isinstance(s, tuple):
            parts += [I.ops.truthy(I.call(fn, [x], {})) for x in s[1]]
        else:
            c = I.ops.truthy(I.call(fn, [s.mapv], {}))
            parts.append(I.ops.count_seg(s, z3.And(s.cond, c)) > 0)
    return SBool(z3.Or(*parts) if parts else FALSE)


SPEC_BUILTINS = {
    "implies": SModel(_sp_implies, None, "implies"),
    "iff": SModel(_sp_iff, None, "iff"),
    "count": SModel(_sp_count, None, "count"),
    "forall": SModel(_sp_forall, None, "forall"),
    "exists": SModel(_sp_exists, None, "exists"),
}


# ------------------------------------------------------------------ count axioms (Venn-region encoding)
def count_axioms(st: State, quantified: bool = False, max_conds: int = 48, meta: list | None = None):
    """Facts relating the count terms of a path: for the conditions c_1..c_k counted over the same index
    range, every feasible Boolean combination (atom) gets a non-negative cardinality; the atoms partition the
    range; each count is the sum of its atoms; a non-empty atom has a witness index; explicit index terms
    falling in an atom make it non-empty.  Pointwise feasibility of atoms is decided by the solver."""
    out = []
    groups: dict[tuple, list] = {}
    for c in st.counts:
        key = (c.lid, tuple(str(p) for p in c.pidx), str(c.hi))
        groups.setdefault(key, []).append(c)
    for key, recs in groups.items():
        hi = recs[0].hi
        pidx = recs[0].pidx
        lid = recs[0].lid
        g0 = z3.Int(fresh_name("ga"))
        conds = [z3.substitute(r.cond, (r.g, g0)) for r in recs]
        if len(conds) > max_conds:
            if meta is not None:  # no axioms for this group: its counts are still checked exactly in a counter-model
                meta.extend((r.term, (lambda idx, _r=r: z3.substitute(_r.cond, (_r.g, idx))), hi) for r in recs)
            continue
        bs = [z3.Bool(fresh_name("atom")) for _ in conds]
        s = z3.Solver()
        s.set("timeout", 20000)  # generous: a skipped group leaves its counts unconstrained (verdicts must not flip under load)
        for p in st.pc:
            if not _has_quantifier(p):
                s.add(p)
        s.add(g0 >= 0, g0 < hi)
        for b, c in zip(bs, conds):
            s.add(b == c)
        atoms = []
        while True:
            r = s.check()
            if r == z3.unsat:
                break
            if r == z3.unknown:
                atoms = None
                break
            m = s.model()
            a = tuple(bool(z3.is_true(m.eval(b, model_completion=True))) for b in bs)
            atoms.append(a)
            s.add(z3.Or(*[b != z3.BoolVal(v) for b, v in zip(bs, a)]))
            if len(atoms) > 256:
                atoms = None
                break
        if atoms is None:
            if meta is not None:
                meta.extend((r.term, (lambda idx, _r=r: z3.substitute(_r.cond, (_r.g, idx))), hi) for r in recs)
            # too many regions to enumerate: fall back to pairwise facts -- two counts over the same range whose conditions
            # are pointwise equivalent are equal, an implied condition counts at most as much; plus bounds and the explicit
            # index terms (weaker than the region encoding, but enough for "the code's test and the specification's test are
            # the same predicate")
            s2 = z3.Solver()
            s2.set("timeout", 2000)
            for p in st.pc:
                if not _has_quantifier(p):
                    s2.add(p)
            s2.add(g0 >= 0, g0 < hi)
            for r in recs:
                out.append(z3.And(r.term >= 0, r.term <= z3.If(hi > 0, hi, 0)))
            for i, ci in enumerate(conds):
                for j, cj in enumerate(conds):
                    if i < j:
                        ab = s2.check(ci, z3.Not(cj)) == z3.unsat
                        ba = s2.check(cj, z3.Not(ci)) == z3.unsat
                        if ab and ba:
                            out.append(recs[i].term == recs[j].term)
                        elif ab:
                            out.append(recs[i].term <= recs[j].term)
                        elif ba:
                            out.append(recs[j].term <= recs[i].term)
            for path in st.index_terms.get(lid, []):
                if len(path) == len(pidx) + 1 and all(str(x) == str(y) for x, y in zip(path, pidx)):
                    t_ = path[-1]
                    for r, c in zip(recs, conds):
                        out.append(z3.Implies(z3.And(t_ >= 0, t_ < hi, z3.substitute(c, (g0, t_))), r.term >= 1))
            continue
        ns = [fresh_int("n_atom") for _ in atoms]
        out.append(_zsum(ns) == z3.If(hi > 0, hi, 0) if ns else (z3.If(hi > 0, hi, 0) == 0))
        for n in ns:
            out.append(n >= 0)
        for i, r in enumerate(recs):
            terms = [n for n, a in zip(ns, atoms) if a[i]]
            out.append(r.term == (_zsum(terms) if terms else z3.IntVal(0)))

        def atom_at(a, idx, _conds=tuple(conds), _g0=g0):  # (bound now: the closure is called after the loop has moved on)
            return z3.And(*[(z3.substitute(c, (_g0, idx)) if v else z3.Not(z3.substitute(c, (_g0, idx)))) for c, v in zip(_conds, a)])

        explicit = []
        for path in st.index_terms.get(lid, []):
            if len(path) == len(pidx) + 1 and all(str(x) == str(y) for x, y in zip(path, pidx)):
                explicit.append(path[-1])
        for n, a in zip(ns, atoms):
            if meta is not None:
                meta.append((n, (lambda idx, _a=a, _f=atom_at: _f(_a, idx)), hi))
            w = fresh_int("w_atom")
            out.append(z3.Implies(n > 0, z3.And(w >= 0, w < hi, atom_at(a, w))))
            for t in explicit:
                out.append(z3.Implies(z3.And(t >= 0, t < hi, atom_at(a, t)), n >= 1))
            if quantified:
                j = z3.Int(fresh_name("j"))
                out.append(z3.Implies(n == 0, z3.ForAll([j], z3.Implies(z3.And(j >= 0, j < hi), z3.Not(atom_at(a, j))))))
    return out


def _small_range_facts(meta, bound: int = 5) -> list:
    """Restriction to ranges of at most `bound` elements, with every region's cardinality spelled out over the indices of
    such a range (complete for it): any model of the restricted query is a model of the full one."""
    out = [hi <= bound for hi in {h.get_id(): h for _n, _a, h in meta}.values()]
    for n, atom, hi in meta:
        out.append(n == _zsum([z3.If(z3.And(j < hi, atom(z3.IntVal(j))), 1, 0) for j in range(bound)] + [z3.IntVal(0)]))
    return out


def _model_respects_counts(model, meta, limit: int = 300):
    """True: in the model every region's cardinality n is exactly the number of indices of the model's range that fall in
    the region; False: it is not (the model is spurious); None: not checkable (range too large / not a number)."""
    if model is None:
        return None
    for n, atom, hi in meta:
        try:
            nv = model.eval(n, model_completion=True).as_long()
            hv = model.eval(hi, model_completion=True).as_long()
        except Exception:
            return None
        if hv > limit:
            return None
        real = sum(1 for j in range(max(hv, 0)) if z3.is_true(model.eval(atom(z3.IntVal(j)), model_completion=True)))
        if real != nv:
            return False
    return True


def _has_quantifier(t) -> bool:
    stack = [t]
    seen = set()
    while stack:
        u = stack.pop()
        if u.get_id() in seen:
            continue
        seen.add(u.get_id())
        if z3.is_quantifier(u):
            return True
        if z3.is_app(u):
            stack.extend(u.children())
    return False


# ------------------------------------------------------------------ running a unit
@dataclass
class OblResult:
    name: str
    status: str  # 'discharged' | 'failed' | 'undecided' | 'error'
    backend: str = ""
    time_s: float = 0.0
    detail: str = ""
    model: Any = None
    path: Any = -1
    canary: bool = False
    replay: str | None = None  # path of the replay file
    replay_verdict: str = ""  # 'violates' | 'holds' | 'none' | 'error'
    finding: str | None = None


@dataclass
class UnitResult:
    unit: Unit
    paths: int = 0
    results: list = field(default_factory=list)
    unsupported: str | None = None
    error: str | None = None
    assumptions: set = field(default_factory=set)
    inlined: set = field(default_factory=set)
    wall_s: float = 0.0
    dead_paths: int = 0
    samples: list = field(default_factory=list)
    frontier: list = field(default_factory=list)


def make_interp(unit: Unit, st: State) -> Interp:
    reg = unit.registry
    return Interp(get_index(), st, reg)


def setup_ctx(unit: Unit, st: State) -> Ctx:
    I = make_interp(unit, st)
    ctx = Ctx(unit, I)
    idx = get_index()
    if unit.names is not None:
        if callable(unit.names):
            ctx.names = unit.names(I)
        else:
            for k, q in unit.names.items():
                m, a = q.split(":")
                v = I.module_global(m, a.split(".")[0])
                for part in a.split(".")[1:]:
                    v = I.getattr(v, part)
                ctx.names[k] = v
    for name, t in unit.params:
        if callable(t):
            ctx.args[name] = t(ctx)
        else:
            ctx.args[name] = fresh_value(st, I.typer, t, name, det=True)
            if isinstance(ctx.args[name], SObj):
                st.objs[ctx.args[name].oid].meta["symbolic"] = True
    ctx.auto_kwargs = {}
    if unit.all_params and unit.run is None:
        m, ci, node = idx.func(unit.func)
        listed = {n for n, _ in unit.params}
        a = node.args
        real = [x for x in list(a.posonlyargs) + list(a.args) + list(a.kwonlyargs) if x.arg not in ("self", "cls")]
        for x in real:
            if x.arg in listed:
                continue
            v = fresh_value(st, I.typer, I.typer.from_ann(x.annotation, m if isinstance(m, str) else m.name), x.arg, det=True)
            if isinstance(v, SObj):
                st.objs[v.oid].meta["symbolic"] = True
            ctx.args[x.arg] = v
            ctx.auto_kwargs[x.arg] = v
    if unit.self_type is not None:
        t = unit.self_type
        ctx.self_val = t(ctx) if callable(t) else fresh_value(st, I.typer, t, "self", det=True)
        if isinstance(ctx.self_val, SObj):
            st.objs[ctx.self_val.oid].meta["symbolic"] = True
    if unit.setup is not None:
        unit.setup(ctx)
    for r in unit.requires:
        c = ctx.ev(r) if isinstance(r, str) else r(ctx)
        st.assume(c)
    return ctx


def run_path(unit: Unit, st: State):
    ctx = setup_ctx(unit, st)
    if not st.feasible():
        raise PathEnd("requires unsatisfiable")
    ctx.st0 = copy.deepcopy(st)
    I = ctx.I
    try:
        if unit.run is not None:
            ctx.result = unit.run(ctx)
        else:
            m, ci, node = get_index().func(unit.func)
            f = SFunc(node, m, None, ctx.self_val, ci, node.name)
            ctx.result = I.call_func(f, [ctx.args[n] for n, _ in unit.params], dict(ctx.auto_kwargs))
        outcome = "return"
    except PyRaise as pr:
        ctx.exc = pr.exc
        outcome = "raise"
    return (ctx, outcome)


KNOWN: list = []  # entries of known_findings.json (set by the CLI)
REPLAY_DIR = "out/replay"


def run_unit(unit: Unit, timeout_ms: int = 10000, canaries: bool = True, prefixes=None, split_at: int = 0, budget: int = 0) -> UnitResult:
    """prefixes: explore only the subtrees below these decision prefixes; split_at > 0: stop expanding once the
    frontier holds that many prefixes and return them in ur.frontier (to be explored by other processes)."""
    t0 = time.time()
    ur = UnitResult(unit)
    try:
        paths, ur.frontier = explore(lambda st: run_path(unit, st), unit.max_paths, prefixes, split_at, budget)
    except Unsupported as e:
        ur.unsupported = str(e)
        ur.wall_s = time.time() - t0
        return ur
    except Exception as e:  # checker crash
        ur.error = f"{type(e).__name__}: {e}\n{traceback.format_exc(limit=12)}"
        ur.wall_s = time.time() - t0
        return ur
    ur.paths = len(paths)
    if paths and prefixes is None and not ur.frontier and not unit.may_always_raise and all(o == "raise" for _st, (_c, o) in paths):
        # vacuity guard: a unit none of whose paths returns normally has exercised nothing of the contract; either the
        # harness no longer matches the code (e.g. a new attribute it does not initialise) or the function always fails
        names = sorted({ctx.I.exc_class_names(ctx.exc)[0] for _st, (ctx, _o) in paths if ctx.exc is not None})
        ur.unsupported = f"no normal-return path: every one of the {len(paths)} paths raises ({', '.join(names[:4])})"
        ur.wall_s = time.time() - t0
        return ur
    for _n, (st, (ctx, outcome)) in enumerate(paths):
        log = st.dctx[0].log
        pi = f"{len(log)}x{int(''.join('1' if b else '0' for b in log) or '0', 2):x}"
        ur.assumptions |= st.assumptions
        ur.inlined |= st.inlined
        # escape analysis
        if unit.allowed_raises is not None and outcome == "raise":
            names = ctx.I.exc_class_names(ctx.exc)
            ok = any(n in names for n in unit.allowed_raises)
            res = OblResult(f"{unit.name}/raises-only-allowed#p{pi}", "discharged" if ok else "failed", "structural", 0.0,
                            "" if ok else f"escaping exception {names[0]}", path=pi)
            if not ok:
                res.model = _model_for_path(st, timeout_ms)
                if res.model is None:
                    res.status = "discharged"  # path infeasible after all
                    res.detail = "path infeasible"
                else:
                    esc = Obl(f"{unit.name}/raises-only-allowed", None, "raise")
                    _after_failure(unit, esc, ctx, st, None, res, outcome, timeout_ms)
            ur.results.append(res)
        for ob in unit.obligations:
            if ob.when != "any" and ob.when != outcome:
                continue
            n_counts, n_pc = len(st.counts), len(st.pc)
            try:
                goals = _goals(ob.check, ctx)
                cgoals = _goals(ob.canary, ctx) if (canaries and ob.canary is not None) else []
            except Unsupported as e:
                ur.results.append(OblResult(f"{ob.name}#p{pi}", "undecided", "", 0.0, f"spec unsupported: {e}", path=pi))
                continue
            except PyRaise as e:
                ur.results.append(OblResult(f"{ob.name}#p{pi}", "error", "", 0.0, "spec raised", path=pi))
                continue
            for suffix, goal in goals:
                r = _discharge(f"{ob.name}{suffix}#p{pi}", st, goal, timeout_ms, pi)
                if r.status == "failed":
                    _after_failure(unit, ob, ctx, st, goal, r, outcome, timeout_ms)
                ur.results.append(r)
            for suffix, goal in cgoals:
                r = _discharge(f"{ob.name}{suffix}#p{pi}!canary", st, goal, min(timeout_ms, 5000), pi)
                r.canary = True
                ur.results.append(r)
            # counts / facts introduced by this obligation's specification are local to it
            del st.counts[n_counts:]
            del st.pc[n_pc:]
            st.assumed = {i for i in st.assumed if i < n_pc}
            st._solver = None
        if len(ur.samples) < 3:
            ur.samples.append(dict(path=pi, outcome=outcome, pc=[str(z3.simplify(p))[:160] for p in st.pc[:6]],
                                   effects=[repr(e)[:160] for e in st.effects[:8]]))
    ur.wall_s = time.time() - t0
    return ur


def _goals(check, ctx):
    if check is None:
        return []
    r = ctx.ev(check) if isinstance(check, str) else check(ctx)
    if r is None:
        return []
    if isinstance(r, list):
        return [(f"/{s}" if s else "", g) for s, g in r]
    return [("", r)]


def _model_for_path(st: State, timeout_ms: int):
    s = z3.Solver()
    s.set("timeout", timeout_ms)
    for p in st.pc:
        s.add(p)
    for a in count_axioms(st):
        s.add(a)
    if s.check() == z3.sat:
        return s.model()
    return None


def string_facts(st: State) -> list:
    """Ground facts about the uninterpreted string predicates (startswith, endswith, ...) with literal arguments: on every
    interned literal the predicate has its real value."""
    from .builtins_model import STRPREDS, bit_theory_facts
    from .values import STR

    out = bit_theory_facts()
    for (fname, args) in list(STRPREDS):
        fn = z3.Function("str_" + fname, *([z3.IntSort()] * (1 + len(args))), z3.BoolSort())
        codes = [STR.lit(x) for x in args]
        for l, code in list(STR.codes.items()):
            try:
                v = bool(getattr(l, fname)(*args))
            except Exception:
                continue
            out.append(fn(z3.IntVal(code), *codes) == z3.BoolVal(v))
    return out


def _discharge(name: str, st: State, goal, timeout_ms: int, pi: int) -> OblResult:
    t0 = time.time()
    goal_s = z3.simplify(goal)
    if z3.is_true(goal_s):
        return OblResult(name, "discharged", "simplify", 0.0, path=pi)
    hyps = list(st.pc) + string_facts(st)
    key = (tuple(c.term.get_id() for c in st.counts), len(st.pc))  # (the spec's own count terms come and go per obligation)
    cached = getattr(st, "_ax_cache", None)
    if cached is not None and cached[0] == key:
        ax, meta = cached[1], cached[2]
    else:
        meta = []
        ax = count_axioms(st, meta=meta)
        st._ax_cache = (key, ax, meta)
    status, backend, model, detail = smt.prove(hyps + ax, goal, timeout_ms)
    if status == "undecided" and meta:
        # the solver gave up (typically quantified facts + unbounded ranges): a counter-model with small ranges, if one
        # exists, is found quickly and is a genuine counter-model of the full query (it satisfies every hypothesis)
        small = _small_range_facts(meta)
        st3, be3, m3, _d3 = smt.prove(hyps + ax + small, goal, 4 * timeout_ms)  # (reached only for obligations that did not discharge)
        if st3 == "failed" and _model_respects_counts(m3, meta) is True:
            return OblResult(name, "failed", be3 + "+small", time.time() - t0, detail, m3, pi)
    if status == "failed" and st.counts:
        # the ground count axioms say an empty region has no element among the EXPLICIT index terms only; before a
        # counter-model is believed it must also respect the quantified emptiness facts: check them in the model itself
        # (finite: the model fixes the range), else retry with the quantified axioms
        ok = _model_respects_counts(model, meta)
        if ok is not True:
            # look for a small counter-model (ranges of at most 5 elements, cardinalities spelled out per index)
            small = _small_range_facts(meta)
            st3, be3, m3, _d3 = smt.prove(hyps + ax + small, goal, 4 * timeout_ms)  # (reached only for obligations that did not discharge)
            if st3 == "failed" and _model_respects_counts(m3, meta) is True:
                ok, model, backend = True, m3, be3 + "+small"
        if ok is not True:
            ax2 = count_axioms(st, quantified=True)
            status2, backend2, model2, detail2 = smt.prove(hyps + ax2, goal, timeout_ms)
            if status2 != "failed":
                status, backend, model, detail = status2, backend2 + "+q", model2, detail2
            elif _model_respects_counts(model2, meta) is True:
                model, backend = model2, backend2 + "+q"
            else:
                status, detail = "undecided", "counter-model not trusted: it could not be checked against the exact cardinalities of the count terms"
    return OblResult(name, status, backend, time.time() - t0, detail, model, pi)


def _after_failure(unit: Unit, ob: Obl, ctx: Ctx, st: State, goal, r: OblResult, outcome: str, timeout_ms: int) -> None:
    """Known-finding residual, then native replay of the counter-model."""
    import json
    import os
    import subprocess

    from .concretize import Concretizer

    base = r.name.split("#")[0]
    # 1. residual proof for recorded findings: goal OR known_class(inputs)
    for kf in KNOWN:
        if kf.get("status", "open") != "open" or kf.get("property") != unit.prop:
            continue
        if not base.startswith(kf.get("obligation", "\0")):
            continue
        if goal is None or "residual" not in kf:
            continue
        try:
            # the known class is a spec expression; obligations over a generic loop element bind its names per goal
            # (ctx.extra["residual_env"][<goal suffix>])
            renv = next((v for k_, v in ctx.extra.get("residual_env", {}).items() if base.endswith("/" + k_)), None)
            res = ctx.ev(kf["residual"], renv)
        except (Unsupported, PyRaise, KeyError, SyntaxError):
            continue
        status, backend, model, detail = smt.prove(list(st.pc) + count_axioms(st), z3.Or(goal, res), timeout_ms)
        if status == "discharged":
            r.status, r.finding, r.backend = "known", kf["id"], backend + "+residual"
            r.detail = kf.get("description", "")
            return
    # 2. native replay
    os.makedirs(os.path.join(REPLAY_DIR, unit.prop), exist_ok=True)
    fname = os.path.join(REPLAY_DIR, unit.prop, base.replace("/", "_") + f"_p{r.path}.json")
    post = ob.check if isinstance(ob.check, str) else ob.native
    spec = {"property": unit.prop, "obligation": r.name, "unit": unit.name, "func": unit.native_func or unit.func.replace(":", ":", 1),
            "names": unit.names if isinstance(unit.names, dict) else {}, "post": post, "when": ob.when,
            "allowed_raises": unit.allowed_raises, "verifier": {"backend": r.backend, "detail": r.detail}}
    if ob.scenario is not None:
        # structural obligation with a scenario script that drives the real engine into the consequence
        script = os.path.join(os.path.dirname(os.path.dirname(__file__)), "replay", "scenarios", ob.scenario)
        spec["scenario_cmd"] = f"/venv/bin/python replay/scenarios/{ob.scenario}"
        spec["model"] = _model_text(r.model)
        cache = os.path.join(REPLAY_DIR, f".scenario_{os.environ.get('PYVC_RUN_ID', '0')}_{ob.scenario}.json")
        if os.path.exists(cache):
            try:
                c = json.load(open(cache))
                out, verdict = c["out"], c["verdict"]
            except Exception:
                out, verdict = "", None
        else:
            verdict = None
        if verdict is None:
            try:
                p = subprocess.run(["/venv/bin/python", script], capture_output=True, text=True, timeout=300, env=dict(os.environ))
                out = (p.stdout or "").strip()[-800:] or (p.stderr or "").strip()[-800:]
                verdict = {0: "none", 1: "violates"}.get(p.returncode, "error")
            except subprocess.TimeoutExpired:
                out, verdict = "scenario timed out", "error"
            try:
                with open(cache, "w") as fh:
                    json.dump({"out": out, "verdict": verdict}, fh)
            except OSError:
                pass
        spec["scenario"] = {"verdict": verdict, "output": out}
        with open(fname, "w") as fh:
            json.dump(spec, fh, indent=1, default=str)
        r.replay, r.status, r.model = fname, "violation", None
        r.replay_verdict = "violates" if verdict == "violates" else "none"
        r.detail = out
        return
    if unit.native_script is not None and r.model is not None and goal is not None:
        if _replay_with_script(unit, ctx, st, goal, r, spec, fname, timeout_ms):
            return
    replayable = unit.replayable and r.model is not None and unit.run is None and (post is not None or ob.check is None)
    if replayable:
        cur = ctx.I.st
        try:
            st0 = ctx.st0
            ctx.I.st = st0
            for oid, rec in st.objs.items():
                if oid in st0.objs:
                    for nme in rec.meta.get("lazy", []):
                        if nme not in st0.objs[oid].fields:
                            try:
                                ctx.I.obj_getattr(SObj(oid), nme)
                            except (PyRaise, Unsupported):
                                pass
            for lid, rec in st.lists.items():
                if lid in st0.lists:
                    st0.lists[lid].field_types.update(rec.field_types)
                    for k2, child in rec.meta.items():
                        if k2.startswith("child:") and k2 not in st0.lists[lid].meta:
                            pass
            cz = Concretizer(ctx.I, r.model)
            spec["args"] = {n: cz.value(v) for n, v in ctx.args.items()}
            spec["arg_order"] = [n for n, _ in unit.params]
            spec["self"] = cz.value(ctx.self_val) if ctx.self_val is not None else None
        except Exception as e:  # concretisation problem: fall back to a structural report
            replayable = False
            spec["concretize_error"] = f"{type(e).__name__}: {e}"
        finally:
            ctx.I.st = cur
    spec["model"] = _model_text(r.model)
    spec["replay_cmd"] = f"/venv/bin/python replay/native.py {fname}"
    with open(fname, "w") as fh:
        json.dump(spec, fh, indent=1, default=str)
    r.replay = fname
    if replayable:
        env = dict(os.environ)
        try:
            p = subprocess.run(["/venv/bin/python", os.path.join(os.path.dirname(os.path.dirname(__file__)), "replay", "native.py"), fname],
                               capture_output=True, text=True, timeout=120, env=env)
            r.detail = (p.stdout or "").strip()[-600:] or (p.stderr or "").strip()[-600:]
            r.replay_verdict = {0: "holds", 1: "violates"}.get(p.returncode, "error")
        except subprocess.TimeoutExpired:
            r.replay_verdict = "error"
        spec["native"] = {"verdict": r.replay_verdict, "output": r.detail}
        with open(fname, "w") as fh:
            json.dump(spec, fh, indent=1, default=str)
        if r.replay_verdict == "holds" and goal is not None:
            # the concretisation of this model does not reproduce the failure (the abstraction of some value is lossy):
            # ask the solver for different counter-models before giving up
            for attempt in range(6):
                m2 = _another_model(st, goal, r.model if attempt == 0 else m2, timeout_ms, blocked := (blocked if attempt else []))
                if m2 is None:
                    break
                try:
                    cur = ctx.I.st
                    ctx.I.st = ctx.st0
                    cz = Concretizer(ctx.I, m2)
                    spec["args"] = {n: cz.value(v) for n, v in ctx.args.items()}
                    spec["self"] = cz.value(ctx.self_val) if ctx.self_val is not None else None
                finally:
                    ctx.I.st = cur
                with open(fname, "w") as fh:
                    json.dump(spec, fh, indent=1, default=str)
                p = subprocess.run(["/venv/bin/python", os.path.join(os.path.dirname(os.path.dirname(__file__)), "replay", "native.py"), fname],
                                   capture_output=True, text=True, timeout=120, env=env)
                if p.returncode == 1:
                    r.replay_verdict = "violates"
                    r.detail = (p.stdout or "").strip()[-600:]
                    spec["native"] = {"verdict": "violates", "output": r.detail, "model_attempt": attempt + 2}
                    with open(fname, "w") as fh:
                        json.dump(spec, fh, indent=1, default=str)
                    break
        if r.replay_verdict == "violates":
            r.status = "violation"
        elif r.replay_verdict == "holds":
            r.status = "undecided"
            r.detail = "counter-model is spurious: the real code satisfies the postcondition on it; " + r.detail
        else:
            r.status = "violation"
            r.replay_verdict = "none"
    else:
        r.status = "violation"
        r.replay_verdict = "none"
    r.model = None


def _replay_with_script(unit, ctx, st, goal, r, spec, fname, timeout_ms) -> bool:
    """Native replay of a composed unit (one whose run is several real calls): the unit's own harness under replay/units/
    rebuilds the inputs from the counter-model and repeats the composition on the real code.  Up to four models are tried.
    Returns True when a verdict was reached (violates / spurious)."""
    import json
    import os
    import subprocess

    from .concretize import Concretizer

    script = os.path.join(os.path.dirname(os.path.dirname(__file__)), "replay", "units", unit.native_script)
    spec["replay_cmd"] = f"/venv/bin/python replay/units/{unit.native_script} {fname}"
    model, blocked, verdict, out = r.model, [], None, ""
    for attempt in range(4):
        try:
            cz = Concretizer(ctx.I, model)
            spec["args"] = {n: cz.value(v) for n, v in ctx.args.items()}
            # rows of the entry state the unit declares relevant: {table: {column: z3 term}} -> concrete values
            rows = {}
            for tname, cols in (ctx.extra.get("replay_rows") or {}).items():
                rows[tname] = {}
                for cname, term in cols.items():
                    v = model.eval(term, model_completion=True)
                    if z3.is_bool(v):
                        rows[tname][cname] = bool(z3.is_true(v))
                    else:
                        n_ = v.as_long()
                        rows[tname][cname] = {"int": n_, "text": cz.s(term)}
            spec["rows"] = rows
        except Exception as e:  # noqa
            spec["concretize_error"] = f"{type(e).__name__}: {e}"
            return False
        spec["model"] = _model_text(model)
        with open(fname, "w") as fh:
            json.dump(spec, fh, indent=1, default=str)
        try:
            p = subprocess.run(["/venv/bin/python", script, fname], capture_output=True, text=True, timeout=120, env=dict(os.environ))
        except subprocess.TimeoutExpired:
            return False
        out = (p.stdout or "").strip()[-700:] or (p.stderr or "").strip()[-700:]
        verdict = {0: "holds", 1: "violates"}.get(p.returncode, "error")
        if verdict != "holds":
            break
        model = _another_model(st, goal, model, timeout_ms, blocked)
        if model is None:
            break
    spec["native"] = {"verdict": verdict, "output": out}
    with open(fname, "w") as fh:
        json.dump(spec, fh, indent=1, default=str)
    if verdict != "violates":
        # the harness of a composed unit rebuilds only part of the model (one row, one object): not reproducing the failure
        # on the models tried does not refute the failed obligation -- it is reported without a failing input
        return False
    r.replay, r.replay_verdict, r.detail, r.model, r.status = fname, verdict, out, None, "violation"
    return True


def _model_text(m) -> dict:
    if m is None:
        return {}
    out = {}
    try:
        for d in m.decls()[:400]:
            out[d.name()] = str(m[d])[:200]
    except Exception:
        pass
    return out


def _another_model(st: State, goal, prev_model, timeout_ms, blocked):
    """A counter-model of the same obligation that differs from the previous ones in some scalar symbol."""
    s = z3.Solver()
    s.set("timeout", min(timeout_ms, 5000))
    for p in st.pc:
        s.add(p)
    for a in count_axioms(st):
        s.add(a)
    s.add(z3.Not(goal))
    diffs = []
    try:
        for d in prev_model.decls()[:200]:
            if d.arity() == 0 and d.range().kind() in (z3.Z3_INT_SORT, z3.Z3_BOOL_SORT, z3.Z3_DATATYPE_SORT):
                diffs.append(d() != prev_model[d])
    except Exception:
        return None
    if diffs:
        blocked.append(z3.Or(*diffs))
    for b in blocked:
        s.add(b)
    if s.check() == z3.sat:
        return s.model()
    return None
