"""Sidecar contracts for the real functions of /repo/src/stabilize (nothing in /repo is annotated)."""
