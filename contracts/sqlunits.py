"""Layer L1: contracts of the real SQLite store / queue functions (SQL text interpreted by pyvc.sql)."""
import z3


def _zsum(ts):
    """z3.Sum, except that a one-element sum is the element itself: z3 prints (+ x) for it, which cvc5 1.0 rejects."""
    ts = list(ts)
    return ts[0] if len(ts) == 1 else z3.Sum(ts)


from pyvc import sql as SQL
from pyvc import trace as T
from pyvc.ops import FALSE, TRUE
from pyvc.values import (ObjRec, PyRaise, SBool, SElem, SEnum, SInt, SNone, SObj, SOpt, SStr, STuple, fresh_bool, fresh_int,
                         fresh_name)
from pyvc.verify import Obl, Unit

from .common import STATUS_NAMES, base_registry

INT = z3.IntSort()
P = "stabilize.persistence.sqlite."


def sql_registry():
    reg = base_registry()
    SQL.install(reg)

    def upsert_task(I, a, k):
        """contract of helpers.upsert_task (proved as unit C07/upsert_task): version-guarded UPDATE, else INSERT; an existing
        row with another version raises ConcurrencyError; on success of the UPDATE the in-memory version is bumped."""
        conn, task = a[0], a[1]
        I.st.emit("upsert_task", task=task, stage_id=a[2] if len(a) > 2 else SNone)
        if I.st.choose("task_concurrency_error"):
            T.raise_exc(I, "ConcurrencyError", "stabilize.errors")
        ver = I.getattr(task, "version")
        bumped = fresh_bool("task_row_existed")
        I.setattr(task, "version", SInt(z3.If(bumped, I.ops.as_int(ver) + 1, I.ops.as_int(ver))))
        return SNone

    reg.contracts[P + "helpers:upsert_task"] = upsert_task

    def insert_stage(I, a, k):
        I.st.emit("insert_stage", stage=a[1], execution_id=a[2])
        return SNone

    reg.contracts[P + "helpers:insert_stage"] = insert_stage
    reg.props[("StageExecution", "execution")] = T._stage_execution
    reg.type_overrides[("StageExecution", "_execution")] = ("obj", "Workflow")
    return reg


def entry_table(name, schemas=None):
    """The table as it was when the function was entered: the named array constants of pyvc.sql.Table."""
    class E:
        pass

    e = E()
    e.exists = z3.Array(f"db.{name}.exists", INT, z3.BoolSort())
    e.col = lambda c: z3.Array(f"db.{name}.{c}", INT, INT)
    e.null = lambda c: z3.Array(f"db.{name}.{c}?", INT, z3.BoolSort())
    return e


def cur_table(ctx, name):
    return SQL.get_db(ctx.I).table(name)


def sql_effects(ctx, kind=None, table=None):
    return [e for e in ctx.st.effects if e.kind == "sql" and (kind is None or e.data["kind"] == kind) and (table is None or e.data["table"] == table)]


def status_code(I, enum_term):
    return I.enum_getattr(SEnum("WorkflowStatus", enum_term), "name").t


# ----------------------------------------------------------------------------- store_stage (both implementations)
def _store_stage_setup(which):
    def setup(ctx):
        I = ctx.I
        conn = SQL.new_connection(I)
        ctx.extra["conn"] = conn
        stage = ctx.args["stage"]
        ctx.extra["entry_version"] = I.ops.as_int(I.getattr(stage, "version"))
        ctx.extra["entry_status"] = I.getattr(stage, "status").t
        ctx.extra["stage_key"] = I.getattr(stage, "id").t
        ent = entry_table("stage_executions")
        k_ = ctx.extra["stage_key"]
        ctx.extra["replay_rows"] = {"stage_executions": {"exists": z3.Select(ent.exists, k_), "version": z3.Select(ent.col("version"), k_),
                                                         "status": z3.Select(ent.col("status"), k_)}}
        ctx.extra["which"] = which
        if which == "plain":
            ctx.extra["plain"] = True
            I.st.ghost["the_conn"] = conn
        if which == "txn":
            rec = I.st.objs[ctx.self_val.oid]
            rec.fields["_conn"] = conn
            rec.fields["_store"] = T.new_model_obj(I, "SqliteWorkflowStore", "store", open=True)
            rec.fields["_staged_objects"] = I.ops.new_conc_list([])
    return setup


def _g_stage(ctx):
    """G-stage: every UPDATE of stage_executions that this call issues is keyed by the stage id, guarded by the in-memory
    version read before the call (and by expected_phase when given), and bumps the version."""
    I = ctx.I
    goals = []
    ent = entry_table("stage_executions")
    key = ctx.extra["stage_key"]
    ups = sql_effects(ctx, "update", "stage_executions")
    for n, e in enumerate(ups):
        d = e.data
        goals.append((f"update{n}.keyed-by-stage-id", z3.BoolVal(d.get("pinned", False)) if not d.get("pinned") else d["key"] == key))
        if not d.get("pinned"):
            continue
        # the guard must sit in the statement's own WHERE: it is evaluated over an ARBITRARY table state (d["any_tab"]), not the
        # one an earlier SELECT of this call saw -- other transactions may commit between two statements of a connection
        hit, anyt = d["hit_any"], d["any_tab"]
        goals.append((f"update{n}.guarded-by-version", z3.Implies(hit, z3.Select(anyt.cols["version"], key) == ctx.extra["entry_version"])))
        exp = ctx.args.get("expected_phase")
        if exp is not None:
            given = z3.Not(I.ops.is_none(exp))
            goals.append((f"update{n}.guarded-by-phase", z3.Implies(z3.And(hit, given), z3.Select(anyt.cols["status"], key) == I.ops.strip_opt(exp).t)))
        sets = d["sets"]
        goals.append((f"update{n}.bumps-version", z3.BoolVal("version" in sets) if "version" not in sets else
                      sets["version"][0] == z3.Select(ent.col("version"), key) + 1))
        if "status" in sets:
            goals.append((f"update{n}.writes-in-memory-status", sets["status"][0] == status_code(I, ctx.extra["entry_status"])))
    return goals


def _store_stage_post(ctx):
    """Success with an existing row: the row had the in-memory version (and expected phase), now has version + 1 and the
    in-memory status; the in-memory version is version + 1; every other row of the table is unchanged; no commit."""
    I = ctx.I
    ent = entry_table("stage_executions")
    cur = cur_table(ctx, "stage_executions")
    key = ctx.extra["stage_key"]
    existed = z3.Select(ent.exists, key)
    v0 = ctx.extra["entry_version"]
    goals = []
    if ctx.exc is None:
        goals.append(("existing.version-matched", z3.Implies(existed, z3.Select(ent.col("version"), key) == v0)))
        goals.append(("existing.version-bumped", z3.Implies(existed, z3.Select(cur.cols["version"], key) == v0 + 1)))
        goals.append(("existing.status-written", z3.Implies(existed, z3.Select(cur.cols["status"], key) == status_code(I, ctx.extra["entry_status"]))))
        goals.append(("existing.in-memory-version", z3.Implies(existed, I.ops.as_int(I.getattr(ctx.args["stage"], "version")) == v0 + 1)))
        exp = ctx.args.get("expected_phase")
        if exp is not None:
            goals.append(("existing.phase-matched", z3.Implies(z3.And(existed, z3.Not(I.ops.is_none(exp))),
                                                              z3.Select(ent.col("status"), key) == I.ops.strip_opt(exp).t)))
    else:
        names = I.exc_class_names(ctx.exc)
        if "ConcurrencyError" in names and not [e for e in ctx.st.effects if e.kind == "upsert_task"]:
            k = fresh_int("anykey")
            same = z3.And(z3.Select(cur.exists, k) == z3.Select(ent.exists, k),
                          *[z3.Select(cur.cols[c], k) == z3.Select(ent.col(c), k) for c in ("status", "version", "context", "outputs")])
            goals.append(("conflict.nothing-written", same))
            goals.append(("conflict.in-memory-version-unchanged", I.ops.as_int(I.getattr(ctx.args["stage"], "version")) == v0))
            goals.append(("conflict.only-on-mismatch", z3.And(existed, z3.Or(z3.Select(ent.col("version"), key) != v0,
                                                                              _phase_mismatch(ctx, ent, key)))))
    k2 = fresh_int("otherkey")
    frame = z3.Implies(k2 != key, z3.And(z3.Select(cur.exists, k2) == z3.Select(ent.exists, k2),
                                         *[z3.Select(cur.cols[c], k2) == z3.Select(ent.col(c), k2) for c in cur.schema.cols],
                                         *[z3.Select(cur.nulls[c], k2) == z3.Select(ent.null(c), k2) for c in cur.schema.cols]))
    goals.append(("frame.other-rows-unchanged", frame))
    frame_cols = [c for c in cur.schema.cols if c not in ("status", "context", "outputs", "start_time", "end_time", "version")]
    existed_frame = z3.Implies(existed, z3.And(*[z3.Select(cur.cols[c], key) == z3.Select(ent.col(c), key) for c in frame_cols]))
    goals.append(("frame.other-columns-unchanged", existed_frame))
    commits = [e for e in ctx.st.effects if e.kind in ("db_commit", "db_rollback")]
    if ctx.self_val is not None and ctx.extra.get("plain"):
        goals.append(("commits-once-on-success-only", z3.BoolVal(len(commits) == (1 if ctx.exc is None else 0))))
    else:
        goals.append(("commit-free", z3.BoolVal(not commits)))
    return goals


def _phase_mismatch(ctx, ent, key):
    I = ctx.I
    exp = ctx.args.get("expected_phase")
    if exp is None:
        return FALSE
    return z3.And(z3.Not(I.ops.is_none(exp)), z3.Select(ent.col("status"), key) != I.ops.strip_opt(exp).t)


def _staged_before_bump(ctx):
    """version tracking: the (stage, old version) pair is staged for rollback, with the version read BEFORE the bump."""
    I = ctx.I
    if ctx.exc is not None or ctx.self_val is None:
        return []
    ent = entry_table("stage_executions")
    existed = z3.Select(ent.exists, ctx.extra["stage_key"])
    staged = I.getattr(ctx.self_val, "_staged_objects")
    segs = I.ops.segments(staged)
    first = segs[0][1] if segs and isinstance(segs[0], tuple) else []
    if not first:
        return [("staged", z3.Not(existed))]
    it = first[0]
    ok = z3.And(z3.BoolVal(isinstance(it.items[0], SObj) and it.items[0].oid == ctx.args["stage"].oid),
                I.ops.as_int(it.items[1]) == ctx.extra["entry_version"])
    return [("staged", ok)]


def store_stage_units():
    out = []
    common = dict(names=STATUS_NAMES, registry=sql_registry(), replayable=False,
                  params=[("stage", ("obj", "StageExecution")), ("expected_phase", ("opt", ("str",)))],
                  allowed_raises=["ConcurrencyError"])
    # data validity of the symbolic row: NOT NULL columns hold values
    def valid_rows(ctx):
        ent = entry_table("stage_executions")
        k = z3.Int("row_k")
        return z3.ForAll([k], z3.And(z3.Not(z3.Select(ent.null("version"), k)), z3.Not(z3.Select(ent.null("status"), k)), z3.Not(z3.Select(ent.null("id"), k))))

    obls = [Obl("C07/G-stage", _g_stage, when="any"), Obl("C07/store_stage", _store_stage_post, when="any"),
            Obl("C04/cas", _g_stage, when="any"), Obl("C06/durable-write-is-guarded", _g_stage, when="any"),
            Obl("C19/frame/store_stage", _store_stage_post, when="any")]
    out.append(Unit(prop="*", name="L1/AtomicTransaction.store_stage", func=P + "transaction:AtomicTransaction.store_stage",
                    self_type=("obj", "AtomicTransaction"), setup=_store_stage_setup("txn"), requires=[valid_rows], native_script="store_stage_cas.py",
                    obligations=obls + [Obl("C07/version-tracking", _staged_before_bump, when="any")], **common))
    common2 = dict(common)
    reg2 = sql_registry()
    reg2.contracts["*._get_connection"] = lambda I, a, k: I.st.ghost["the_conn"]
    common2["registry"] = reg2
    out.append(Unit(prop="*", name="L1/SqliteStageOpsMixin.store_stage", func=P + "store.stage_ops:SqliteStageOpsMixin.store_stage",
                    self_type=("obj", "SqliteWorkflowStore"), setup=_store_stage_setup("plain"), requires=[valid_rows], native_script="store_stage_cas.py",
                    obligations=[Obl("C07/G-stage/plain", _g_stage, when="any"), Obl("C07/store_stage/plain", _store_stage_post, when="any"),
                                 Obl("C04/cas/plain", _g_stage, when="any"), Obl("C06/durable-write-is-guarded/plain", _g_stage, when="any")], **common2))
    return out


ALL = [store_stage_units]


def units_for(prop):
    out = []
    for mk in ALL:
        for u in mk():
            u.obligations = [o for o in u.obligations if o.name.startswith(prop + "/")]
            if u.obligations:
                u.prop = prop
                u.name = f"{prop}:{u.name}"
                out.append(u)
    return out


# ----------------------------------------------------------------------------- SqliteQueue
Q = "stabilize.queue.sqlite."
QT = "queue_messages"


def queue_registry():
    reg = sql_registry()
    reg.contracts["*._get_connection"] = lambda I, a, k: I.st.ghost["the_conn"]

    def deserialize(I, a, k):
        """assumed for arbitrary stored payloads (proved for payloads written by serialize_message / push_message in the
        round-trip units): None for a corrupt payload, else a message of the named type."""
        if I.st.choose("payload_corrupt"):
            return SNone
        m = T.new_symbolic(I, "Message", f"delivered{T._counter(I, 'dm_n')}")
        I.st.objs[m.oid].meta["from_payload"] = a[1]
        return m

    reg.contracts[Q + "serialization:deserialize_message"] = deserialize
    return reg


def make_queue(ctx):
    I = ctx.I
    conn = SQL.new_connection(I)
    I.st.ghost["the_conn"] = conn
    ci = I.index.find_class("SqliteQueue")
    oid = I.st.new_id()
    rec = ObjRec(ci.name, ci, {}, {"name": "queue", "symbolic": True})
    I.st.objs[oid] = rec
    rec.fields["table_name"] = I.ops.lit(QT)
    rec.fields["connection_string"] = I.ops.lit("sqlite:///x.db")
    rec.fields["lock_duration"] = SInt(z3.Int("lock_duration"))
    I.st.assume(z3.Int("lock_duration") > 0)
    rec.fields["max_attempts"] = SInt(z3.Int("queue_max_attempts"))
    # the in-memory map of messages this process polled and has not acked yet: arbitrary at entry -- one arbitrary entry stands
    # for "some earlier message is still in flight here" (possibly the very row the candidate query returns)
    rec.fields["_pending"] = I.ops.new_dict([(SInt(z3.Int("some_pending_message_id")), SNone)])
    return SObj(oid)


def _queue_valid(ctx):
    return TRUE


def _frame(ctx, tname, except_key=None, cols=None):
    cur = cur_table(ctx, tname)
    ent = entry_table(tname)
    k = fresh_int("otherkey")
    cs = cols or cur.schema.cols
    same = z3.And(z3.Select(cur.exists, k) == z3.Select(ent.exists, k),
                  *[z3.Select(cur.cols[c], k) == z3.Select(ent.col(c), k) for c in cs],
                  *[z3.Select(cur.nulls[c], k) == z3.Select(ent.null(c), k) for c in cs])
    return z3.Implies(k != except_key, same) if except_key is not None else same


def _commits(ctx):
    return [e for e in ctx.st.effects if e.kind == "db_commit"]


def _poll_one_post(ctx):
    """G-queue: a returned message comes from a row that was deliverable now, unlocked (or lock lapsed) and under the
    attempt limit; the claim is an UPDATE of exactly that row guarded by the version that was SELECTed; it sets the lock,
    attempts + 1, version + 1; rowcount 0 returns None; every other row is untouched; the message carries row id and
    attempts + 1."""
    I = ctx.I
    ent = entry_table(QT)
    cur = cur_table(ctx, QT)
    goals = []
    sel = sql_effects(ctx, "select", QT)
    ups = sql_effects(ctx, "update", QT)
    if ctx.exc is not None:
        return [("no-exception", FALSE)]
    res = ctx.result
    returned = z3.Not(I.ops.is_none(res))
    if not ups:
        goals.append(("none-without-claim", z3.Not(returned)))
        goals.append(("unchanged", _frame(ctx, QT)))
        # nothing lost / stays deliverable: the queue gives up without a claim attempt only when the candidate query found no row --
        # never because of something the process remembers about the row
        fo = [e for e in ctx.st.effects if e.kind == "sql_fetchone" and e.data["table"] == QT]
        goals.append(("gives-up-only-without-a-candidate", z3.Not(fo[0].data["found"]) if fo else FALSE))
        return goals
    u = ups[0].data
    goals.append(("claim-is-keyed", z3.BoolVal(bool(u.get("pinned")))))
    if not u.get("pinned"):
        return goals
    r = u["key"]
    hit = u["hit"]
    now_terms = [t for t in [I.st.ghost.get("clock")] if t is not None]
    # the claim UPDATE itself re-checks the version the SELECT saw (over an arbitrary table state: another worker may have claimed
    # the row between the two statements) and that the row is still there
    goals.append(("claim-guarded-by-selected-version", z3.Implies(u["hit_any"], z3.And(z3.Select(u["any_tab"].exists, r),
                  z3.Select(u["any_tab"].cols["version"], r) == z3.Select(ent.col("version"), r)))))
    sets = u["sets"]
    for c in ("locked_until", "attempts", "version"):
        goals.append((f"claim-sets-{c}", z3.BoolVal(c in sets)))
    if "attempts" in sets:
        goals.append(("attempts-incremented", sets["attempts"][0] == z3.Select(ent.col("attempts"), r) + 1))
    if "version" in sets:
        goals.append(("version-incremented", sets["version"][0] == z3.Select(ent.col("version"), r) + 1))
    goals.append(("only-those-columns", z3.BoolVal(set(sets) <= {"locked_until", "attempts", "version"})))
    # the selected row satisfied the candidate predicate (read from the SELECT's own WHERE on the entry table)
    goals.append(("returned-implies-claimed", z3.Implies(returned, hit)))
    pred = z3.And(z3.Select(ent.exists, r),
                  z3.Select(ent.col("attempts"), r) < z3.Int("queue_max_attempts"),
                  z3.Or(z3.Select(ent.null("locked_until"), r), z3.Select(ent.col("locked_until"), r) < ctx.extra["last_now"](I)))
    goals.append(("selected-row-was-deliverable", z3.Implies(returned, pred)))
    # and the other way round (nothing lost: a message whose holder died is delivered again): every row that is due, under the
    # limit and unlocked -- or whose lock has lapsed -- satisfies the candidate query
    if sel and sel[0].data.get("cand"):
        rv, cond = sel[0].data["cand"]
        r0 = fresh_int("anyrow")
        nowt = sel[0].data.get("now")  # the instant the candidate query ran at
        nowt = nowt if nowt is not None else ctx.extra["last_now"](I)
        due = z3.And(z3.Select(ent.exists, r0), z3.Not(z3.Select(ent.null("deliver_at"), r0)), z3.Select(ent.col("deliver_at"), r0) <= nowt,
                     z3.Select(ent.col("attempts"), r0) < z3.Int("queue_max_attempts"),
                     z3.Or(z3.Select(ent.null("locked_until"), r0), z3.Select(ent.col("locked_until"), r0) < nowt))
        goals.append(("every-deliverable-row-is-a-candidate", z3.Implies(due, z3.substitute(cond, (rv, r0)))))
    goals.append(("other-rows-untouched", _frame(ctx, QT, except_key=r)))
    goals.append(("payload-type-untouched", z3.And(*[z3.Select(cur.cols[c], r) == z3.Select(ent.col(c), r) for c in ("payload", "message_type", "message_id", "deliver_at", "max_attempts")])))
    goals.append(("commits-claim", z3.BoolVal(len(_commits(ctx)) >= 1)))
    if isinstance(res, (SObj, SOpt)):
        m = I.ops.strip_opt(res) if isinstance(res, SOpt) else res
        if isinstance(m, SObj):
            att = I.getattr(m, "attempts")
            goals.append(("delivered-attempts", z3.Implies(returned, I.ops.as_int(att) >= z3.Select(ent.col("attempts"), r) + 1)))
    return goals


def _il_queue(ctx):
    """IL-queue: after a successful claim of row r at version v, a second claim that SELECTed the same version cannot
    succeed: the claim UPDATE's WHERE is false on the post-state for the same (id, version)."""
    I = ctx.I
    ups = sql_effects(ctx, "update", QT)
    if not ups or not ups[0].data.get("pinned"):
        return []
    u = ups[0].data
    cur = cur_table(ctx, QT)
    ev = SQL.SqlEval(I, u["params"])
    again = z3.And(z3.Select(cur.exists, u["key"]), *[ev.cond(c, cur, u["key"]) for c in u["rest"]])
    return [("second-claim-fails", z3.Implies(u["hit"], z3.Not(again)))]


def queue_units():
    out = []
    reg = queue_registry()

    def last_now(I):
        return I.st.ghost.get("clock") if I.st.ghost.get("clock") is not None else z3.IntVal(0)

    def setup(ctx):
        ctx.extra["last_now"] = last_now

    common = dict(names=STATUS_NAMES, registry=reg, replayable=False, self_type=make_queue, requires=[_queue_valid], setup=setup)
    out.append(Unit(prop="*", name="L1/SqliteQueue.poll_one", func=Q + "queue:SqliteQueue.poll_one", params=[],
                    obligations=[Obl("C08/poll_one", _poll_one_post, when="any"), Obl("C08/IL-queue", _il_queue, when="any"),
                                 Obl("C01/Q/redeliver", _poll_one_post, when="any"), Obl("C14/poll-attempts", _poll_one_post, when="any")],
                    **common))
    return out


ALL.append(queue_units)


# ---- ack / reschedule / extend_lock / push
def _msg_with_row(ctx):
    I = ctx.I
    m = T.new_symbolic(I, "Message", "message")
    rid = z3.Int("msg_row_id")
    I.st.objs[m.oid].fields["message_id"] = I.call(__import__("pyvc.values", fromlist=["SBuiltin"]).SBuiltin("str"), [SInt(rid)], {})
    ctx.extra["rid"] = rid
    return m


def _single_row_op(changed_cols, deletes=False):
    def check(ctx):
        I = ctx.I
        if ctx.exc is not None:
            return [("no-exception", FALSE)]
        rid = ctx.extra["rid"]
        cur, ent = cur_table(ctx, QT), entry_table(QT)
        goals = [("other-rows-untouched", _frame(ctx, QT, except_key=rid))]
        keep = [c for c in cur.schema.cols if c not in changed_cols]
        if deletes:
            goals.append(("row-removed", z3.Not(z3.Select(cur.exists, rid))))
        else:
            goals.append(("row-kept", z3.Select(cur.exists, rid) == z3.Select(ent.exists, rid)))
            goals.append(("other-columns-untouched", z3.And(*[z3.Select(cur.cols[c], rid) == z3.Select(ent.col(c), rid) for c in keep])))
        goals.append(("committed", z3.BoolVal(len(_commits(ctx)) == 1)))
        ds = [e for e in sql_effects(ctx) if e.data["kind"] in ("update", "delete", "insert")]
        goals.append(("one-statement-keyed-by-id", z3.BoolVal(len(ds) == 1 and bool(ds[0].data.get("pinned")))))
        if ds and ds[0].data.get("pinned"):
            goals.append(("keyed-by-message-row", ds[0].data["key"] == rid))
        return goals
    return check


def _reschedule_post(ctx):
    goals = _single_row_op(("deliver_at", "locked_until"))(ctx)
    if ctx.exc is None:
        cur = cur_table(ctx, QT)
        rid = ctx.extra["rid"]
        ent = entry_table(QT)
        goals.append(("lock-cleared", z3.Implies(z3.Select(ent.exists, rid), z3.Select(cur.nulls["locked_until"], rid))))
    return goals


def _push_post(ctx):
    """push: exactly one new row, attempts 0, payload = serialize_message(m), type = class name; commit iff no caller
    connection; every existing row untouched."""
    I = ctx.I
    if ctx.exc is not None:
        return [("no-exception", z3.BoolVal("IntegrityError" in I.exc_class_names(ctx.exc)))]
    ins = sql_effects(ctx, "insert", QT)
    goals = [("one-insert", z3.BoolVal(len(ins) == 1 and not sql_effects(ctx, "update") and not sql_effects(ctx, "delete")))]
    if len(ins) != 1:
        return goals
    d = ins[0].data
    key = d["key"]
    cur, ent = cur_table(ctx, QT), entry_table(QT)
    goals.append(("fresh-row", z3.Not(z3.Select(ent.exists, key))))
    goals.append(("row-present", z3.Select(cur.exists, key)))
    goals.append(("attempts-zero", z3.Select(cur.cols["attempts"], key) == 0))
    goals.append(("existing-rows-untouched", _frame(ctx, QT, except_key=key)))
    ext = ctx.args.get("connection")
    n = len(_commits(ctx))
    if ext is not None:
        goals.append(("commit-iff-own-connection", z3.If(I.ops.is_none(ext), z3.BoolVal(n == 1), z3.BoolVal(n == 0))))
    dumped = I.st.ghost.get("json_dumped", [])
    goals.append(("payload-is-serialised-message", z3.Or(*[z3.Select(cur.cols["payload"], key) == t for t, _ in dumped]) if dumped else FALSE))
    return goals


def more_queue_units():
    reg = queue_registry()
    common = dict(names=STATUS_NAMES, registry=reg, replayable=False, self_type=make_queue)
    out = [
        Unit(prop="*", name="L1/SqliteQueue.ack", func=Q + "queue:SqliteQueue.ack", params=[("message", _msg_with_row)],
             obligations=[Obl("C08/ack", _single_row_op((), deletes=True), when="any")], **common),
        Unit(prop="*", name="L1/SqliteQueue.reschedule", func=Q + "queue:SqliteQueue.reschedule",
             params=[("message", _msg_with_row), ("delay", ("int",))],
             obligations=[Obl("C08/reschedule", _reschedule_post, when="any")], **common),
        Unit(prop="*", name="L1/SqliteQueue.extend_lock", func=Q + "queue:SqliteQueue.extend_lock",
             params=[("message", _msg_with_row), ("duration", ("opt", ("int",)))],
             obligations=[Obl("C08/extend_lock", _single_row_op(("locked_until",)), when="any")], **common),
        Unit(prop="*", name="L1/SqliteQueue.push", func=Q + "queue:SqliteQueue.push",
             params=[("message", lambda ctx: T.new_symbolic(ctx.I, "RunTask", "message")), ("delay", ("opt", ("int",))),
                     ("connection", lambda ctx: SOpt(SQL.new_connection(ctx.I, "external"), z3.Bool("no_external_connection")))],
             setup=lambda ctx: ctx.I.st.ghost.__setitem__("the_conn", ctx.I.st.ghost["the_conn"]),
             obligations=[Obl("C08/push", _push_post, when="any"), Obl("C19/queue/push", _push_post, when="any")], **common),
    ]
    return out


ALL.append(more_queue_units)


def _has_pending_post(ctx):
    """C10 duplicate guard: has_pending_message_for_task(t) is true exactly when the queue table holds SOME row whose payload
    names task t -- whatever its lock, delay or attempt state (a row being handled right now, locked by a worker, still
    counts: that is what stops the sweep from re-queuing a task whose message is in flight); read-only."""
    I = ctx.I
    if ctx.exc is not None:
        return [("no-exception", FALSE)]
    ent = entry_table(QT)
    tid = ctx.args["task_id"].t
    path = I.ops.lit("$.task_id").t
    k = fresh_int("qrow")
    names = lambda kk: z3.And(z3.Select(ent.exists, kk), z3.Not(SQL.json_extract_null(z3.Select(ent.col("payload"), kk), path)),
                              SQL.json_extract(z3.Select(ent.col("payload"), kk), path) == tid)
    res = I.ops.truthy(ctx.result)
    return [("true-when-any-row-names-the-task", z3.Implies(names(k), res)),
            ("false-when-no-row-names-the-task", z3.Implies(z3.Not(z3.Exists([k], names(k))), z3.Not(res))),
            ("read-only", _frame(ctx, QT))]


def pending_units():
    reg = queue_registry()
    return [Unit(prop="*", name="L1/SqliteQueue.has_pending_message_for_task", func=Q + "queue:SqliteQueue.has_pending_message_for_task",
                 params=[("task_id", ("str",))], names=STATUS_NAMES, registry=reg, replayable=False, self_type=make_queue,
                 obligations=[Obl("C10/pending-guard", _has_pending_post, when="any")])]


ALL.append(pending_units)


# ---- DLQ
DLQ = QT + "_dlq"


def _move_to_dlq_post(ctx):
    """G-dlq: DELETE ... RETURNING and INSERT with no commit in between; type and payload copied unchanged; the
    not-found branch writes nothing; conservation: the message is in exactly one of queue / DLQ afterwards."""
    I = ctx.I
    if ctx.exc is not None:
        return [("no-exception", FALSE)]
    rid = ctx.extra["rid"]
    cur, ent = cur_table(ctx, QT), entry_table(QT)
    dcur, dent = cur_table(ctx, DLQ), entry_table(DLQ)
    was = z3.Select(ent.exists, rid)
    goals = [("queue-other-rows-untouched", _frame(ctx, QT, except_key=rid))]
    ins = sql_effects(ctx, "insert", DLQ)
    # no commit between the two statements: positions in the effect list
    idx = {id(e): i for i, e in enumerate(ctx.st.effects)}
    dels = sql_effects(ctx, "delete", QT)
    commits = [i for i, e in enumerate(ctx.st.effects) if e.kind == "db_commit"]
    if ins and dels:
        a, b = idx[id(dels[0])], idx[id(ins[0])]
        goals.append(("no-commit-between-delete-and-insert", z3.BoolVal(not [c for c in commits if min(a, b) < c < max(a, b)])))
        goals.append(("committed-after-insert", z3.BoolVal(any(c > b for c in commits))))
        # rely/guarantee (one place at every instant, whoever else works on the table): the row is TAKEN -- removed by a
        # write statement, which holds SQLite's write lock until the commit -- before its copy is written, and the copy is
        # fed by that statement's RETURNING row, not by an earlier plain read that another worker's ack, claim or sweep can
        # invalidate in between
        goals.append(("row-taken-before-its-copy-is-written", z3.BoolVal(a < b)))
        goals.append(("copy-not-fed-by-a-plain-read", z3.BoolVal(not sql_effects(ctx, "select", QT))))
        k = ins[0].data["key"]
        goals.append(("dlq-row-present", z3.Select(dcur.exists, k)))
        goals.append(("payload-unchanged", z3.Select(dcur.cols["payload"], k) == z3.Select(ent.col("payload"), rid)))
        goals.append(("type-unchanged", z3.Select(dcur.cols["message_type"], k) == z3.Select(ent.col("message_type"), rid)))
        goals.append(("removed-from-queue", z3.Not(z3.Select(cur.exists, rid))))
        goals.append(("only-when-present", was))
        goals.append(("dlq-other-rows-untouched", _frame(ctx, DLQ, except_key=k)))
    else:
        goals.append(("not-found-writes-nothing", z3.And(z3.Not(was), _frame(ctx, QT), _frame(ctx, DLQ))))
    return goals


def _replay_dlq_post(ctx):
    I = ctx.I
    if ctx.exc is not None:
        return [("no-exception", z3.BoolVal("IntegrityError" in I.exc_class_names(ctx.exc)))]
    did = ctx.args["dlq_id"].t
    cur, ent = cur_table(ctx, QT), entry_table(QT)
    dcur, dent = cur_table(ctx, DLQ), entry_table(DLQ)
    was = z3.Select(dent.exists, did)
    ins = sql_effects(ctx, "insert", QT)
    dels = sql_effects(ctx, "delete", DLQ)
    idx = {id(e): i for i, e in enumerate(ctx.st.effects)}
    commits = [i for i, e in enumerate(ctx.st.effects) if e.kind == "db_commit"]
    goals = [("dlq-other-rows-untouched", _frame(ctx, DLQ, except_key=did))]
    if ins and dels:
        a, b = idx[id(dels[0])], idx[id(ins[0])]
        k = ins[0].data["key"]
        goals.append(("no-commit-between-delete-and-insert", z3.BoolVal(not [c for c in commits if min(a, b) < c < max(a, b)])))
        goals.append(("row-taken-before-its-copy-is-written", z3.BoolVal(a < b)))
        goals.append(("copy-not-fed-by-a-plain-read", z3.BoolVal(not sql_effects(ctx, "select", DLQ))))
        goals.append(("returns-true", I.ops.truthy(ctx.result)))
        goals.append(("payload-unchanged", z3.Select(cur.cols["payload"], k) == z3.Select(dent.col("payload"), did)))
        goals.append(("type-unchanged", z3.Select(cur.cols["message_type"], k) == z3.Select(dent.col("message_type"), did)))
        goals.append(("attempts-reset", z3.Select(cur.cols["attempts"], k) == 0))
        goals.append(("removed-from-dlq", z3.Not(z3.Select(dcur.exists, did))))
        goals.append(("queue-other-rows-untouched", _frame(ctx, QT, except_key=k)))
    else:
        goals.append(("not-found-writes-nothing", z3.And(z3.Not(was), z3.Not(I.ops.truthy(ctx.result)), _frame(ctx, QT), _frame(ctx, DLQ))))
    return goals


def dlq_units():
    reg = queue_registry()

    def mid(ctx):
        rid = z3.Int("msg_row_id")
        ctx.extra["rid"] = rid
        return SInt(rid)

    common = dict(names=STATUS_NAMES, registry=reg, replayable=False, self_type=make_queue)
    return [
        Unit(prop="*", name="L1/SqliteDLQ.move_to_dlq", func=Q + "dlq:SqliteDLQMixin.move_to_dlq",
             params=[("message_id", mid), ("error", ("opt", ("str",)))],
             obligations=[Obl("C08/move_to_dlq", _move_to_dlq_post, when="any")], **common),
        Unit(prop="*", name="L1/SqliteDLQ.replay_dlq", func=Q + "dlq:SqliteDLQMixin.replay_dlq", params=[("dlq_id", ("int",))],
             obligations=[Obl("C08/replay_dlq", _replay_dlq_post, when="any")], **common),
    ]


ALL.append(dlq_units)


def _expired_sweep_post(ctx):
    """C08 (a message that keeps failing is dead-lettered at its attempt limit, never dropped): the sweep hands move_to_dlq
    (contract proved in L1/SqliteDLQ.move_to_dlq) exactly the rows whose attempts reached max_attempts -- every such row, no
    other row -- and writes nothing itself."""
    I = ctx.I
    if ctx.exc is not None:
        return [("no-exception", FALSE)]
    ent = entry_table(QT)
    at_limit = lambda key: z3.And(z3.Select(ent.exists, key), z3.Select(ent.col("attempts"), key) >= z3.Select(ent.col("max_attempts"), key))
    goals = [("writes-nothing-itself", _frame(ctx, QT)), ("commit-free", z3.BoolVal(not _commits(ctx)))]
    moves = [(e, g) for e, g in T.flat(ctx.st.effects) if e.kind == "move_to_dlq"]
    fa = [e for e in ctx.st.effects if e.kind == "sql_fetchall"]
    goals.append(("one-query", z3.BoolVal(len(fa) == 1)))
    for n, (e, g) in enumerate(moves):
        goals.append((f"move{n}.only-rows-at-their-limit", z3.Implies(g, at_limit(I.ops.as_int(e.data["id"])))))
    if fa:
        keys = fa[0].data["keys"]
        arr = I._elem_array(keys.lid, "$v", z3.IntSort())
        r, i = z3.Int("any_row"), z3.Int("row_i")
        # every row at its limit is in the result set (fetchall contract) and every element of the result set is moved
        fe = [e for e in ctx.st.effects if e.kind == "foreach" and e.data["lid"] == keys.lid]
        covered = z3.BoolVal(False)
        if fe:
            f0 = fe[0]
            body_moves = [b for b in f0.data["body"] if b.kind == "move_to_dlq"]
            if body_moves:
                covered = z3.And(f0.data["hi"] == I.ops.list_len(keys), z3.substitute(f0.data["cond"], (f0.data["g"], i)),
                                 I.ops.as_int(body_moves[0].data["id"]) == z3.Select(arr, f0.data["g"]))
        goals.append(("every-row-at-its-limit-is-moved", z3.Or(I.ops.list_len(keys) == 0,
                                                                z3.Implies(z3.And(i >= 0, i < I.ops.list_len(keys)), covered))))
        goals.append(("the-query-selects-exactly-the-rows-at-their-limit", z3.And(
            z3.Implies(at_limit(r), fa[0].data["sat"](r)), z3.Implies(fa[0].data["sat"](r), at_limit(r)))))
        goals.append(("returns-the-number-moved", I.ops.as_int(ctx.result) == I.ops.list_len(keys)))
    return goals


def sweep_units():
    reg = queue_registry()

    def move(I, a, k):
        I.st.emit("move_to_dlq", id=a[1], error=a[2] if len(a) > 2 else k.get("error", SNone))
        return SBool(fresh_bool("moved"))

    reg.contracts["*.move_to_dlq"] = move
    return [Unit(prop="*", name="L1/SqliteDLQ.check_and_move_expired", func=Q + "dlq:SqliteDLQMixin.check_and_move_expired", params=[],
                 names=STATUS_NAMES, registry=reg, replayable=False, self_type=make_queue,
                 obligations=[Obl("C08/expired-sweep", _expired_sweep_post, when="any")])]


ALL.append(sweep_units)


def _rollback_versions_run(ctx):
    """The state store_stage leaves behind when one object is saved twice in a transaction: staged (obj, v0), (obj, v0 + 1),
    in-memory version v0 + 2 -- plus a second object saved once."""
    I = ctx.I
    txn = make_txn(ctx)
    a = T.new_symbolic(I, "StageExecution", "stage_a")
    b = T.new_symbolic(I, "StageExecution", "stage_b")
    va, vb = z3.Int("a_version_in_db"), z3.Int("b_version_in_db")
    I.st.objs[a.oid].fields["version"] = SInt(va + 2)
    I.st.objs[b.oid].fields["version"] = SInt(vb + 1)
    I.st.objs[txn.oid].fields["_staged_objects"] = I.ops.new_conc_list([STuple([a, SInt(va)]), STuple([b, SInt(vb)]), STuple([a, SInt(va + 1)])])
    ctx.extra.update(a=a, b=b, va=va, vb=vb, txn=txn)
    return I.call(I.getattr(txn, "rollback_versions"), [], {})


def _rollback_versions_post(ctx):
    I = ctx.I
    if ctx.exc is not None:
        return [("no-exception", FALSE)]
    a, b = ctx.extra["a"], ctx.extra["b"]
    staged = I.getattr(ctx.extra["txn"], "_staged_objects")
    return [("object-saved-twice-is-back-at-the-database-version", I.ops.as_int(I.getattr(a, "version")) == ctx.extra["va"]),
            ("object-saved-once-is-back-at-the-database-version", I.ops.as_int(I.getattr(b, "version")) == ctx.extra["vb"]),
            ("staging-list-cleared", I.ops.list_len(staged) == 0)]


def rollback_units():
    reg = sql_registry()
    return [Unit(prop="*", name="L1/AtomicTransaction.rollback_versions", func=P + "transaction:AtomicTransaction.rollback_versions", params=[],
                 names=STATUS_NAMES, registry=reg, replayable=False, run=_rollback_versions_run,
                 obligations=[Obl("C07/rollback-restores/versions", _rollback_versions_post, when="any", scenario="d13_rollback_versions_order.py")])]


ALL.append(rollback_units)


# ---- AtomicTransaction: push_message, mark_message_processed, acquire_claim, update_workflow_status, rollback_versions
def make_txn(ctx):
    I = ctx.I
    conn = SQL.new_connection(I)
    I.st.ghost["the_conn"] = conn
    ci = I.index.find_class("AtomicTransaction")
    oid = I.st.new_id()
    rec = ObjRec(ci.name, ci, {}, {"name": "txn", "symbolic": True})
    I.st.objs[oid] = rec
    rec.fields["_conn"] = conn
    rec.fields["_store"] = T.new_model_obj(I, "SqliteWorkflowStore", "store", open=True)
    rec.fields["_staged_objects"] = I.ops.new_conc_list([])
    return SObj(oid)


def _push_message_post(ctx):
    """Transactional push: one new queue row, no commit; payload equals what serialize_message produces for the same
    message (the two serialisers agree); message_type = class name."""
    I = ctx.I
    if ctx.exc is not None:
        return [("no-exception", z3.BoolVal("IntegrityError" in I.exc_class_names(ctx.exc)))]
    ins = sql_effects(ctx, "insert", QT)
    goals = [("one-insert", z3.BoolVal(len(ins) == 1)), ("commit-free", z3.BoolVal(not _commits(ctx)))]
    if len(ins) != 1:
        return goals
    key = ins[0].data["key"]
    cur, ent = cur_table(ctx, QT), entry_table(QT)
    goals.append(("fresh-row", z3.Not(z3.Select(ent.exists, key))))
    goals.append(("existing-rows-untouched", _frame(ctx, QT, except_key=key)))
    goals.append(("type-is-class-name", z3.Select(cur.cols["message_type"], key) == I.ops.lit(I.class_of(ctx.args["message"]).name).t))
    # the UNIQUE message_id column gets an id generated for THIS row -- never a value carried by the message object: the same
    # object is pushed again by the polling re-queue and by retries, and a carried id would collide with the row it came from
    mid = ins[0].data["colvals"].get("message_id")
    fresh = ctx.st.ghost.get("fresh_ids", [])
    goals.append(("row-id-is-generated-for-this-row", z3.BoolVal(mid is not None and any(z3.eq(z3.simplify(mid[0]), z3.simplify(t)) for t in fresh))))
    # two serialisers: run the real serialize_message on the same message and compare payload texts
    m, _c, node = I.index.func("stabilize.queue.sqlite.serialization:serialize_message")
    from pyvc.values import SFunc

    ref = I.call_func(SFunc(node, m, None, None, None, node.name), [ctx.args["message"]], {})
    goals.append(("two-serialisers-agree", z3.Select(cur.cols["payload"], key) == ref.t))
    return goals


def _mark_post(ctx):
    I = ctx.I
    if ctx.exc is not None:
        return [("no-exception", FALSE)]
    cur, ent = cur_table(ctx, "processed_messages"), entry_table("processed_messages")
    mid = ctx.args["message_id"].t
    return [("recorded", z3.Select(cur.exists, mid)), ("idempotent-others-untouched", _frame(ctx, "processed_messages", except_key=mid)),
            ("existing-row-kept", z3.Implies(z3.Select(ent.exists, mid), z3.Select(cur.cols["processed_at"], mid) == z3.Select(ent.col("processed_at"), mid))),
            ("commit-free", z3.BoolVal(not _commits(ctx)))]


def _claim_post(ctx):
    """G-claims: True only if afterwards the claim row (execution, key) is owned by the caller; another owner is replaced
    only with steal_if_owner_terminal and only when that owner's stage row is absent or has a complete status, with the
    old owner in the UPDATE's WHERE; never steals otherwise; no other claim row changes; no commit."""
    I = ctx.I
    if ctx.exc is not None:
        return [("no-exception", z3.BoolVal("KeyError" in I.exc_class_names(ctx.exc)))]
    cur, ent = cur_table(ctx, "stage_claims"), entry_table("stage_claims")
    key = SQL.pair(ctx.args["execution_id"].t, ctx.args["claim_key"].t)
    me = ctx.args["stage_id"].t
    got = I.ops.truthy(ctx.result)
    steal = I.ops.truthy(ctx.args["steal_if_owner_terminal"])
    st_ent = entry_table("stage_executions")
    owner0 = z3.Select(ent.col("stage_id"), key)
    had = z3.Select(ent.exists, key)
    complete_codes = [I.ops.lit(n).t for n in ("SUCCEEDED", "FAILED_CONTINUE", "SKIPPED", "TERMINAL", "CANCELED", "STOPPED")]
    owner_done = z3.Or(z3.Not(z3.Select(st_ent.exists, owner0)), z3.Or(*[z3.Select(st_ent.col("status"), owner0) == c for c in complete_codes]))
    goals = [
        ("true-means-owned", z3.Implies(got, z3.And(z3.Select(cur.exists, key), z3.Select(cur.cols["stage_id"], key) == me))),
        ("false-changes-nothing", z3.Implies(z3.Not(got), z3.And(z3.Select(cur.exists, key) == had, z3.Implies(had, z3.Select(cur.cols["stage_id"], key) == owner0)))),
        ("takeover-only-with-steal-from-finished-owner", z3.Implies(z3.And(had, owner0 != me, got), z3.And(steal, owner_done))),
        ("other-claims-untouched", _frame(ctx, "stage_claims", except_key=key)),
        ("stage-rows-untouched", _frame(ctx, "stage_executions")),
        ("commit-free", z3.BoolVal(not _commits(ctx))),
    ]
    for n, e in enumerate(sql_effects(ctx, "update", "stage_claims")):
        d = e.data
        goals.append((f"update{n}.keyed-and-guarded-by-old-owner", z3.BoolVal(bool(d.get("pinned"))) if not d.get("pinned") else
                      # the take-over statement itself re-checks the owner that was read (arbitrary table state: the owner may have
                      # changed between the look-up and the UPDATE)
                      z3.Implies(d["hit_any"], z3.Select(d["any_tab"].cols["stage_id"], key) == owner0)))
    return goals


def _update_wf_post(ctx):
    I = ctx.I
    if ctx.exc is not None:
        return [("no-exception", FALSE)]
    wf = ctx.args["workflow"]
    key = I.getattr(wf, "id").t
    cur, ent = cur_table(ctx, "pipeline_executions"), entry_table("pipeline_executions")
    keep = [c for c in cur.schema.cols if c not in ("status", "start_time", "end_time")]
    return [("status-written", z3.Implies(z3.Select(ent.exists, key), z3.Select(cur.cols["status"], key) == status_code(I, I.getattr(wf, "status").t))),
            ("other-columns-untouched", z3.And(*[z3.Select(cur.cols[c], key) == z3.Select(ent.col(c), key) for c in keep])),
            ("other-rows-untouched", _frame(ctx, "pipeline_executions", except_key=key)),
            ("commit-free", z3.BoolVal(not _commits(ctx)))]


def txn_units():
    reg = queue_registry()
    common = dict(names=STATUS_NAMES, registry=reg, replayable=False, self_type=make_txn)
    TX = P + "transaction:AtomicTransaction."
    out = []
    for cls in ("RunTask", "CompleteTask", "StartStage", "ContinueParentStage", "JumpToStage", "CompleteWorkflow", "SignalStage"):
        out.append(Unit(prop="*", name=f"L1/AtomicTransaction.push_message[{cls}]", func=TX + "push_message",
                        params=[("message", (lambda c: (lambda ctx: T.new_symbolic(ctx.I, c, "message")))(cls)), ("delay", ("int",))],
                        obligations=[Obl("C19/two-serialisers", _push_message_post, when="any"), Obl("C08/txn-push", _push_message_post, when="any"),
                                     Obl("C01/push-in-transaction", _push_message_post, when="any")], **common))
    out.append(Unit(prop="*", name="L1/AtomicTransaction.mark_message_processed", func=TX + "mark_message_processed",
                    params=[("message_id", ("str",)), ("handler_type", ("opt", ("str",))), ("execution_id", ("opt", ("str",)))],
                    obligations=[Obl("C09/mark", _mark_post, when="any"), Obl("C02/mark", _mark_post, when="any")], **common))
    out.append(Unit(prop="*", name="L1/AtomicTransaction.acquire_claim", func=TX + "acquire_claim",
                    params=[("execution_id", ("str",)), ("claim_key", ("str",)), ("stage_id", ("str",)), ("steal_if_owner_terminal", ("bool",))],
                    obligations=[Obl("C11/G-claims", _claim_post, when="any")], **common))
    out.append(Unit(prop="*", name="L1/AtomicTransaction.update_workflow_status", func=TX + "update_workflow_status",
                    params=[("workflow", ("obj", "Workflow"))],
                    obligations=[Obl("C06/workflow-status-write", _update_wf_post, when="any"), Obl("C19/frame/update_workflow_status", _update_wf_post, when="any")], **common))
    return out


ALL.append(txn_units)


# ---- operations.py
def _is_processed_post(ctx):
    I = ctx.I
    if ctx.exc is not None:
        return [("no-exception", FALSE)]
    ent = entry_table("processed_messages")
    mid = ctx.args["message_id"].t
    return [("iff-row-exists", I.ops.truthy(ctx.result) == z3.Select(ent.exists, mid)), ("read-only", _frame(ctx, "processed_messages"))]


def _cancel_exec_post(ctx):
    I = ctx.I
    if ctx.exc is not None:
        return [("no-exception", FALSE)]
    key = ctx.args["execution_id"].t
    cur, ent = cur_table(ctx, "pipeline_executions"), entry_table("pipeline_executions")
    keep = [c for c in cur.schema.cols if c not in ("is_canceled", "canceled_by", "cancellation_reason")]
    return [("flag-set", z3.Implies(z3.Select(ent.exists, key), z3.Select(cur.cols["is_canceled"], key) == 1)),
            ("status-untouched", z3.And(*[z3.Select(cur.cols[c], key) == z3.Select(ent.col(c), key) for c in keep])),
            ("other-rows-untouched", _frame(ctx, "pipeline_executions", except_key=key)),
            ("committed", z3.BoolVal(len(_commits(ctx)) == 1))]


def _claims_sweep_post(ctx):
    """C11/sweep: only claims whose execution has a complete status are deleted; claims of live executions survive."""
    I = ctx.I
    if ctx.exc is not None:
        return [("no-exception", FALSE)]
    cur, ent = cur_table(ctx, "stage_claims"), entry_table("stage_claims")
    ex = entry_table("pipeline_executions")
    k = fresh_int("claimkey")
    eid = z3.Select(ent.col("execution_id"), k)
    complete_codes = [I.ops.lit(n).t for n in ("SUCCEEDED", "FAILED_CONTINUE", "SKIPPED", "TERMINAL", "CANCELED", "STOPPED")]
    # (rows are keyed by their primary key: the row of execution e is the one at key e -- the SQL front end resolves
    # `execution_id IN (SELECT id FROM pipeline_executions ...)` as that look-up)
    live = z3.And(z3.Select(ex.exists, eid), z3.Not(z3.Or(*[z3.Select(ex.col("status"), eid) == c for c in complete_codes])),
                  z3.Not(z3.Select(ex.null("status"), eid)))
    return [("live-claims-survive", z3.Implies(z3.And(z3.Select(ent.exists, k), z3.Not(z3.Select(ent.null("execution_id"), k)), live), z3.Select(cur.exists, k))),
            ("nothing-created", z3.Implies(z3.Not(z3.Select(ent.exists, k)), z3.Not(z3.Select(cur.exists, k))))]


def _retention_run(ctx):
    """mark_message_processed(conn, m) followed by cleanup_old_processed_messages(conn, max_age_hours) on the same database."""
    I = ctx.I
    from pyvc.values import SFunc

    conn = SQL.new_connection(I)
    I.st.ghost["the_conn"] = conn
    from pyvc.typesys import fresh_value
    mid = fresh_value(I.st, I.typer, ("str",), "message_id", det=True)
    hours = fresh_value(I.st, I.typer, ("int",), "max_age_hours", det=True)
    I.st.assume(hours.t >= 0)
    ctx.args["message_id"], ctx.args["max_age_hours"] = mid, hours
    m, _c, node = I.index.func(P + "operations:mark_message_processed")
    I.call_func(SFunc(node, m, None, None, None, node.name), [conn, mid], {})
    m2, _c2, node2 = I.index.func(P + "operations:cleanup_old_processed_messages")
    return I.call_func(SFunc(node2, m2, None, None, None, node2.name), [conn, hours], {})


def _retention_post(ctx):
    """C09/retention: the sweep that follows the real mark_message_processed deletes the message's record only if the
    record's time is chronologically before the cutoff the sweep was given (now - max_age_hours): a record younger than the
    retention period survives, whatever text format either side is written in."""
    I = ctx.I
    if ctx.exc is not None:
        return [("no-exception", FALSE)]
    cur = cur_table(ctx, "processed_messages")
    key = ctx.args["message_id"].t
    dels = [e for e in ctx.st.effects if e.kind == "sql" and e.data["kind"] == "delete" and e.data["table"] == "processed_messages"]
    goals = [("one-sweep-statement", z3.BoolVal(len(dels) == 1))]
    if len(dels) == 1:
        prm = dels[0].data["params"]
        items = getattr(I.st.dicts[prm.did], "items", None) if hasattr(prm, "did") else None
        if not items or len(items) != 1:
            return goals + [("the-sweep-takes-one-parameter", FALSE)]
        cutoff, _n = SQL.SqlEval(I, prm).to_int(items[0][1])  # whatever the parameter is called
        nows = ctx.st.ghost.get("py_nows", [])
        goals.append(("the-clock-is-read-once", z3.BoolVal(len(nows) == 1)))
        if len(nows) == 1:
            goals.append(("the-cutoff-is-the-retention-period-before-now", cutoff == nows[0] - ctx.args["max_age_hours"].t * 3600000))
        goals.append(("a-record-is-deleted-only-when-older-than-the-cutoff",
                      z3.Implies(z3.Not(z3.Select(cur.exists, key)), z3.Select(cur.cols["processed_at"], key) < cutoff)))
    return goals


def ops_units():
    reg = queue_registry()
    OP = P + "operations:"

    def conn_param(ctx):
        c = SQL.new_connection(ctx.I)
        ctx.I.st.ghost["the_conn"] = c
        return c

    common = dict(names=STATUS_NAMES, registry=reg, replayable=False)
    return [
        Unit(prop="*", name="L1/operations.is_message_processed", func=OP + "is_message_processed",
             params=[("conn", conn_param), ("message_id", ("str",))],
             obligations=[Obl("C09/is-processed", _is_processed_post, when="any"), Obl("C02/is-processed", _is_processed_post, when="any")], **common),
        Unit(prop="*", name="L1/operations.cancel_execution", func=OP + "cancel_execution",
             params=[("conn", conn_param), ("execution_id", ("str",)), ("canceled_by", ("str",)), ("reason", ("str",))],
             obligations=[Obl("C17/cancel-flag", _cancel_exec_post, when="any"), Obl("C01/RES/cancel-flag-idempotent", _cancel_exec_post, when="any")], **common),
        Unit(prop="*", name="L1/operations.cleanup_completed_stage_claims", func=OP + "cleanup_completed_stage_claims",
             params=[("conn", conn_param)], obligations=[Obl("C11/sweep", _claims_sweep_post, when="any")], **common),
        Unit(prop="*", name="L1/operations.mark+cleanup_old_processed_messages", func=OP + "cleanup_old_processed_messages", params=[],
             obligations=[Obl("C09/retention", _retention_post, when="any", scenario="d15_retention_deletes_fresh_marks.py"),
                          Obl("C02/retention", _retention_post, when="any", scenario="d15_retention_deletes_fresh_marks.py")],
             run=_retention_run, **common),
    ]


ALL.append(ops_units)


# ---- round trips: messages through serialize/deserialize, and through the transactional push + poll (C19, C14)
MESSAGE_CLASSES = ["StartWorkflow", "CompleteWorkflow", "CancelWorkflow", "StartWaitingWorkflows", "StartStage", "CompleteStage",
                   "SkipStage", "CancelStage", "RestartStage", "ResumeStage", "ContinueParentStage", "JumpToStage", "SignalStage",
                   "CancelRegion", "AddMultiInstance", "StartTask", "RunTask", "CompleteTask", "PauseTask", "InvalidWorkflowId",
                   "InvalidStageId", "InvalidTaskId", "InvalidTaskType"]
METADATA = {"message_id", "created_at", "attempts", "max_attempts"}


def _roundtrip_run(cls):
    def run(ctx):
        I = ctx.I
        from pyvc.values import SFunc

        msg = T.new_symbolic(I, cls, "message")
        ctx.args["message"] = msg
        for f in I.index.all_fields(I.index.find_class(cls)):
            I.obj_getattr(msg, f)  # materialise every declared field
        m, _c, node = I.index.func("stabilize.queue.sqlite.serialization:serialize_message")
        payload = I.call_func(SFunc(node, m, None, None, None, node.name), [msg], {})
        m2, _c2, node2 = I.index.func("stabilize.queue.sqlite.serialization:deserialize_message")
        return I.call_func(SFunc(node2, m2, None, None, None, node2.name), [I.ops.lit(cls), payload], {})
    return run


def _roundtrip_post(cls):
    def check(ctx):
        I = ctx.I
        if ctx.exc is not None:
            return [("no-exception", FALSE)]
        res = ctx.result
        msg = ctx.args["message"]
        goals = [("not-none", z3.Not(I.ops.is_none(res)))]
        if not isinstance(res, SObj):
            return goals + [("is-message-object", FALSE)]
        goals.append(("same-class", z3.BoolVal(I.class_of(res).name == cls)))
        for f in I.index.all_fields(I.index.find_class(cls)):
            if f in METADATA:
                continue
            goals.append((f"field.{f}", I.ops.eq(I.getattr(res, f), I.getattr(msg, f))))
        return goals
    return check


def _attempts_carried(ctx):
    """C14/attempts-carried: the retry counter a message is pushed with survives the queue: what is delivered carries at
    least that many attempts (the handler then pushes attempts + 1, so the count seen by successive executions of one
    task strictly increases and the documented maximum is reached)."""
    I = ctx.I
    if ctx.exc is not None:
        # (a UNIQUE clash of the random message_id is the only admissible failure of the push)
        return [("no-exception", z3.BoolVal("IntegrityError" in I.exc_class_names(ctx.exc)))]
    res = ctx.result
    msg = ctx.args["message"]
    if not isinstance(res, SObj):
        return [("delivered", I.ops.is_none(res))]
    a0 = I.ops.as_int(I.getattr(msg, "attempts"))
    return [("delivered-attempts-at-least-pushed", I.ops.as_int(I.getattr(res, "attempts")) >= a0),
            ("delivered-attempts-positive", I.ops.as_int(I.getattr(res, "attempts")) >= 1),
            ("same-task", I.ops.eq(I.getattr(res, "task_id"), I.getattr(msg, "task_id"))),
            ("same-class", z3.BoolVal(I.class_of(res).name == "RunTask"))]


def _delivered_same(ctx):
    """C19: what the transactional push stores is delivered with the same type and field values (metadata aside)."""
    I = ctx.I
    if ctx.exc is not None:
        return [("no-exception", z3.BoolVal("IntegrityError" in I.exc_class_names(ctx.exc)))]
    res, msg = ctx.result, ctx.args["message"]
    if not isinstance(res, SObj):
        return [("delivered", I.ops.is_none(res))]
    goals = [("same-class", z3.BoolVal(I.class_of(res).name == "RunTask"))]
    for f in I.index.all_fields(I.index.find_class("RunTask")):
        if f not in METADATA:
            goals.append((f"field.{f}", I.ops.eq(I.getattr(res, f), I.getattr(msg, f))))
    return goals


def _push_poll_run(ctx):
    """transactional push of a RunTask, commit, then poll_one on a queue that holds nothing else deliverable."""
    I = ctx.I
    from pyvc.values import SFunc

    txn = make_txn(ctx)
    q = make_queue(ctx)
    I.st.ghost["the_conn"] = I.st.objs[txn.oid].fields["_conn"]
    msg = T.new_symbolic(I, "RunTask", "message")
    ctx.args["message"] = msg
    for f in I.index.all_fields(I.index.find_class("RunTask")):
        I.obj_getattr(msg, f)
    I.st.assume(I.ops.as_int(I.getattr(msg, "attempts")) >= 0)
    SQL.get_db(I).table(QT).exists = z3.K(INT, False)  # the queue is otherwise empty (so the polled row is the pushed one)
    I.call(I.getattr(txn, "push_message"), [msg], {})
    SQL.get_db(I).commit()
    return I.call(I.getattr(q, "poll_one"), [], {})


def roundtrip_units():
    from .hcommon import handler_registry  # noqa

    reg = sql_registry()
    reg.contracts["*._get_connection"] = lambda I, a, k: I.st.ghost["the_conn"]
    out = []
    for cls in MESSAGE_CLASSES:
        out.append(Unit(prop="*", name=f"L3/message-roundtrip[{cls}]", func="stabilize.queue.sqlite.serialization:deserialize_message",
                        params=[], names=STATUS_NAMES, registry=reg, replayable=False, run=_roundtrip_run(cls), native_script="message_roundtrip.py",
                        obligations=[Obl("C19/messages", _roundtrip_post(cls), when="any")]))
    out.append(Unit(prop="*", name="L1/push_message+poll_one", func=Q + "queue:SqliteQueue.poll_one", params=[], names=STATUS_NAMES,
                    registry=reg, replayable=False, run=_push_poll_run,
                    obligations=[Obl("C14/attempts-carried", _attempts_carried, when="any", scenario="d1_transient_retry_unbounded.py"),
                                 Obl("C19/queue/txn-push-then-poll", _delivered_same, when="any")]))
    return out


ALL.append(roundtrip_units)


# ----------------------------------------------------------------------------- C13 mechanism: txn_scope, recorder._record, store.transaction
TS = "stabilize.events.txn_scope:"


def scope_registry(contract_scope_fns=False):
    from pyvc.values import SModel

    reg = queue_registry()

    def local_obj(I):
        o = I.st.ghost.get("txn_local")
        if o is None:
            o = T.new_model_obj(I, "$thread_local", "_local")
            I.st.ghost["txn_local"] = o
        return o

    reg.consts[("stabilize.events.txn_scope", "_local")] = local_obj

    def get_bus(I, a, k):
        b = I.st.ghost.get("bus")
        if b is None:
            b = T.new_model_obj(I, "EventBus", "bus")

            def publish(I2, a2, k2):
                I2.st.emit("publish", event=a2[0])
                if I2.st.choose("publish_raises"):
                    I2.raise_builtin("RuntimeError", "subscriber failed")
                return SNone

            I.st.objs[b.oid].fields["publish"] = SModel(publish, None, "publish")
            I.st.ghost["bus"] = b
        return b

    reg.contracts["stabilize.events.bus:get_event_bus"] = get_bus
    if contract_scope_fns:
        for n in ("begin_store_transaction", "commit_store_transaction", "abort_store_transaction"):
            reg.contracts[TS + n] = (lambda nm: (lambda I, a, k: (I.st.emit("scope", op=nm, args=list(a)), SNone)[1]))(n)
    return reg


def _bind_scope(ctx, depth_sym=True):
    """Pre-state: a scope is bound to the thread with symbolic depth >= 1 and a symbolic pending list."""
    I = ctx.I
    from pyvc.typesys import fresh_value

    ci = I.index.find_class("TxnScope")
    oid = I.st.new_id()
    rec = ObjRec(ci.name, ci, {}, {"name": "scope"})
    I.st.objs[oid] = rec
    d = z3.Int("scope_depth")
    I.st.assume(d >= 1)
    rec.fields["depth"] = SInt(d)
    base_pending = fresh_value(I.st, I.typer, ("list", ("obj", "Event")), "pending", det=True)
    rec.fields["pending"] = base_pending if ctx.unit.name.endswith("_transaction") else I.ops.new_derived(I.ops.segments(base_pending))
    rec.fields["connection"] = SQL.new_connection(I, "scope_conn")
    rec.fields["url"] = SOpt(SStr(z3.Int("scope_url")), z3.Bool("scope_url?"))
    local = I.registry.consts[("stabilize.events.txn_scope", "_local")](I)
    I.st.objs[local.oid].fields["scope"] = SOpt(SObj(oid), z3.Bool("no_scope_bound"))
    ctx.extra["scope"] = SObj(oid)
    ctx.extra["local"] = local
    # the thread-local object is entered in whatever state earlier calls left it: every other attribute the module assigns
    # on it (none today) may be unset or hold a scope object about which nothing is known
    import ast as _ast

    mod = I.index.modules["stabilize.events.txn_scope"]
    names = set()
    for n_ in _ast.walk(mod.tree):
        if isinstance(n_, _ast.Attribute) and isinstance(n_.ctx, _ast.Store) and isinstance(n_.value, _ast.Name) and n_.value.id == "_local":
            names.add(n_.attr)
    for nm in sorted(names - {"scope"}):
        oid2 = I.st.new_id()
        rec2 = ObjRec(ci.name, ci, {}, {"name": f"left_over_{nm}"})
        I.st.objs[oid2] = rec2
        rec2.fields["depth"] = SInt(z3.Int(f"left_over_{nm}.depth"))
        rec2.fields["pending"] = I.ops.new_derived(I.ops.segments(fresh_value(I.st, I.typer, ("list", ("obj", "Event")), f"left_over_{nm}.pending", det=True)))
        rec2.fields["connection"] = SQL.new_connection(I, f"left_over_{nm}_conn")
        rec2.fields["url"] = SOpt(SStr(z3.Int(f"left_over_{nm}.url")), z3.Bool(f"left_over_{nm}.url?"))
        I.st.objs[local.oid].fields[nm] = SOpt(SObj(oid2), z3.Bool(f"no_{nm}"))


def _begin_scope_post(ctx):
    """begin_store_transaction: with no scope bound, binds a scope for THIS transaction -- depth 1, the given connection and
    url, and NO deferred publication carried over from anywhere (an event pending from an earlier, rolled back transaction
    would be published by this one's commit); with a scope bound, only the depth grows."""
    I = ctx.I
    if ctx.exc is not None:
        return [("no-exception", FALSE)]
    nobound = z3.Bool("no_scope_bound")
    d = z3.Int("scope_depth")
    local = I.st.objs[ctx.extra["local"].oid]
    cur = local.fields.get("scope")
    goals = [("a-scope-is-bound", z3.Not(I.ops.is_none(cur)))]
    now = I.ops.strip_opt(cur) if not isinstance(cur, SObj) else cur
    if isinstance(now, SObj):
        rec = I.st.objs[now.oid]
        if now.oid == ctx.extra["scope"].oid:
            goals.append(("nested-begin-only-deepens", z3.And(z3.Not(nobound), I.ops.as_int(rec.fields["depth"]) == d + 1)))
        else:
            goals.append(("fresh-scope-only-when-none-was-bound", nobound))
            goals.append(("fresh-scope.depth-1", I.ops.as_int(rec.fields["depth"]) == 1))
            goals.append(("fresh-scope.no-pending-publication-carried-over", I.ops.list_len(rec.fields["pending"]) == 0))
            goals.append(("fresh-scope.connection", z3.BoolVal(isinstance(rec.fields["connection"], SObj) and rec.fields["connection"].oid == ctx.args["connection"].oid)))
            goals.append(("fresh-scope.url", I.ops.eq(rec.fields["url"], ctx.args["url"])))
    return goals


def _commit_scope_post(ctx):
    """commit_store_transaction publishes the pending events exactly once, in order, only when the outermost block
    commits (depth reaches 0), and unbinds the scope; a nested commit only decrements; a failing subscriber is isolated."""
    I = ctx.I
    if ctx.exc is not None:
        return [("no-exception", FALSE)]
    nobound = z3.Bool("no_scope_bound")
    d = z3.Int("scope_depth")
    pubs = [e for e in ctx.st.effects if e.kind in ("publish", "foreach")]
    scope = ctx.extra["scope"]
    local = I.st.objs[ctx.extra["local"].oid]
    cur = local.fields.get("scope")
    unbound_now = I.ops.is_none(cur)
    goals = []
    pending = I.st.objs[scope.oid].fields["pending"]
    fe = [e for e in ctx.st.effects if e.kind == "foreach" and e.data["lid"] == pending.lid]
    if fe:
        goals.append(("publishes-only-at-outermost-commit", z3.And(z3.Not(nobound), d == 1)))
        j = fresh_int("pj")
        once = _zsum([z3.If(z3.And(j < e.data["hi"], z3.substitute(e.data["cond"], (e.data["g"], j))), 1, 0) for e in fe]) == 1
        goals.append(("publishes-every-pending-event-once", z3.Implies(z3.And(j >= 0, j < I.ops.list_len(pending)), once)))
        b = [x for x in fe[0].data["body"] if x.kind == "publish"]
        goals.append(("publishes-the-pending-event", z3.BoolVal(len(b) == 1 and isinstance(b[0].data["event"], SElem) and b[0].data["event"].lid == pending.lid)))
        goals.append(("scope-unbound", unbound_now))
    else:
        goals.append(("silent-only-when-nested-unbound-or-empty", z3.Or(nobound, d > 1, I.ops.list_len(pending) == 0)))
        goals.append(("nested-commit-keeps-scope", z3.Implies(z3.And(z3.Not(nobound), d > 1), z3.And(z3.Not(unbound_now),
                      I.ops.as_int(I.st.objs[scope.oid].fields["depth"]) == d - 1))))
    return goals


def _abort_scope_post(ctx):
    I = ctx.I
    if ctx.exc is not None:
        return [("no-exception", FALSE)]
    d = z3.Int("scope_depth")
    nobound = z3.Bool("no_scope_bound")
    local = I.st.objs[ctx.extra["local"].oid]
    return [("never-publishes", z3.BoolVal(not ctx.st.effects_of("publish"))),
            ("outermost-abort-unbinds", z3.Implies(z3.And(z3.Not(nobound), d == 1), I.ops.is_none(local.fields.get("scope"))))]


def _record_post(ctx):
    """EventRecorderBase._record: with an active scope whose url equals the event store's connection string the append
    uses the scope's connection; with ANY active scope publication is deferred into scope.pending and the bus is not
    called; without a scope the event is published after the append."""
    I = ctx.I
    goals = []
    apps = [e for e in ctx.st.effects if e.kind == "append"]
    pubs = ctx.st.effects_of("publish")
    nobound = z3.Bool("no_scope_bound")
    conn_given = z3.Not(I.ops.is_none(ctx.args["connection"]))
    scope = ctx.extra["scope"]
    srec = I.st.objs[scope.oid]
    if ctx.exc is None:
        goals.append(("appends-once", z3.BoolVal(len(apps) == 1)))
        # a completion never lacks its event: whatever the append fails with, the failure reaches the caller -- inside a completion
        # transaction that is what rolls the state change back instead of committing it without its event
        goals.append(("a-failed-append-is-never-swallowed", z3.BoolVal(not ctx.st.ghost.get("append_failed"))))
    active = z3.And(z3.Not(nobound), z3.Not(conn_given))
    for e in apps:
        used = e.data["connection"]
        same_db = z3.And(z3.Not(srec.fields["url"].isnone), z3.Not(I.ops.is_none(ctx.extra["store_url"])),
                         I.ops.eq(srec.fields["url"], ctx.extra["store_url"]))
        is_scope_conn = z3.BoolVal(isinstance(used, SObj) and used.oid == srec.fields["connection"].oid)
        goals.append(("joins-scope-connection-when-same-database", z3.Implies(z3.And(active, same_db), is_scope_conn)))
        goals.append(("never-joins-another-database", z3.Implies(is_scope_conn, z3.And(active, same_db))))
    publish_on = I.ops.truthy(I.getattr(ctx.self_val, "_publish_to_bus"))
    if pubs:
        goals.append(("publishes-now-only-without-scope", z3.And(z3.Or(nobound, conn_given), publish_on)))
        goals.append(("publish-after-append", z3.BoolVal(bool(apps) and ctx.st.effects.index(pubs[0]) > ctx.st.effects.index(apps[0]))))
    elif ctx.exc is None:
        pend = srec.fields["pending"]
        grew = z3.BoolVal(bool([w for w in I.st.lists[pend.lid].write_log if w[0] == "$append"]))
        goals.append(("deferred-or-disabled", z3.Or(z3.Not(publish_on), z3.And(active, grew))))
    return goals


def _store_txn_post(ctx):
    """SqliteWorkflowStore.transaction: scope bound before the body; normal exit: COMMIT, then publication (scope commit);
    any exception: ROLLBACK, version restore, scope abort, and the exception propagates; never both."""
    effs = ctx.st.effects
    order = [(e.kind, e.data.get("op")) for e in effs if e.kind in ("scope", "db_commit", "db_rollback", "body")]
    kinds = [f"{k}:{o}" if o else k for k, o in order]
    goals = [("begins-before-body", z3.BoolVal(kinds[:2] == ["scope:begin_store_transaction", "body"]))]
    if ctx.exc is None:
        goals.append(("commit-then-publish", z3.BoolVal(kinds[2:] == ["db_commit", "scope:commit_store_transaction"])))
    else:
        goals.append(("rollback-then-abort", z3.BoolVal(kinds[2:] == ["db_rollback", "scope:abort_store_transaction"])))
        goals.append(("exception-propagates", z3.BoolVal(ctx.extra.get("body_exc") is not None and ctx.exc.oid == ctx.extra["body_exc"].oid)))
    return goals


def c13_units():
    from pyvc.values import SModel, fresh_bool

    out = []
    reg = scope_registry()
    common = dict(names=STATUS_NAMES, replayable=False, params=[])
    out.append(Unit(prop="*", name="L1/txn_scope.begin_store_transaction", func=TS + "begin_store_transaction", registry=reg,
                    setup=_bind_scope, obligations=[Obl("C13/scope/begin", _begin_scope_post, when="any")], names=STATUS_NAMES, replayable=False,
                    params=[("connection", lambda ctx: SQL.new_connection(ctx.I, "txn_conn")), ("url", ("opt", ("str",)))]))
    out.append(Unit(prop="*", name="L1/txn_scope.commit_store_transaction", func=TS + "commit_store_transaction", registry=reg,
                    setup=_bind_scope, obligations=[Obl("C13/scope/commit", _commit_scope_post, when="any")], **common))
    out.append(Unit(prop="*", name="L1/txn_scope.abort_store_transaction", func=TS + "abort_store_transaction", registry=reg,
                    setup=_bind_scope, obligations=[Obl("C13/scope/abort", _abort_scope_post, when="any")], **common))

    # _record
    reg2 = scope_registry()
    reg2.contracts[TS + "current_scope"] = lambda I, a, k: I.st.objs[I.registry.consts[("stabilize.events.txn_scope", "_local")](I).oid].fields["scope"]

    def make_recorder(ctx):
        I = ctx.I
        _bind_scope(ctx)
        ci = I.index.find_class("EventRecorderBase")
        es = T.new_model_obj(I, "EventStore", "event_store")
        url = SOpt(SStr(z3.Int("event_store_url")), z3.Bool("event_store_url?"))
        ctx.extra["store_url"] = url
        I.st.objs[es.oid].fields["_connection_string"] = url

        def append(I2, a2, k2):
            I2.st.emit("append", event=a2[0], connection=k2.get("connection", SNone))
            if I2.st.choose("append_raises"):
                I2.st.ghost["append_failed"] = True
                # any exception type: a database error, or a payload the event store cannot serialise (TypeError / ValueError)
                if I2.st.choose("append_raises_type_error"):
                    I2.raise_builtin("TypeError", "Object of type datetime is not JSON serializable")
                if I2.st.choose("append_raises_value_error"):
                    I2.raise_builtin("ValueError", "append failed")
                I2.raise_builtin("RuntimeError", "append failed")
            return a2[0]

        I.st.objs[es.oid].fields["append"] = SModel(append, None, "append")
        # the recorder is built by its real __init__, so attributes the constructor sets are the ones _record sees
        rec = I.construct(ci, [es, SBool(z3.Bool("publish_to_bus"))], {})
        I.st.objs[rec.oid].meta["symbolic"] = True
        I.st.objs[rec.oid].meta["name"] = "recorder"
        I.havoc_mutable_state(rec)  # _record is entered in whatever state earlier calls left the recorder
        return rec

    out.append(Unit(prop="*", name="L1/EventRecorderBase._record", func="stabilize.events.recorder.base:EventRecorderBase._record",
                    registry=reg2, self_type=make_recorder, names=STATUS_NAMES, replayable=False,
                    params=[("event", ("obj", "Event")), ("connection", lambda ctx: SOpt(SQL.new_connection(ctx.I, "explicit"), z3.Bool("no_explicit_connection")))],
                    obligations=[Obl("C13/record", _record_post, when="any")]))

    # store.transaction
    reg3 = scope_registry(contract_scope_fns=True)

    def run_txn(ctx):
        I = ctx.I
        from pyvc.interp import Env
        from .assumed_runtask import new_exception

        conn = SQL.new_connection(I)
        I.st.ghost["the_conn"] = conn
        ci = I.index.find_class("SqliteWorkflowStore")
        oid = I.st.new_id()
        rec = ObjRec(ci.name, ci, {}, {"name": "store", "symbolic": True})
        I.st.objs[oid] = rec
        rec.fields["connection_string"] = I.ops.lit("sqlite:///x.db")
        cm = I.call(I.getattr(SObj(oid), "transaction"), [], {})

        def body():
            I.st.emit("body")
            if I.st.choose("body_raises"):
                exc = new_exception(I, "body_error")
                ctx.extra["body_exc"] = exc
                raise PyRaise(exc)

        I.with_cm(cm, None, body, Env(None, "stabilize.persistence.sqlite.store.store"))
        return SNone

    out.append(Unit(prop="*", name="L1/SqliteWorkflowStore.transaction", func=P + "store.store:SqliteWorkflowStore.transaction",
                    registry=reg3, run=run_txn, names=STATUS_NAMES, replayable=False, params=[],
                    obligations=[Obl("C13/store-transaction", _store_txn_post, when="any"), Obl("C01/store-transaction", _store_txn_post, when="any"),
                                 Obl("C07/rollback-restores", _store_txn_post, when="any")]))
    return out


ALL.append(c13_units)


# ---- C19: stage row round trip  insert_stage -> row -> row_to_stage
STAGE_FIELDS = ["id", "ref_id", "type", "name", "status", "context", "outputs", "requisite_stage_ref_ids", "parent_stage_id",
                "synthetic_stage_owner", "start_time", "end_time", "start_time_expiry", "scheduled_time", "version", "join_type",
                "join_threshold", "split_type", "split_conditions", "deferred_choice_group", "milestone_ref_id", "milestone_status",
                "mutex_key", "cancel_region"]


MI_FIELDS = ["count", "count_from_context", "sync_on_complete", "allow_dynamic", "collection_from_context", "join_threshold", "cancel_remaining"]


def _stage_roundtrip_run(ctx):
    I = ctx.I
    from pyvc.values import SFunc

    conn = SQL.new_connection(I)
    I.st.ghost["the_conn"] = conn
    stage = T.new_symbolic(I, "StageExecution", "stage")
    ctx.args["stage"] = stage
    for f in STAGE_FIELDS:
        I.obj_getattr(stage, f)
    mi = I.obj_getattr(stage, "mi_config")  # MultiInstanceConfig | None: the real to_dict / from_dict run in this unit
    mo = mi.inner if isinstance(mi, SOpt) else mi
    if isinstance(mo, SObj):
        for f in MI_FIELDS:
            I.obj_getattr(mo, f)
    from pyvc.values import VAL

    crec = I.st.dicts[I.getattr(stage, "context").did]
    rk = I.ops.lit("_output_reducers").t
    I.st.assume(z3.Implies(z3.Select(crec.has, rk), z3.Or(VAL.is_VDict(z3.Select(crec.vals, rk)), VAL.is_VNone(z3.Select(crec.vals, rk)))))
    I.st.assume(I.ops.as_int(I.getattr(stage, "join_threshold")) >= 0)
    # is_valid: the names the engine treats as "no name" round-trip through `or ""`; statuses are enum members by type
    m, _c, node = I.index.func(P + "helpers:insert_stage")
    I.call_func(SFunc(node, m, None, None, None, node.name), [conn, stage, SStr(z3.Int("exec_id"))], {})
    ins = sql_effects(ctx, "insert", "stage_executions")
    key = ins[0].data["key"]
    tab = SQL.get_db(I).table("stage_executions")
    stmt = SQL.parse("SELECT * FROM stage_executions WHERE id = :id")
    row = SQL.new_row(I, stmt, tab, key)
    m2, _c2, node2 = I.index.func(P + "converters:row_to_stage")
    return I.call_func(SFunc(node2, m2, None, None, None, node2.name), [row], {})


def _stage_roundtrip_post(ctx):
    I = ctx.I
    if ctx.exc is not None:
        # a primary-key clash on insert and a task-level conflict are the admissible failures of the store step
        names = I.exc_class_names(ctx.exc)
        return [("no-exception", z3.BoolVal("IntegrityError" in names or "ConcurrencyError" in names))]
    a, b = ctx.args["stage"], ctx.result
    goals = []
    for f in STAGE_FIELDS:
        va, vb = I.getattr(a, f), I.getattr(b, f)
        try:
            if f == "name":
                goals.append((f"field.{f}", I.ops.eq(va, vb)))  # "" <-> NULL-or-"" both read back as ""
            elif f == "requisite_stage_ref_ids":
                from pyvc import builtins_model as BM

                # structurally: the set read back is built from every element of the stored set, nothing else
                segs = I.ops.segments(vb)
                same = all((not isinstance(sg, tuple)) and sg.lid == va.lid and z3.is_true(z3.simplify(sg.cond)) for sg in segs) and len(segs) == 1
                goals.append((f"field.{f}", z3.BoolVal(same) if not same else z3.And(segs[0].hi == I.ops.list_len(va),
                              I.ops.eq(segs[0].mapv, I.elem_value(va.lid, tuple(va.idx) + (segs[0].g,))))))
            else:
                goals.append((f"field.{f}", I.ops.eq(va, vb)))
        except Exception as e:  # comparison not expressible
            goals.append((f"field.{f}.comparable", FALSE))
    # control-flow settings of a multi-instance stage: None reads back None, a configuration reads back field by field
    ma, mb = I.getattr(a, "mi_config"), I.getattr(b, "mi_config")
    na, nb = I.ops.is_none(ma), I.ops.is_none(mb)
    goals.append(("field.mi_config.none-iff-none", na == nb))
    oa, ob_ = (ma.inner if isinstance(ma, SOpt) else ma), (mb.inner if isinstance(mb, SOpt) else mb)
    if isinstance(oa, SObj) and isinstance(ob_, SObj):
        for f in MI_FIELDS:
            goals.append((f"field.mi_config.{f}", z3.Implies(z3.Not(na), I.ops.eq(I.getattr(oa, f), I.getattr(ob_, f)))))
    elif isinstance(oa, SObj):
        goals.append(("field.mi_config.read-back", na))
    return goals


def stage_roundtrip_units():
    reg = sql_registry()
    reg.contracts["*._get_connection"] = lambda I, a, k: I.st.ghost["the_conn"]
    reg.contracts.pop(P + "helpers:insert_stage", None)  # the real insert_stage runs in this unit
    return [Unit(prop="*", name="L1/insert_stage+row_to_stage", func=P + "converters:row_to_stage", params=[], names=STATUS_NAMES, registry=reg,
                 replayable=False, run=_stage_roundtrip_run, obligations=[Obl("C19/store/stage-row-roundtrip", _stage_roundtrip_post, when="any")])]


ALL.append(stage_roundtrip_units)


# ---- C19: workflow row round trip  store(execution) -> row -> row_to_execution
WF_FIELDS = ["id", "type", "application", "name", "status", "context", "start_time", "end_time", "start_time_expiry", "is_canceled",
             "canceled_by", "cancellation_reason", "pipeline_config_id", "is_limit_concurrent", "max_concurrent_executions",
             "keep_waiting_pipelines"]


def _wf_roundtrip_run(ctx):
    I = ctx.I
    from pyvc.values import SFunc

    conn = SQL.new_connection(I)
    I.st.ghost["the_conn"] = conn
    wf = T.new_symbolic(I, "Workflow", "execution")
    ctx.args["execution"] = wf
    for f in WF_FIELDS:
        I.obj_getattr(wf, f)
    # two arbitrary stages stand for "every stage": the stage rows themselves are the unit L1/insert_stage+row_to_stage
    s1, s2 = T.new_symbolic(I, "StageExecution", "stage_a"), T.new_symbolic(I, "StageExecution", "stage_b")
    ctx.extra["stages"] = [s1, s2]
    I.st.objs[wf.oid].fields["stages"] = I.ops.new_conc_list([s1, s2])
    I.st.assume(I.ops.as_int(I.getattr(wf, "max_concurrent_executions")) >= 0)
    ci = I.index.find_class("SqliteWorkflowStore")
    oid = I.st.new_id()
    rec = ObjRec(ci.name, ci, {}, {"name": "store", "symbolic": True})
    I.st.objs[oid] = rec
    rec.fields["connection_string"] = I.ops.lit("sqlite:///x.db")
    I.call(I.getattr(SObj(oid), "store"), [wf], {})
    ins = sql_effects(ctx, "insert", "pipeline_executions")
    ctx.extra["n_inserts"] = len(ins)
    key = ins[0].data["key"]
    ctx.extra["commits_after_store"] = _commits(ctx)
    tab = SQL.get_db(I).table("pipeline_executions")
    stmt = SQL.parse("SELECT * FROM pipeline_executions WHERE id = :id")
    row = SQL.new_row(I, stmt, tab, key)
    m2, _c2, node2 = I.index.func(P + "converters:row_to_execution")
    return I.call_func(SFunc(node2, m2, None, None, None, node2.name), [row], {})


def _wf_roundtrip_post(ctx):
    """store(execution): one pipeline_executions row keyed by execution.id, every stage of execution.stages inserted under that
    id, in order, then one commit; the row read back through row_to_execution has the same status, context, type and the
    other scalar columns."""
    I = ctx.I
    if ctx.exc is not None:
        names = I.exc_class_names(ctx.exc)
        return [("no-exception", z3.BoolVal("IntegrityError" in names))]
    a, b = ctx.args["execution"], ctx.result
    goals = [("one-row", z3.BoolVal(ctx.extra["n_inserts"] == 1)), ("committed", z3.BoolVal(bool(ctx.extra["commits_after_store"])))]
    st_eff = [e for e in ctx.st.effects_of("insert_stage")]
    goals.append(("every-stage-inserted-in-order", z3.BoolVal(len(st_eff) == 2 and all(
        isinstance(e.data["stage"], SObj) and e.data["stage"].oid == s.oid for e, s in zip(st_eff, ctx.extra["stages"])))))
    for n, e in enumerate(st_eff):
        goals.append((f"stage{n}.under-the-execution-id", I.ops.eq(e.data["execution_id"], I.getattr(a, "id"))))
    for f in WF_FIELDS:
        try:
            goals.append((f"field.{f}", I.ops.eq(I.getattr(a, f), I.getattr(b, f))))
        except Exception:  # comparison not expressible
            goals.append((f"field.{f}.comparable", FALSE))
    return goals


def wf_roundtrip_units():
    reg = sql_registry()
    reg.contracts["*._get_connection"] = lambda I, a, k: I.st.ghost["the_conn"]
    return [Unit(prop="*", name="L1/store+row_to_execution", func=P + "converters:row_to_execution", params=[], names=STATUS_NAMES, registry=reg,
                 replayable=False, run=_wf_roundtrip_run, obligations=[Obl("C19/store/workflow-row-roundtrip", _wf_roundtrip_post, when="any")])]


ALL.append(wf_roundtrip_units)


# ---- C18: the signal table  buffer_signal / consume_signal (persistent trigger, consumed exactly once)
SG = "stabilize.persistence.sqlite.signals:"
ST = "workflow_signals"


def _consume_signal_post(ctx):
    """consume_signal returns None and writes nothing, or returns the signal of ONE row that was unconsumed and addressed to
    this (execution, stage) -- and to this name when a name is given --, and marks exactly that row consumed: every other
    row stays as it was, so a signal is handed out at most once and no other waiting signal is lost."""
    I = ctx.I
    if ctx.exc is not None:
        return [("no-exception", z3.BoolVal("JSONDecodeError" in I.exc_class_names(ctx.exc)))]
    ent, cur = entry_table(ST), cur_table(ctx, ST)
    ups = sql_effects(ctx, "update", ST)
    res = ctx.result
    returned = z3.Not(I.ops.is_none(res))
    goals = [("commit-free", z3.BoolVal(not _commits(ctx)))]
    if not ups:
        return goals + [("none-without-mark", z3.Not(returned)), ("unchanged", _frame(ctx, ST))]
    u = ups[0].data
    goals.append(("one-mark", z3.BoolVal(len(ups) == 1)))
    goals.append(("mark-is-keyed", z3.BoolVal(bool(u.get("pinned")))))
    if not u.get("pinned"):
        return goals
    r = u["key"]
    goals.append(("returned-iff-marked", returned == u["hit"]))
    goals.append(("marks-consumed", z3.BoolVal("consumed" in u["sets"]) if "consumed" not in u["sets"] else u["sets"]["consumed"][0] == 1))
    goals.append(("only-the-consumed-columns", z3.BoolVal(set(u["sets"]) <= {"consumed", "consumed_at"})))
    eid, ref, name = ctx.args["execution_id"], ctx.args["stage_ref_id"], ctx.args["signal_name"]
    named = z3.And(z3.Not(I.ops.is_none(name)), I.ops.truthy(name))
    was = z3.And(z3.Select(ent.exists, r), z3.Select(ent.col("consumed"), r) == 0,  # (a DEFAULT column is never NULL: assumption of pyvc.sql)
                 z3.Select(ent.col("execution_id"), r) == eid.t, z3.Select(ent.col("stage_ref_id"), r) == ref.t,
                 z3.Implies(named, z3.Select(ent.col("signal_name"), r) == I.ops.strip_opt(name).t))
    goals.append(("the-row-was-waiting-for-this-stage", z3.Implies(returned, was)))
    goals.append(("other-rows-untouched", _frame(ctx, ST, except_key=r)))
    goals.append(("signal-content-untouched", z3.And(*[z3.Select(cur.cols[c], r) == z3.Select(ent.col(c), r)
                                                       for c in ("execution_id", "stage_ref_id", "signal_name", "signal_data")])))
    ro = res.inner if isinstance(res, SOpt) else res
    if isinstance(ro, SObj):
        goals.append(("returns-that-row", z3.Implies(returned, z3.And(I.ops.as_int(I.getattr(ro, "id")) == r,
                                                                     I.getattr(ro, "signal_name").t == z3.Select(ent.col("signal_name"), r)))))
    return goals


def _buffer_signal_post(ctx):
    """buffer_signal adds exactly one unconsumed row carrying the arguments; every existing row stays as it was."""
    I = ctx.I
    if ctx.exc is not None:
        return [("no-exception", FALSE)]
    ins = sql_effects(ctx, "insert", ST)
    goals = [("one-insert", z3.BoolVal(len(ins) == 1)), ("no-update-or-delete", z3.BoolVal(not sql_effects(ctx, "update", ST) and not sql_effects(ctx, "delete", ST)))]
    if len(ins) != 1:
        return goals
    cur, ent = cur_table(ctx, ST), entry_table(ST)
    r = ins[0].data["key"]
    goals.append(("row-is-new", z3.Not(z3.Select(ent.exists, r))))
    goals.append(("row-present", z3.Select(cur.exists, r)))
    for c, a in (("execution_id", "execution_id"), ("stage_ref_id", "stage_ref_id"), ("signal_name", "signal_name")):
        goals.append((f"row.{c}", z3.Select(cur.cols[c], r) == ctx.args[a].t))
    goals.append(("other-rows-untouched", _frame(ctx, ST, except_key=r)))
    return goals


def signal_table_units():
    reg = sql_registry()
    mk = lambda ctx: ctx.st.ghost.setdefault("the_conn", SQL.new_connection(ctx.I))
    return [
        Unit(prop="*", name="L1/signals.consume_signal", func=SG + "consume_signal", registry=reg, names=STATUS_NAMES, replayable=False,
             params=[("conn", mk), ("execution_id", ("str",)), ("stage_ref_id", ("str",)), ("signal_name", ("opt", ("str",)))],
             obligations=[Obl("C18/signal-table/consume_signal", _consume_signal_post, when="any")]),
        Unit(prop="*", name="L1/signals.buffer_signal", func=SG + "buffer_signal", registry=reg, names=STATUS_NAMES, replayable=False,
             params=[("conn", mk), ("execution_id", ("str",)), ("stage_ref_id", ("str",)), ("signal_name", ("str",)), ("signal_data", ("opt", ("dict", ("val",))))],
             obligations=[Obl("C18/signal-table/buffer_signal", _buffer_signal_post, when="any")]),
    ]


ALL.append(signal_table_units)


# ---- C12: the event store hands replay EVERY event of the workflow after the given sequence
def _events_for_workflow_post(ctx):
    """get_events_for_workflow(w, s): one SELECT on `events` without LIMIT whose WHERE is exactly workflow_id = w AND sequence > s;
    the returned list has one entry per selected row (nothing filtered, truncated or added afterwards)."""
    I = ctx.I
    if ctx.exc is not None:
        return [("no-exception", FALSE)]
    sels = sql_effects(ctx, "select", "events")
    goals = [("one-select", z3.BoolVal(len(sels) == 1))]
    if len(sels) != 1:
        return goals
    stmt = sels[0].data["stmt"]
    goals.append(("no-limit", z3.BoolVal(stmt.limit is None)))
    fa = [e for e in ctx.st.effects if e.kind == "sql_fetchall"]
    goals.append(("whole-result-set-read", z3.BoolVal(len(fa) == 1)))
    if len(fa) != 1:
        return goals
    tab, sat = fa[0].data["tab"], fa[0].data["sat"]
    r = fresh_int("anyrow")
    w, s0 = ctx.args["workflow_id"].t, I.ops.as_int(ctx.args["from_sequence"])
    want = z3.And(z3.Select(tab.exists, r), z3.Select(tab.cols["workflow_id"], r) == w, z3.Select(tab.cols["sequence"], r) > s0)
    goals.append(("selects-exactly-the-workflows-later-events", sat(r) == want))
    res = ctx.result
    segs = I.ops.segments(res) if type(res).__name__ == "SList" else None
    segs = [sg for sg in (segs or []) if not (isinstance(sg, tuple) and not sg[1])]  # drop empty literal parts
    keys = fa[0].data["keys"]
    whole = bool(segs) and len(segs) == 1 and not isinstance(segs[0], tuple) and segs[0].lid == keys.lid and z3.is_true(z3.simplify(segs[0].cond))
    goals.append(("one-event-per-selected-row", z3.BoolVal(whole) if not whole else segs[0].hi == I.ops.list_len(keys)))
    return goals


def event_store_units():
    reg = sql_registry()
    reg.contracts["*._get_connection"] = lambda I, a, k: I.st.ghost.setdefault("the_conn", SQL.new_connection(I))

    def row_to_event(I, a, k):  # assumed: one Event per row (its fields: C12 replay units work on arbitrary events)
        return T.new_symbolic(I, "Event", "event")

    reg.contracts["*._row_to_event"] = row_to_event
    ES = "stabilize.events.store.sqlite.events:SqliteEventStoreMixin."
    return [Unit(prop="*", name="L1/SqliteEventStore.get_events_for_workflow", func=ES + "get_events_for_workflow", registry=reg, names=STATUS_NAMES,
                 replayable=False, self_type=("obj", "SqliteEventStore"), params=[("workflow_id", ("str",)), ("from_sequence", ("int",))],
                 obligations=[Obl("C12/event-store/get_events_for_workflow", _events_for_workflow_post, when="any")])]


ALL.append(event_store_units)


# ---- C04 / C07: retrieve_stage pairs a stage row (its version) with task rows that are NOT OLDER than that row
def _retrieve_stage_run(ctx):
    I = ctx.I
    conn = SQL.new_connection(I)
    I.st.ghost["the_conn"] = conn
    ci = I.index.find_class("SqliteWorkflowStore")
    oid = I.st.new_id()
    rec = ObjRec(ci.name, ci, {}, {"name": "store", "symbolic": True})
    I.st.objs[oid] = rec
    rec.fields["connection_string"] = I.ops.lit("sqlite:///x.db")
    sid = SStr(z3.Int("stage_id"))
    ctx.args["stage_id"] = sid
    I.st.ghost["stage_id_arg"] = sid
    return I.call(I.getattr(SObj(oid), "retrieve_stage"), [sid], {})


def _retrieve_stage_post(ctx):
    """The version a handler later presents to the compare-and-swap comes from the stage row; the task list it decides on
    ("no tasks yet: a zombie, plan again") must be at least as fresh as that row.  Statements of one connection are not one
    snapshot, so the stage row is read FIRST and the task rows AFTER it; the task query selects exactly the rows of this stage;
    a missing stage row raises ValueError."""
    I = ctx.I
    effs = [e for e in ctx.st.effects if e.kind == "sql"]
    st_sel = [n for n, e in enumerate(effs) if e.data["kind"] == "select" and e.data["table"] == "stage_executions"]
    tk_sel = [n for n, e in enumerate(effs) if e.data["kind"] == "select" and e.data["table"] == "task_executions"]
    goals = [("reads-only", z3.BoolVal(all(e.data["kind"] == "select" for e in effs)))]
    if ctx.exc is not None:
        names = I.exc_class_names(ctx.exc)
        return goals + [("only-not-found-escapes", z3.BoolVal("ValueError" in names or "JSONDecodeError" in names or "KeyError" in names))]
    goals.append(("stage-row-read", z3.BoolVal(len(st_sel) >= 1)))
    goals.append(("task-rows-read-once", z3.BoolVal(len(tk_sel) == 1)))
    if st_sel and tk_sel:
        goals.append(("task-rows-read-after-the-stage-row", z3.BoolVal(tk_sel[0] > st_sel[0])))
        fa = [e for e in ctx.st.effects if e.kind == "sql_fetchall" and e.data["table"] == "task_executions"]
        if fa:
            tab, sat = fa[0].data["tab"], fa[0].data["sat"]
            r = fresh_int("anytask")
            notnull = TRUE if "stage_id" in tab.schema.notnull else z3.Not(z3.Select(tab.nulls["stage_id"], r))
            goals.append(("task-query-selects-this-stages-tasks", sat(r) == z3.And(z3.Select(tab.exists, r), notnull,
                                                                                     z3.Select(tab.cols["stage_id"], r) == ctx.args["stage_id"].t)))
        else:
            goals.append(("task-query-read-completely", FALSE))
    return goals


def retrieve_stage_units():
    reg = sql_registry()
    reg.contracts["*._get_connection"] = lambda I, a, k: I.st.ghost["the_conn"]
    reg.contracts["*.get_upstream_stages"] = lambda I, a, k: I.ops.new_conc_list([])     # dynamic SQL: assumed contracts elsewhere; not
    reg.contracts["*.get_synthetic_stages"] = lambda I, a, k: I.ops.new_conc_list([])    # what this unit is about
    # the row converters have their own round-trip units; here a row becomes an arbitrary object of the right class
    def row_to_stage(I, a, k):
        st_ = T.new_symbolic(I, "StageExecution", f"stage{T._counter(I, 'rs_n')}")
        I.st.objs[st_.oid].fields["tasks"] = I.ops.new_conc_list([])  # as the real converter: tasks are loaded by the caller
        I.st.objs[st_.oid].fields["id"] = I.st.ghost["stage_id_arg"]  # id = row["id"], the key the row was selected by (round-trip unit)
        return st_

    reg.contracts[P + "converters:row_to_stage"] = row_to_stage
    reg.contracts[P + "converters:row_to_task"] = lambda I, a, k: T.new_symbolic(I, "TaskExecution", f"task{T._counter(I, 'rt_n')}")
    reg.contracts[P + "converters:row_to_execution"] = lambda I, a, k: T.new_symbolic(I, "Workflow", f"execution{T._counter(I, 're_n')}")
    return [Unit(prop="*", name="L1/SqliteStageOpsMixin.retrieve_stage", func=P + "store.stage_ops:SqliteStageOpsMixin.retrieve_stage", params=[],
                 names=STATUS_NAMES, registry=reg, replayable=False, run=_retrieve_stage_run,
                 obligations=[Obl("C04/read-order/retrieve_stage", _retrieve_stage_post, when="any"),
                              Obl("C07/read-order/retrieve_stage", _retrieve_stage_post, when="any")])]


ALL.append(retrieve_stage_units)


# ---- upsert_task (C07 G-task) and the task row round trip (C19)
TASK_FIELDS = ["id", "name", "implementing_class", "status", "start_time", "end_time", "stage_start", "stage_end", "loop_start", "loop_end",
               "task_exception_details"]


def _upsert_setup(ctx):
    I = ctx.I
    conn = SQL.new_connection(I)
    I.st.ghost["the_conn"] = conn
    ctx.args["conn"] = conn
    task = ctx.args["task"]
    for f in TASK_FIELDS + ["version"]:
        I.obj_getattr(task, f)
    ctx.extra["v0"] = I.ops.as_int(I.getattr(task, "version"))
    ctx.extra["key"] = I.getattr(task, "id").t


def _upsert_post(ctx):
    """G-task: the UPDATE is keyed by the task id, guarded by the in-memory version and bumps it; when no row matched an INSERT
    follows and an existing row (primary-key clash = concurrent modification) raises ConcurrencyError -- never a silent
    overwrite; on a successful UPDATE the in-memory version is bumped; other rows untouched; no commit."""
    I = ctx.I
    ent = entry_table("task_executions")
    cur = cur_table(ctx, "task_executions")
    key, v0 = ctx.extra["key"], ctx.extra["v0"]
    existed = z3.Select(ent.exists, key)
    matched = z3.And(existed, z3.Select(ent.col("version"), key) == v0)
    goals = [("other-rows-untouched", _frame(ctx, "task_executions", except_key=key)), ("commit-free", z3.BoolVal(not _commits(ctx)))]
    for n, e in enumerate(sql_effects(ctx, "update", "task_executions")):
        d = e.data
        goals.append((f"update{n}.keyed-and-guarded", z3.BoolVal(bool(d.get("pinned"))) if not d.get("pinned") else
                      z3.And(d["key"] == key, z3.Implies(d["hit_any"], z3.Select(d["any_tab"].cols["version"], key) == v0))))  # guard in the statement itself
        if d.get("pinned"):
            goals.append((f"update{n}.bumps-version", z3.BoolVal("version" in d["sets"]) if "version" not in d["sets"] else
                          d["sets"]["version"][0] == z3.Select(ent.col("version"), key) + 1))
    if ctx.exc is None:
        goals.append(("success-means-matched-or-new", z3.Or(matched, z3.Not(existed))))
        goals.append(("matched.version-bumped", z3.Implies(matched, z3.And(z3.Select(cur.cols["version"], key) == v0 + 1,
                                                                          I.ops.as_int(I.getattr(ctx.args["task"], "version")) == v0 + 1))))
        goals.append(("status-written", z3.Select(cur.cols["status"], key) == status_code(I, I.getattr(ctx.args["task"], "status").t)))
        goals.append(("row-present", z3.Select(cur.exists, key)))
    else:
        names = I.exc_class_names(ctx.exc)
        goals.append(("only-concurrency-error", z3.BoolVal("ConcurrencyError" in names)))
        goals.append(("conflict-only-on-stale-version", z3.And(existed, z3.Select(ent.col("version"), key) != v0)))
        k = fresh_int("anykey")
        goals.append(("conflict-writes-nothing", z3.And(z3.Select(cur.exists, k) == z3.Select(ent.exists, k),
                                                        *[z3.Select(cur.cols[c], k) == z3.Select(ent.col(c), k) for c in ("status", "version")])))
    return goals


def _task_roundtrip_run(ctx, existing=False):
    I = ctx.I
    from pyvc.values import SFunc

    task = T.new_symbolic(I, "TaskExecution", "task")
    ctx.args["task"] = task
    _upsert_setup(ctx)
    if existing:  # a row of this task with the in-memory version (the UPDATE branch)
        ent = SQL.get_db(I).table("task_executions")
        I.st.assume(z3.And(z3.Select(ent.exists, ctx.extra["key"]), z3.Select(ent.cols["version"], ctx.extra["key"]) == ctx.extra["v0"]))
    else:
        SQL.get_db(I).table("task_executions").exists = z3.K(INT, False)  # a new task (the INSERT branch)
    m, _c, node = I.index.func(P + "helpers:upsert_task")
    I.call_func(SFunc(node, m, None, None, None, node.name), [ctx.args["conn"], task, SStr(z3.Int("stage_id"))], {})
    tab = SQL.get_db(I).table("task_executions")
    row = SQL.new_row(I, SQL.parse("SELECT * FROM task_executions WHERE id = :id"), tab, ctx.extra["key"])
    m2, _c2, node2 = I.index.func(P + "converters:row_to_task")
    return I.call_func(SFunc(node2, m2, None, None, None, node2.name), [row], {})


def _task_roundtrip_post(ctx):
    I = ctx.I
    if ctx.exc is not None:
        return [("no-exception", FALSE)]
    a, b = ctx.args["task"], ctx.result
    return [(f"field.{f}", I.ops.eq(I.getattr(a, f), I.getattr(b, f))) for f in TASK_FIELDS]


def task_units():
    reg = sql_registry()
    reg.contracts.pop(P + "helpers:upsert_task", None)
    reg.contracts["*._get_connection"] = lambda I, a, k: I.st.ghost["the_conn"]
    reg.props[("TaskExecution", "stage")] = lambda I, obj: SNone
    return [
        Unit(prop="*", name="L1/helpers.upsert_task", func=P + "helpers:upsert_task", names=STATUS_NAMES, registry=reg, replayable=False,
             params=[("conn", lambda ctx: SNone), ("task", ("obj", "TaskExecution")), ("stage_id", ("str",))], setup=_upsert_setup,
             obligations=[Obl("C07/G-task", _upsert_post, when="any"), Obl("C06/durable-write-is-guarded/task", _upsert_post, when="any")]),
        Unit(prop="*", name="L1/upsert_task+row_to_task", func=P + "converters:row_to_task", params=[], names=STATUS_NAMES, registry=reg,
             replayable=False, run=_task_roundtrip_run, native_script="task_row_roundtrip.py",
             obligations=[Obl("C19/store/task-row-roundtrip", _task_roundtrip_post, when="any")]),
        Unit(prop="*", name="L1/upsert_task(existing)+row_to_task", func=P + "converters:row_to_task", params=[], names=STATUS_NAMES, registry=reg,
             replayable=False, run=lambda ctx: _task_roundtrip_run(ctx, existing=True), native_script="task_row_roundtrip.py",
             obligations=[Obl("C19/store/task-row-roundtrip-update", _task_roundtrip_post, when="any")]),
    ]


ALL.append(task_units)


# ---- the store's stage look-ups hand back exactly what the query returned (C03, C16: an empty upstream list means "no dependencies")
def lookup_units():
    QM = P + "store.queries:SqliteQueriesMixin."
    out = []
    for meth, qfunc in (("get_upstream_stages", "get_upstream_stages"), ("get_downstream_stages", "get_downstream_stages"),
                        ("get_synthetic_stages", "get_synthetic_stages")):
        reg = queue_registry()

        def query(I, a, k, _q=qfunc):
            """assumed contract of persistence.sqlite.queries.<q> (dynamic SQL text, not under contract): some list of stages,
            or any exception of the database layer (sqlite3.OperationalError: locked, disk I/O, ...)."""
            from pyvc.typesys import fresh_value
            if I.st.choose("query_fails"):
                I.st.emit("query_failed", q=_q)
                I.raise_builtin("OperationalError", "database is locked")
            lst = fresh_value(I.st, I.typer, ("list", ("obj", "StageExecution")), "query_result", det=True)
            I.st.emit("query_result", q=_q, obj=lst, args=list(a))
            return lst

        reg.contracts[P + "queries:" + qfunc] = query
        reg.contracts[P + "queries.stages:" + qfunc] = query

        def setup(ctx):
            ctx.I.st.ghost["the_conn"] = SQL.new_connection(ctx.I)

        def post(ctx, _m=meth):
            failed = [e for e in ctx.st.effects if e.kind == "query_failed"]
            got = [e for e in ctx.st.effects if e.kind == "query_result"]
            goals = [("the-query-is-asked-once", z3.BoolVal(len(failed) + len(got) == 1))]
            if failed:
                goals.append(("a-failed-query-is-not-answered-with-a-list", z3.BoolVal(ctx.exc is not None)))
            if got:
                same = ctx.exc is None and hasattr(ctx.result, "lid") and ctx.result.lid == got[0].data["obj"].lid
                goals.append(("returns-the-query-result-itself", z3.BoolVal(bool(same))))
                a = got[0].data["args"]
                goals.append(("asks-for-the-given-execution-and-stage", z3.And(ctx.I.ops.eq(a[1], ctx.args[list(ctx.args)[0]]), ctx.I.ops.eq(a[2], ctx.args[list(ctx.args)[1]]))))
            return goals

        second = "parent_stage_id" if meth == "get_synthetic_stages" else "stage_ref_id"
        out.append(Unit(prop="*", name=f"L1/SqliteQueriesMixin.{meth}", func=QM + meth, params=[("execution_id", ("str",)), (second, ("str",))],
                        self_type=("obj", "SqliteWorkflowStore"), setup=setup, names=STATUS_NAMES, registry=reg, replayable=False,
                        obligations=[Obl(f"C03/lookup/{meth}", post, when="any"), Obl(f"C16/lookup/{meth}", post, when="any"),
                                     Obl(f"C05/lookup/{meth}", post, when="any")]))
    return out


ALL.append(lookup_units)


# ---- the store's retention / dedup wrappers pass their arguments through unchanged (C09, C02)
def store_wrapper_units():
    SM = P + "store.store:SqliteWorkflowStore."
    out = []
    specs = [("cleanup_old_processed_messages", [("max_age_hours", ("int",))], P + "operations:cleanup_old_processed_messages", "int"),
             ("is_message_processed", [("message_id", ("str",))], P + "operations:is_message_processed", "bool"),
             ("mark_message_processed", [("message_id", ("str",)), ("handler_type", ("opt", ("str",))), ("execution_id", ("opt", ("str",)))],
              P + "operations:mark_message_processed", "none")]
    for meth, params, target, rk in specs:
        reg = queue_registry()

        def callee(I, a, k, _t=target, _rk=rk):
            """the callee's own contract is proved in its unit (operations.*); here only the call is recorded"""
            from pyvc.typesys import fresh_value
            res = SNone if _rk == "none" else fresh_value(I.st, I.typer, (_rk,), "callee_result", det=True)
            I.st.emit("callee", target=_t, args=list(a), kwargs=dict(k), result=res)
            return res

        reg.contracts[target] = callee

        def setup(ctx):
            ctx.I.st.ghost["the_conn"] = SQL.new_connection(ctx.I)

        def post(ctx, _params=params, _rk=rk):
            I = ctx.I
            calls = [e for e in ctx.st.effects if e.kind == "callee"]
            goals = [("delegates-once", z3.BoolVal(len(calls) == 1 and ctx.exc is None))]
            if len(calls) == 1 and ctx.exc is None:
                a, kw = calls[0].data["args"], calls[0].data["kwargs"]
                # positional or by keyword (the callee's parameters carry the wrapper's names): either way the same value
                for n, (pn, _pt) in enumerate(_params):
                    got = a[n + 1] if len(a) > n + 1 else kw.get(pn)
                    goals.append((f"argument.{pn}-unchanged", z3.BoolVal(False) if got is None else I.ops.eq(got, ctx.args[pn])))
                conn = a[0] if a else kw.get("conn")
                goals.append(("on-the-store-connection", z3.BoolVal(conn is not None and getattr(conn, "oid", 0) == getattr(I.st.ghost["the_conn"], "oid", 1))))
                if _rk != "none":
                    goals.append(("returns-the-callee-result", I.ops.eq(ctx.result, calls[0].data["result"])))
            return goals

        out.append(Unit(prop="*", name=f"L1/SqliteWorkflowStore.{meth}", func=SM + meth, params=params,
                        self_type=("obj", "SqliteWorkflowStore"), setup=setup, names=STATUS_NAMES, registry=reg, replayable=False,
                        obligations=[Obl(f"C09/store-wrapper/{meth}", post, when="any"), Obl(f"C02/store-wrapper/{meth}", post, when="any")]))
    return out


ALL.append(store_wrapper_units)
