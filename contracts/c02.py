"""C02 -- redelivery and reordering never change the result (DESIGN 4, C02): guards, duplicate check, mark-in-commit."""
from . import handlers, sqlunits

LEVEL = "other"
EXPLANATION = "per-handler re-entrancy guards, frame of each write, processed mark in the same commit as the effects"


def units(tier):
    return sqlunits.units_for("C02") + handlers.units_for("C02")
