"""C02 -- redelivery and reordering never change the result (DESIGN 4, C02): guards, duplicate check, mark-in-commit."""
from . import handlers

LEVEL = "other"
EXPLANATION = "per-handler re-entrancy guards, frame of each write, processed mark in the same commit as the effects"


def units(tier):
    return handlers.units_for("C02")
