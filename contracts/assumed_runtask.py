"""Assumed contracts for the opaque parts around task execution (user code, resilience wrappers, metrics)."""
import z3

from pyvc import trace as T
from pyvc.ops import FALSE, TRUE
from pyvc.values import (ObjRec, PyRaise, SBool, SDict, SFloat, SInt, SModel, SNone, SObj, SOpaque, SOpt, SStr, STuple,
                         fresh_bool, fresh_int, fresh_name)

RT = "stabilize.handlers.run_task."


def new_exception(I, name="task_exception"):
    """An arbitrary exception raised by user code: class unknown, may carry context_update, transient or not."""
    n = T._counter(I, "exc_n")
    oid = I.st.new_id()
    rec = ObjRec("Exception", None, {"args": STuple([I.ops.opaque_str("excmsg")])}, {"exception": True, "name": f"{name}{n}", "open": True})
    rec.meta["transient"] = fresh_bool("is_transient")
    from pyvc.typesys import fresh_value

    cu = fresh_value(I.st, I.typer, ("dict", ("val",)), f"{name}{n}.context_update", det=True)
    rec.fields["context_update"] = SOpt(cu, z3.Bool(f"{name}{n}.context_update?"))
    rec.fields["__cause__"] = SNone
    I.st.objs[oid] = rec
    return SObj(oid)


def install(reg):
    def task_impl(I, label):
        n = T._counter(I, "impl_n")
        impl = T.new_model_obj(I, "TaskImpl", f"{label}{n}", open=True)
        rec = I.st.objs[impl.oid]

        def opt_result(I2, a, k):
            # on_cancel / on_timeout: user code, returns a TaskResult or None
            r = T.new_symbolic(I2, "TaskResult", f"user_result{T._counter(I2, 'ures_n')}")
            I2.st.emit("user_code", what="task hook")
            return SOpt(r, fresh_bool("hook_returns_none"))

        rec.fields["on_cancel"] = SModel(opt_result, None, "Task.on_cancel")
        rec.fields["on_timeout"] = SModel(opt_result, None, "Task.on_timeout")
        rec.fields["get_dynamic_timeout"] = SModel(lambda I2, a, k: SInt(fresh_int("dyn_timeout")), None, "RetryableTask.get_dynamic_timeout")
        rec.fields["get_dynamic_backoff_period"] = SModel(lambda I2, a, k: SInt(fresh_int("dyn_backoff")), None, "RetryableTask.get_dynamic_backoff_period")
        rec.meta["hasattr:on_cancel"] = fresh_bool("has_on_cancel")
        rec.meta["hasattr:on_timeout"] = fresh_bool("has_on_timeout")
        return impl

    def resolve_task(I, a, k):
        if I.st.choose("task_type_not_found"):
            T.raise_exc(I, "TaskNotFoundError", "stabilize.tasks.registry")
        return task_impl(I, "task_impl")

    reg.contracts[RT + "execution:resolve_task"] = resolve_task

    def execute_with_timeout(I, a, k):
        """Runs user code once.  Returns any TaskResult or raises: timeout, verification errors, or any exception."""
        I.st.emit("task_execute", task=a[0], stage=a[1])
        if I.st.choose("task_raises"):
            if I.st.choose("task_timeout"):
                T.raise_exc(I, "TaskTimeoutError")
            raise PyRaise(new_exception(I))
        n = T._counter(I, "res_n")
        return T.new_symbolic(I, "TaskResult", f"result{n}")

    reg.contracts[RT + "execution:execute_with_timeout"] = execute_with_timeout

    def verify_task_outputs(I, a, k):
        if I.st.choose("verification_raises"):
            if I.st.choose("verification_transient"):
                e = new_exception(I, "transient_verification")
                rec = I.st.objs[e.oid]
                rec.cls = "TransientVerificationError"
                rec.ci = I.index.find_class("TransientVerificationError")
                rec.meta["transient"] = TRUE
                I.st.emit("attempt_failed", transient=True, what="TransientVerificationError")
                raise PyRaise(e)
            T.raise_exc(I, "VerificationError", "stabilize.errors")
        return SNone

    reg.contracts[RT + "verification:verify_task_outputs"] = verify_task_outputs

    def is_transient(I, a, k):
        e = a[0]
        rec = I.st.objs[e.oid]
        if "transient" not in rec.meta:
            rec.meta["transient"] = fresh_bool("is_transient")
        return SBool(rec.meta["transient"])

    reg.contracts["stabilize.errors.utils:is_transient"] = is_transient
    reg.contracts["stabilize.errors.utils:truncate_error"] = lambda I, a, k: I.ops.opaque_str("truncated")

    def classify_error(I, a, k):
        o = T.new_model_obj(I, "ErrorCode", "error_code", open=True)
        I.st.objs[o.oid].fields["value"] = I.ops.opaque_str("error_code")
        return o

    reg.contracts["stabilize.error_codes:classify_error"] = classify_error

    def finalizers(I, a, k):
        o = T.new_model_obj(I, "FinalizerRegistry", "finalizers", open=True)

        def execute(I2, a2, k2):
            I2.st.emit("user_code", what="finalizers")
            return I2.ops.new_conc_list([])

        I.st.objs[o.oid].fields["execute"] = SModel(execute, None, "FinalizerRegistry.execute")
        return o

    reg.contracts["stabilize.finalizers:get_finalizer_registry"] = finalizers

    # metrics / cancellation tokens / locks: effect-free for the properties at hand
    def cm(I, a, k):
        o = T.new_model_obj(I, "$noop_cm", "cm")
        I.st.objs[o.oid].meta["enter"] = lambda I2, c: SNone
        I.st.objs[o.oid].meta["exit"] = lambda I2, c, exc: False
        return o

    reg.ctors["Timer"] = cm
    reg.contracts["stabilize.resilience.cancellation:register_token"] = lambda I, a, k: SNone
    reg.contracts["stabilize.resilience.cancellation:unregister_token"] = lambda I, a, k: SNone
    reg.externals["threading:Lock"] = lambda I, a, k: SOpaque("lock")
    reg.externals["threading:RLock"] = lambda I, a, k: SOpaque("lock")
    reg.methods[("TimeoutManager", "get_task_timeout")] = lambda I, a, k: SInt(fresh_int("timeout"))
    reg.methods[("ExponentialDelay", "for_attempt")] = lambda I, a, k: SFloat(z3.Real(fresh_name("delay")))

    def td_total_seconds(I, a, k):
        return SFloat(z3.ToReal(I.ops.as_int(a[0])) / 1000)

    reg.int_methods = {"total_seconds": td_total_seconds}

    # resilient_circuit retry policy used as decorator: invoke once; a handled failure is either re-raised as
    # RetryLimitReached (cause = the failure) or escapes unchanged.  Re-invocations re-run the same transaction body
    # after a rollback and are not modelled (assumption listed).
    def retry_policy(I, a, k):
        pol = T.new_model_obj(I, "RetryWithBackoffPolicy", "retry_policy")

        def decorate(I2, a2, k2):
            func = a2[1]

            def wrapper(I3, a3, k3):
                try:
                    return I3.call(func, list(a3), dict(k3))
                except PyRaise as pr:
                    if I3.st.choose("retry_limit_reached"):
                        oid = I3.st.new_id()
                        I3.st.objs[oid] = ObjRec("RetryLimitReached", None, {"args": STuple([]), "__cause__": pr.exc}, {"exception": True})
                        raise PyRaise(SObj(oid))
                    raise

            return SModel(wrapper, None, "retry_wrapper")

        I.st.objs[pol.oid].meta["call"] = decorate
        return pol

    reg.externals["resilient_circuit:RetryWithBackoffPolicy"] = retry_policy
    reg.externals["resilient_circuit:ExponentialDelay"] = lambda I, a, k: T.new_model_obj(I, "ExponentialDelay", "backoff")
