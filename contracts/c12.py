"""C12 -- see DESIGN.md section 4, C12."""
from . import handlers, replayunits, sqlunits

LEVEL = "other"
EXPLANATION = "trace obligations of the real handlers (layer L2) selected by the prefix C12/"
ASSUMPTIONS = []
TRUSTED = []


def units(tier):
    return replayunits.units_for("C12") + sqlunits.units_for("C12") + handlers.units_for("C12")
