"""C12 -- see DESIGN.md section 4, C12."""
from . import handlers, replayunits, sqlunits

LEVEL = "other"
EXPLANATION = "trace obligations of the real handlers (layer L2) selected by the prefix C12/"
ASSUMPTIONS = []
TRUSTED = []


def units(tier):
    return replayunits.units_for("C12") + sqlunits.units_for("C12") + handlers.units_for("C12")


def extras(tier, seed):
    from pyvc.bounded import run_bounded

    # cross-check of C12/event-store/get_events_for_workflow on a real database file (bounded, not counted as proved)
    return [run_bounded("C12", "c12_event_store.py", "C12/bounded/all-events-of-the-workflow-returned", tier, seed),
            # rebuild as of p = fold of the prefix; snapshot + later events = full replay; one replayer / snapshot store across queries
            run_bounded("C12", "c12_rebuild.py", "C12/bounded/rebuild-equals-prefix-fold", tier, seed)]
