"""C12 -- see DESIGN.md section 4, C12."""
from . import handlers, sqlunits

LEVEL = "other"
EXPLANATION = "trace obligations of the real handlers (layer L2) selected by the prefix C12/"
ASSUMPTIONS = []
TRUSTED = []


def units(tier):
    return sqlunits.units_for("C12") + handlers.units_for("C12")
