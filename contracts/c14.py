"""C14 -- see DESIGN.md section 4, C14."""
from . import handlers, sqlunits

LEVEL = "proof"
EXPLANATION = "trace obligations of the real handlers (layer L2) selected by the prefix C14/"
ASSUMPTIONS = []
TRUSTED = []


def units(tier):
    return sqlunits.units_for("C14") + handlers.units_for("C14")
