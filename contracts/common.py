"""Shared pieces of the sidecar contracts."""
from pyvc.registry import Registry

STATUS_NAMES = {
    "S": "stabilize.models.status:WorkflowStatus",
    "Phase": "stabilize.dag.readiness:PredicatePhase",
    "JoinType": "stabilize.models.stage.enums:JoinType",
    "SplitType": "stabilize.models.stage.enums:SplitType",
    "Owner": "stabilize.models.stage.enums:SyntheticStageOwner",
}

# Written from the *meaning* of the two flags of a status (finished / blocks downstream), independently of the
# frozensets in models/status.py, so that editing a frozenset is noticed.
CONT = "(S.SUCCEEDED, S.FAILED_CONTINUE, S.SKIPPED, S.REDIRECT)"
HALT = "(S.TERMINAL, S.CANCELED, S.STOPPED)"
COMPLETE = "(S.SUCCEEDED, S.FAILED_CONTINUE, S.SKIPPED, S.TERMINAL, S.CANCELED, S.STOPPED)"


def base_registry() -> Registry:
    from contracts import assumed_stdlib

    r = Registry()
    assumed_stdlib.install(r)
    return r
