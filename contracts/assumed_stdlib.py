"""Assumed contracts for the standard library and third-party calls (unchecked; listed in evidence when used)."""
import z3

from pyvc.values import SBool, SFloat, SInt, SNone, SObj, SOpaque, SStr, STuple, ObjRec, fresh_int, fresh_name


def install(r):
    @r.ext("time:time", "time:monotonic")
    def _time(I, a, k):
        t = z3.Real(fresh_name("now"))
        I.st.assume(t >= 0)
        return SFloat(t)

    @r.ext("datetime:datetime.now", "datetime:datetime.utcnow")
    def _now(I, a, k):
        t = fresh_int("now")
        I.st.assume(t >= 0)
        return SInt(t)

    @r.ext("datetime:timedelta")
    def _timedelta(I, a, k):
        # durations are integers (an abstract number of time units); only non-negativity of sums matters
        f = z3.Function("timedelta", z3.IntSort(), z3.IntSort())
        tot = z3.IntVal(0)
        for v in list(a) + list(k.values()):
            try:
                tot = tot + z3.ToInt(I.ops.as_real(v) * 1000)
            except Exception:
                tot = tot + fresh_int("td")
        return SInt(tot)

    @r.ext("ulid:ULID", "uuid:uuid4")
    def _ulid(I, a, k):
        return I.ops.opaque_str("ulid")

    @r.ext("logging:getLogger")
    def _get_logger(I, a, k):
        return SOpaque("logger")

    @r.ext("weakref:ref")
    def _weakref(I, a, k):
        return a[0]

    @r.ext("copy:copy")
    def _copy(I, a, k):
        v = a[0]
        if isinstance(v, SObj):
            rec = I.st.objs[v.oid]
            oid = I.st.new_id()
            I.st.objs[oid] = ObjRec(rec.cls, rec.ci, dict(rec.fields), {kk: vv for kk, vv in rec.meta.items() if kk != "writes"})
            if rec.meta.get("symbolic"):
                # materialise all declared fields first so that the copy shares them
                if rec.ci is not None:
                    for f in I.index.all_fields(rec.ci):
                        if f not in rec.fields:
                            I.obj_getattr(v, f)
                    I.st.objs[oid].fields = dict(rec.fields)
            return SObj(oid)
        from pyvc.values import Unsupported

        raise Unsupported("copy.copy of a non-object")
