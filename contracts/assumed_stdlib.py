"""Assumed contracts for the standard library and third-party calls (unchecked; listed in evidence when used)."""
import z3

from pyvc.values import SBool, SFloat, SInt, SNone, SObj, SOpaque, SStr, STuple, ObjRec, fresh_int, fresh_name


def install(r):
    @r.ext("time:time", "time:monotonic")
    def _time(I, a, k):
        t = z3.Real(fresh_name("now"))
        I.st.assume(t >= 0)
        return SFloat(t)

    @r.ext("datetime:datetime.now", "datetime:datetime.utcnow")
    def _now(I, a, k):
        t = fresh_int("now")
        I.st.assume(t >= 0)
        I.st.ghost["py_nows"] = list(I.st.ghost.get("py_nows", [])) + [t]
        return SInt(t)

    @r.ext("datetime:datetime.fromisoformat")
    def _fromiso(I, a, k):
        # timestamps are integers and isoformat() is modelled as the identity on them (order-isomorphic text): the inverse
        from pyvc.values import VAL, SVal

        v = a[0]
        if isinstance(v, SVal):
            return SInt(VAL.vi(v.t))
        if isinstance(v, SInt):
            return v
        return SInt(fresh_int("parsed_time"))

    @r.ext("datetime:timedelta")
    def _timedelta(I, a, k):
        # durations are integers (an abstract number of time units); only non-negativity of sums matters
        f = z3.Function("timedelta", z3.IntSort(), z3.IntSort())
        # value = integer milliseconds; positional order and keyword names as in datetime.timedelta
        unit_ms = {"days": 86400000, "seconds": 1000, "microseconds": None, "milliseconds": 1, "minutes": 60000, "hours": 3600000, "weeks": 604800000}
        names = ["days", "seconds", "microseconds", "milliseconds", "minutes", "hours", "weeks"]
        parts = list(zip(names, a)) + list(k.items())
        tot = z3.IntVal(0)
        for nm, v in parts:
            try:
                if unit_ms.get(nm) is None:
                    tot = tot + z3.ToInt(I.ops.as_real(v) / 1000)
                else:
                    tot = tot + z3.ToInt(I.ops.as_real(v) * unit_ms[nm])
            except Exception:
                tot = tot + fresh_int("td")
        return SInt(tot)

    json_dumps = z3.Function("json_dumps", __import__("pyvc.values", fromlist=["VAL"]).VAL, z3.IntSort())
    json_loads = z3.Function("json_loads", z3.IntSort(), __import__("pyvc.values", fromlist=["VAL"]).VAL)

    @r.ext("json:dumps")
    def _dumps(I, a, k):
        # assumed: json.dumps is a function of the value, and json.loads inverts it on JSON-representable values
        v = I.ops.to_val(a[0])
        t = json_dumps(v)
        I.st.assume(json_loads(t) == v)
        I.st.assume(t != 0)
        I.st.assume(z3.Function("json_valid", z3.IntSort(), z3.BoolSort())(t))
        I.st.ghost.setdefault("json_dumped", []).append((t, a[0]))
        return SStr(t)

    @r.ext("json:loads")
    def _loads(I, a, k):
        from pyvc.values import SVal

        s = a[0]
        t = I.ops.key_term(s) if not isinstance(s, SStr) else s.t
        ok = z3.Function("json_valid", z3.IntSort(), z3.BoolSort())
        for t_k, v_k in I.st.ghost.get("json_dumped", []):
            # loads(dumps(v)) = v for JSON-representable v (assumed): recover the very container that was dumped
            if I.st.valid(t == t_k):
                from pyvc.values import SDict as _SD

                return I.ops.copy_dict(v_k) if isinstance(v_k, _SD) else v_k
        if I.st.branch(z3.Not(ok(t))):
            I.raise_builtin("JSONDecodeError", "invalid json")
        return SVal(json_loads(t))

    @r.ext("dataclasses:fields")
    def _dc_fields(I, a, k):
        # dataclasses.fields(cls): read from the real class definitions (MRO order); Field.type is the annotation text when
        # the defining module has `from __future__ import annotations`, otherwise outside the modelled subset.
        import ast as _ast

        from pyvc.values import SClass
        from pyvc.values import Unsupported

        c = a[0]
        ci = c.ci if isinstance(c, SClass) else I.class_of(c)
        if ci is None:
            raise Unsupported("dataclasses.fields of an unknown class")
        out = []
        for name, (ann, _default, owner) in I.index.all_fields(ci).items():
            if isinstance(ann, _ast.Subscript) and _ast.unparse(ann.value).endswith("ClassVar"):
                continue
            mod = I.index.modules[owner.module]
            future = any(isinstance(n, _ast.ImportFrom) and n.module == "__future__" and any(x.name == "annotations" for x in n.names) for n in mod.tree.body)
            oid = I.st.new_id()
            flds = {"name": I.ops.lit(name)}
            if future and ann is not None:
                flds["type"] = I.ops.lit(_ast.unparse(ann))
            I.st.objs[oid] = ObjRec("Field", None, flds, {"name": f"Field({name})"})
            out.append(SObj(oid))
        return I.ops.new_conc_list(out)

    @r.ext("ulid:ULID", "uuid:uuid4")
    def _ulid(I, a, k):
        v = I.ops.opaque_str("ulid")
        I.st.ghost.setdefault("fresh_ids", []).append(v.t)  # assumed unique: generated here, equal to nothing that existed before
        return v

    @r.ext("logging:getLogger")
    def _get_logger(I, a, k):
        return SOpaque("logger")

    @r.ext("threading:Lock", "threading:RLock")
    def _lock(I, a, k):
        return SOpaque("lock")  # single-threaded unit: a lock is an opaque token (concurrency is outside this family's reach)

    @r.ext("weakref:ref")
    def _weakref(I, a, k):
        return a[0]

    @r.ext("copy:copy")
    def _copy(I, a, k):
        v = a[0]
        if isinstance(v, SObj):
            rec = I.st.objs[v.oid]
            oid = I.st.new_id()
            I.st.objs[oid] = ObjRec(rec.cls, rec.ci, dict(rec.fields), {kk: vv for kk, vv in rec.meta.items() if kk != "writes"})
            if rec.meta.get("symbolic"):
                # materialise all declared fields first so that the copy shares them
                if rec.ci is not None:
                    for f in I.index.all_fields(rec.ci):
                        if f not in rec.fields:
                            I.obj_getattr(v, f)
                    I.st.objs[oid].fields = dict(rec.fields)
            return SObj(oid)
        from pyvc.values import Unsupported

        raise Unsupported("copy.copy of a non-object")
