"""C05 -- see DESIGN.md section 4, C05."""
from . import handlers, sqlunits

LEVEL = "other"
EXPLANATION = "trace obligations of the real handlers (layer L2) selected by the prefix C05/"
ASSUMPTIONS = []
TRUSTED = []


def units(tier):
    return sqlunits.units_for("C05") + handlers.units_for("C05")
