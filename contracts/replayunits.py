"""C12: contracts of the real EventReplayer and of the recorder methods that feed it."""
import z3

from pyvc import trace as T
from pyvc.ops import FALSE, TRUE, val_truthy
from pyvc.values import ENUMS, VAL, ObjRec, SBool, SDict, SElem, SEnum, SInt, SModel, SNone, SObj, SOpt, SStr, fresh_bool, fresh_int
from pyvc.verify import Obl, Unit

from .common import STATUS_NAMES, base_registry

R = "stabilize.events.replay:EventReplayer"


def replay_registry():
    reg = base_registry()

    def migrator(I, a, k):
        m = T.new_model_obj(I, "EventMigrator", "migrator")
        I.st.objs[m.oid].fields["migrate"] = SModel(lambda I2, a2, k2: a2[0], None, "migrate")  # no migrations registered (default)
        return m

    reg.contracts["stabilize.events.migration:get_event_migrator"] = migrator
    reg.contracts["stabilize.events.replay:get_event_migrator"] = migrator
    return reg


# ---- rebuild_workflow_state: which events are folded
def _make_replayer(ctx):
    I = ctx.I
    ci = I.index.find_class("EventReplayer")
    oid = I.st.new_id()
    rec = ObjRec(ci.name, ci, {}, {"name": "replayer", "symbolic": True})
    I.st.objs[oid] = rec
    es = T.new_model_obj(I, "EventStore", "event_store")

    def get_events(I2, a2, k2):
        from pyvc.typesys import fresh_value

        evs = fresh_value(I2.st, I2.typer, ("list", ("obj", "Event")), "events", det=True)
        I2.st.emit("events_query", workflow_id=a2[0], from_sequence=a2[1] if len(a2) > 1 else SInt(z3.IntVal(0)), result=evs)
        # contract of get_events_for_workflow (its SQL is checked separately): every returned event has sequence > from
        return evs

    I.st.objs[es.oid].fields["get_events_for_workflow"] = SModel(get_events, None, "get_events_for_workflow")
    rec.fields["_event_store"] = es
    ss = T.new_model_obj(I, "SnapshotStore", "snapshot_store")

    def latest(I2, a2, k2):
        snap = T.new_symbolic(I2, "Snapshot", "snapshot")
        I2.st.objs[snap.oid].meta["open"] = True
        I2.st.objs[snap.oid].fields["sequence"] = SInt(z3.Int("snapshot_sequence"))
        I2.st.objs[snap.oid].fields["entity_id"] = SStr(z3.Int("snapshot_entity"))
        I2.st.emit("snapshot_query", result=snap)
        return SOpt(snap, z3.Bool("no_snapshot"))

    I.st.objs[ss.oid].fields["get_latest_snapshot"] = SModel(latest, None, "get_latest_snapshot")
    rec.fields["_snapshot_store"] = SOpt(ss, z3.Bool("no_snapshot_store"))
    return SObj(oid)


def _rebuild_registry():
    reg = replay_registry()
    reg.contracts["*._apply_event"] = lambda I, a, k: (I.st.emit("apply", state=a[1], event=a[2]), SNone)[1]

    def load(I, a, k):
        st_ = T.new_symbolic(I, "WorkflowState", "state_from_snapshot")
        I.st.emit("load_snapshot", snapshot=a[1], state=st_)
        return st_

    reg.contracts["*._load_state_from_snapshot"] = load
    reg.contracts["stabilize.events.replay:WorkflowState.to_dict"] = lambda I, a, k: I.ops.new_dict()
    return reg


def _rebuild_post(ctx):
    """C12: rebuild(w, k) folds exactly the events with sequence <= k (all of them for k = None), in the order the store
    returns them, starting from the empty state -- or from the latest snapshot, and then only the events with sequence >
    snapshot.sequence, when a snapshot exists that is not newer than k."""
    I = ctx.I
    if ctx.exc is not None:
        return [("no-exception", FALSE)]
    asof = ctx.args["as_of_sequence"]
    asof_none = I.ops.is_none(asof)
    k = I.ops.strip_opt(asof).t
    qs = [e for e in ctx.st.effects if e.kind == "events_query"]
    goals = [("one-events-query", z3.BoolVal(len(qs) == 1))]
    if len(qs) != 1:
        return goals
    q = qs[0]
    loads = [e for e in ctx.st.effects if e.kind == "load_snapshot"]
    snapseq = z3.Int("snapshot_sequence")
    usable = z3.And(z3.Not(z3.Bool("no_snapshot_store")), z3.Not(z3.Bool("no_snapshot")), z3.Or(asof_none, snapseq <= k))
    frm = I.ops.as_int(q.data["from_sequence"])
    if loads:
        goals.append(("snapshot-only-when-not-newer-than-as-of", usable))
        goals.append(("resumes-strictly-after-snapshot", frm == snapseq))
    else:
        goals.append(("full-replay-from-zero", frm == 0))
        goals.append(("snapshot-not-ignored-without-reason", z3.Not(usable)) if False else ("from-zero-is-sound", TRUE))
    goals.append(("same-workflow", I.ops.eq(q.data["workflow_id"], ctx.args["workflow_id"])))
    evs = q.data["result"]
    fe = [e for e in ctx.st.effects if e.kind == "foreach" and e.data["lid"] == evs.lid and any(b.kind == "apply" for b in e.data["body"])]
    j = fresh_int("ej")
    n = I.ops.list_len(evs)
    seq = I._elem_array(evs.lid, "sequence", z3.IntSort())
    applied = z3.Or(*[z3.And(j < e.data["hi"], z3.substitute(e.data["cond"], (e.data["g"], j))) for e in fe]) if fe else FALSE
    want = z3.Or(asof_none, z3.Select(seq, j) <= k)
    goals.append(("applies-exactly-the-events-up-to-as-of", z3.Implies(z3.And(j >= 0, j < n), applied == want)))
    goals.append(("single-pass-in-store-order", z3.BoolVal(len(fe) <= 1)))
    for e in fe:
        b = [x for x in e.data["body"] if x.kind == "apply"][0]
        goals.append(("applies-the-iterated-event", z3.BoolVal(isinstance(b.data["event"], SElem) and b.data["event"].lid == evs.lid)))
        st_ = b.data["state"]
        if loads:
            goals.append(("folds-into-snapshot-state", z3.BoolVal(isinstance(st_, SObj) and st_.oid == loads[0].data["state"].oid)))
    return goals


# ---- _apply_stage_event / _apply_task_event: per-event transition of the replayed state
def _entity_state(ctx, kind):
    """state with one pre-existing entry (symbolic id, symbolic status) in state.stages / state.tasks"""
    I = ctx.I
    ci = I.index.find_class("WorkflowState")
    oid = I.st.new_id()
    rec = ObjRec(ci.name, ci, {}, {"name": "state"})
    I.st.objs[oid] = rec
    entry = I.ops.new_dict([(I.ops.lit("id"), SStr(z3.Int("existing_id"))), (I.ops.lit("status"), SStr(z3.Int("existing_status")))])
    d = I.ops.new_dict([(SStr(z3.Int("existing_id")), entry)])
    rec.fields["stages"] = d if kind == "stage" else I.ops.new_dict()
    rec.fields["tasks"] = d if kind == "task" else I.ops.new_dict()
    rec.fields["context"] = I.ops.new_dict()
    rec.fields["workflow_id"] = SStr(z3.Int("wf_id"))
    rec.fields["status"] = SOpt(SStr(z3.Int("wf_status")), z3.Bool("wf_status?"))
    for f in ("application", "name", "start_time", "end_time"):
        rec.fields[f] = SNone
    ctx.extra["entry"] = entry
    ctx.extra["entries"] = d
    return SObj(oid)


SPEC = {
    "stage": {"STAGE_STARTED": ("RUNNING", None), "STAGE_COMPLETED": (None, "SUCCEEDED"), "STAGE_FAILED": (None, "TERMINAL"),
              "STAGE_SKIPPED": ("SKIPPED", None), "STAGE_CANCELED": ("CANCELED", None)},
    "task": {"TASK_STARTED": ("RUNNING", None), "TASK_COMPLETED": (None, "SUCCEEDED"), "TASK_FAILED": (None, "TERMINAL")},
}


def _apply_entity_post(kind):
    def check(ctx):
        """the entry of event.entity_id gets the status the event states: fixed for started/skipped/canceled, data.status
        (default SUCCEEDED / TERMINAL) for completed / failed; any other event kind leaves the status; other entries untouched."""
        I = ctx.I
        if ctx.exc is not None:
            return [("no-exception", FALSE)]
        ev = ctx.args["event"]
        et = I.getattr(ev, "event_type").t
        eid = I.getattr(ev, "entity_id")
        entries = ctx.extra["entries"]
        has, cur = I.ops.dict_get(entries, eid)
        goals = [("entry-exists", has)]
        if not isinstance(cur, SDict):
            return goals + [("entry-is-dict", FALSE)]
        hs, stv = I.ops.dict_get(cur, I.ops.lit("status"))
        data = I.getattr(ev, "data")
        dh, dv = I.ops.dict_get(data, I.ops.lit("status"))
        was_existing = I.ops.eq(eid, SStr(z3.Int("existing_id")))
        etc = I.index.find_class("EventType")
        stv_val = I.ops.to_val(stv) if stv is not SNone else VAL.VNone
        handled = []
        for name, (fixed, default) in SPEC[kind].items():
            m = I.enum_member(etc, name).t
            handled.append(et == m)
            if fixed is not None:
                goals.append((f"{name}.status", z3.Implies(et == m, z3.And(hs, stv_val == VAL.VStr(I.ops.lit(fixed).t)))))
            else:
                want = z3.If(dh, I.ops.to_val(dv), VAL.VStr(I.ops.lit(default).t))
                goals.append((f"{name}.status", z3.Implies(et == m, z3.And(hs, stv_val == want))))
        goals.append(("other-kinds-keep-status", z3.Implies(z3.And(z3.Not(z3.Or(*handled)), was_existing),
                                                            z3.And(hs, stv_val == VAL.VStr(z3.Int("existing_status"))))))
        return goals
    return check


WF_SPEC = {"WORKFLOW_STARTED": ("RUNNING", None), "WORKFLOW_COMPLETED": (None, "SUCCEEDED"), "WORKFLOW_FAILED": (None, "TERMINAL"),
           "WORKFLOW_CANCELED": ("CANCELED", None), "WORKFLOW_PAUSED": ("PAUSED", None), "WORKFLOW_RESUMED": ("RUNNING", None)}


def _apply_workflow_post(ctx):
    """the replayed workflow status is the one the event states: fixed for started / canceled / paused / resumed, data.status
    (default SUCCEEDED / TERMINAL) for completed / failed; any other workflow event leaves the status; the stage and task
    entries are not touched."""
    I = ctx.I
    if ctx.exc is not None:
        return [("no-exception", FALSE)]
    ev, state = ctx.args["event"], ctx.args["state"]
    et = I.getattr(ev, "event_type").t
    etc = I.index.find_class("EventType")
    data = I.getattr(ev, "data")
    dh, dv = I.ops.dict_get(data, I.ops.lit("status"))
    cur = I.ops.to_val(I.getattr(state, "status"))
    old = z3.If(z3.Bool("wf_status?"), VAL.VNone, VAL.VStr(z3.Int("wf_status")))
    goals, handled = [], []
    for name, (fixed, default) in WF_SPEC.items():
        m = I.enum_member(etc, name).t
        handled.append(et == m)
        want = VAL.VStr(I.ops.lit(fixed).t) if fixed is not None else z3.If(dh, I.ops.to_val(dv), VAL.VStr(I.ops.lit(default).t))
        goals.append((f"{name}.status", z3.Implies(et == m, cur == want)))
    goals.append(("other-kinds-keep-status", z3.Implies(z3.Not(z3.Or(*handled)), cur == old)))
    for f in ("stages", "tasks"):
        d = I.getattr(state, f)
        rec = I.st.dicts[d.did]
        goals.append((f"{f}-untouched", z3.BoolVal(rec.kind == "conc" and not rec.items)))
    return goals


# ---- recorder: the status written into the event is the entity's status at call time
def _recorder_registry():
    reg = replay_registry()

    def create_event(kind):
        def f(I, a, k):
            I.st.emit("create_event", kind=kind, kwargs=dict(k))
            return T.new_symbolic(I, "Event", "event")
        return f

    for fn in ("create_stage_event", "create_task_event", "create_workflow_event"):
        reg.contracts["stabilize.events.base:" + fn] = create_event(fn)
    reg.contracts["*._record"] = lambda I, a, k: a[1]
    reg.contracts["stabilize.events.recorder.context:get_event_metadata"] = lambda I, a, k: T.new_model_obj(I, "EventMetadata", "metadata")
    reg.contracts["*.get_event_metadata"] = reg.contracts["stabilize.events.recorder.context:get_event_metadata"]
    reg.props[("StageExecution", "execution")] = T._stage_execution
    reg.type_overrides[("StageExecution", "_execution")] = ("obj", "Workflow")
    reg.props[("TaskExecution", "stage")] = lambda I, obj: SNone
    return reg


def _recorded_status(expect_type, entity_param):
    def check(ctx):
        I = ctx.I
        if ctx.exc is not None:
            return [("no-exception", FALSE)]
        ce = [e for e in ctx.st.effects if e.kind == "create_event"]
        goals = [("one-event", z3.BoolVal(len(ce) == 1))]
        if len(ce) != 1:
            return goals
        kw = ce[0].data["kwargs"]
        etc = I.index.find_class("EventType")
        goals.append(("event-type", kw["event_type"].t == I.enum_member(etc, expect_type).t))
        ent = ctx.args[entity_param]
        data = kw["data"]
        has, v = I.ops.dict_get(data, I.ops.lit("status"))
        name = I.enum_getattr(SEnum("WorkflowStatus", I.getattr(ent, "status").t), "name")
        goals.append(("data-status-is-entity-status", z3.And(has, I.ops.eq(v, name))))
        idk = {"stage": "stage_id", "task": "task_id", "workflow": "workflow_id"}[entity_param]
        if idk in kw:
            goals.append(("entity-id", I.ops.eq(kw[idk], I.getattr(ent, "id"))))
        return goals
    return check


def _snapshot_rt_run(ctx):
    """state.to_dict() is what a snapshot stores; _load_state_from_snapshot must give the state back."""
    I = ctx.I
    from pyvc.values import SFunc

    state = T.new_symbolic(I, "WorkflowState", "state")
    ctx.args["state"] = state
    for f in ("workflow_id", "status", "application", "name", "start_time", "end_time", "context", "stages", "tasks"):
        I.obj_getattr(state, f)
    for f in ("start_time", "end_time"):  # a datetime object is always truthy: its integer encoding is not 0
        v = I.getattr(state, f)
        I.st.assume(z3.Or(I.ops.is_none(v), I.ops.as_int(I.ops.strip_opt(v)) != 0))
    d = I.call(I.getattr(state, "to_dict"), [], {})
    snap = T.new_model_obj(I, "Snapshot", "snapshot")
    I.st.objs[snap.oid].fields.update({"entity_id": I.getattr(state, "workflow_id"), "state": d, "sequence": SInt(z3.Int("snapshot_sequence"))})
    rep = T.new_symbolic(I, "EventReplayer", "replayer")
    return I.call(I.getattr(rep, "_load_state_from_snapshot"), [snap], {})


def _snapshot_rt_post(ctx):
    I = ctx.I
    if ctx.exc is not None:
        return [("no-exception", FALSE)]
    a, b = ctx.args["state"], ctx.result
    goals = []
    for f in ("workflow_id", "status", "application", "name", "start_time", "end_time"):
        goals.append((f"field.{f}", I.ops.eq(I.getattr(a, f), I.getattr(b, f))))
    for f in ("context", "stages", "tasks"):
        goals.append((f"field.{f}", I.ops.to_val(I.getattr(a, f)) == I.ops.to_val(I.getattr(b, f))))
    return goals


def units():
    out = []
    out.append(Unit(prop="*", name="L3/EventReplayer.snapshot-state-roundtrip", func=R + "._load_state_from_snapshot", params=[],
                    names=STATUS_NAMES, registry=replay_registry(), replayable=False, run=_snapshot_rt_run,
                    obligations=[Obl("C12/fold/snapshot-state-roundtrip", _snapshot_rt_post, when="any", scenario="d8_snapshot_drops_times.py")]))
    out.append(Unit(prop="*", name="L3/EventReplayer.rebuild_workflow_state", func=R + ".rebuild_workflow_state",
                    params=[("workflow_id", ("str",)), ("as_of_sequence", ("opt", ("int",)))], self_type=_make_replayer,
                    names=STATUS_NAMES, registry=_rebuild_registry(), replayable=False,
                    obligations=[Obl("C12/fold/rebuild", _rebuild_post, when="any")]))
    for kind, fn in (("stage", "_apply_stage_event"), ("task", "_apply_task_event")):
        out.append(Unit(prop="*", name=f"L3/EventReplayer.{fn}", func=f"{R}.{fn}",
                        params=[("state", (lambda kd: (lambda ctx: _entity_state(ctx, kd)))(kind)), ("event", ("obj", "Event"))],
                        self_type=("obj", "EventReplayer"), names=STATUS_NAMES, registry=replay_registry(), replayable=False,
                        obligations=[Obl(f"C12/apply/{kind}", _apply_entity_post(kind), when="any")]))
    out.append(Unit(prop="*", name="L3/EventReplayer._apply_workflow_event", func=f"{R}._apply_workflow_event",
                    params=[("state", lambda ctx: _entity_state(ctx, "workflow")), ("event", ("obj", "Event"))],
                    self_type=("obj", "EventReplayer"), names=STATUS_NAMES, registry=replay_registry(), replayable=False,
                    # is_valid(event): a context carried by a workflow event is a mapping (the recorder writes workflow.context)
                    requires=["'context' not in event.data or isinstance(event.data['context'], dict)"],
                    obligations=[Obl("C12/apply/workflow", _apply_workflow_post, when="any")]))
    RS = "stabilize.events.recorder.stage_events:StageEventsMixin."
    RT = "stabilize.events.recorder.task_events:TaskEventsMixin."
    rec_params = dict(names=STATUS_NAMES, registry=_recorder_registry(), replayable=False, all_params=True)
    out.append(Unit(prop="*", name="L3/recorder.record_stage_completed", func=RS + "record_stage_completed", self_type=("obj", "EventRecorder"),
                    params=[("stage", ("obj", "StageExecution"))], obligations=[Obl("C12/recorder/stage_completed", _recorded_status("STAGE_COMPLETED", "stage"), when="any")], **rec_params))
    out.append(Unit(prop="*", name="L3/recorder.record_stage_failed", func=RS + "record_stage_failed", self_type=("obj", "EventRecorder"),
                    params=[("stage", ("obj", "StageExecution")), ("error", ("str",))], obligations=[Obl("C12/recorder/stage_failed", _recorded_status("STAGE_FAILED", "stage"), when="any")], **rec_params))
    out.append(Unit(prop="*", name="L3/recorder.record_task_completed", func=RT + "record_task_completed", self_type=("obj", "EventRecorder"),
                    params=[("task", ("obj", "TaskExecution")), ("workflow_id", ("str",))], obligations=[Obl("C12/recorder/task_completed", _recorded_status("TASK_COMPLETED", "task"), when="any")], **rec_params))
    out.append(Unit(prop="*", name="L3/recorder.record_task_failed", func=RT + "record_task_failed", self_type=("obj", "EventRecorder"),
                    params=[("task", ("obj", "TaskExecution")), ("workflow_id", ("str",)), ("error", ("str",))], obligations=[Obl("C12/recorder/task_failed", _recorded_status("TASK_FAILED", "task"), when="any")], **rec_params))
    RW = "stabilize.events.recorder.workflow_events:WorkflowEventsMixin."
    out.append(Unit(prop="*", name="L3/recorder.record_workflow_completed", func=RW + "record_workflow_completed", self_type=("obj", "EventRecorder"),
                    params=[("workflow", ("obj", "Workflow"))], obligations=[Obl("C12/recorder/workflow_completed", _recorded_status("WORKFLOW_COMPLETED", "workflow"), when="any")], **rec_params))
    out.append(Unit(prop="*", name="L3/recorder.record_workflow_failed", func=RW + "record_workflow_failed", self_type=("obj", "EventRecorder"),
                    params=[("workflow", ("obj", "Workflow")), ("error", ("str",))], obligations=[Obl("C12/recorder/workflow_failed", _recorded_status("WORKFLOW_FAILED", "workflow"), when="any")], **rec_params))
    return out


def units_for(prop):
    out = []
    for u in units():
        u.obligations = [o for o in u.obligations if o.name.startswith(prop + "/")]
        if u.obligations:
            u.prop = prop
            u.name = f"{prop}:{u.name}"
            out.append(u)
    return out
