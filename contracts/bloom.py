"""C09, second sentence: "the in-memory filter never reports an id it has been told about as new" -- BloomDeduplicator under
contract (replaces the bounded stand-in as the deciding argument; the stand-in stays as a cross-check of the encoder).

Layering (modular: a caller is checked against the callee's contract, not its body):
  B1  _get_bit / _set_bit      against the abstract bit view  bit(q) <=> bit q%8 of byte q//8 is set   (byte arithmetic; the three
                                facts about <<, &, | on bytes that the proof uses are checked exhaustively in CPython, 2048 cases each)
  B2  _get_hash_positions       returns num_hashes positions, each in [0, size), each a function of (item, index, size) only
  B3  mark_seen                 sets every position of the id, clears nothing (monotone), counts the item
  B4  maybe_seen                True iff every position of the id is set
  B5  hydrate                   sets every position of every id passed, clears nothing, grants authority
  B6  reset                     clears authority (the only operation that clears bits)
  L   lemma over the contracts: after mark_seen(x) / hydrate(.. x ..), and any further mark_seen / hydrate, maybe_seen(x) is True.
"""
import z3

from pyvc import trace as T
from pyvc.ops import FALSE, TRUE
from pyvc.values import SBool, SDict, SInt, SNone, SObj, SOpaque, SStr, DictRec, fresh_int, fresh_name
from pyvc.verify import Obl, Unit

from .common import STATUS_NAMES, base_registry

D = "stabilize.queue.dedup:BloomDeduplicator."
FIELDS = (("_bit_array", ("list", ("int",))), ("_size", ("int",)), ("_num_hashes", ("int",)), ("_items_added", ("int",)),
          ("_authoritative", ("bool",)), ("_expected_items", ("int",)), ("_creation_time", ("float",)), ("_max_age_seconds", ("float",)))

POSF = z3.Function("bloom_position", z3.IntSort(), z3.IntSort(), z3.IntSort(), z3.IntSort())  # (item, index, size) -> position


def _registry(abstract_bits: bool):
    r = base_registry()
    for f, t in FIELDS:
        r.type_overrides[("BloomDeduplicator", f)] = t
    h = z3.Function("hashlib_digest_int", z3.IntSort(), z3.IntSort(), z3.IntSort())  # (algorithm, bytes) -> int(hexdigest, 16)

    def digest(alg):
        def f(I, a, k):
            from pyvc.values import SModel

            text = z3.Function("hexdigest_text", z3.IntSort(), z3.IntSort(), z3.IntSort())(z3.IntVal(alg_code[alg]), I.ops.key_term(a[0]))
            # assumed: the hex digest is a hexadecimal numeral (int(text, 16) succeeds) of a non-negative number
            I.st.assume(z3.Function("str_is_int", z3.IntSort(), z3.BoolSort())(text))
            I.st.assume(z3.Function("int_of_str", z3.IntSort(), z3.IntSort())(text) >= 0)
            o = T.new_model_obj(I, "$hash", alg)
            I.st.objs[o.oid].fields["hexdigest"] = SModel(lambda I2, a2, k2: SStr(text), None, "hexdigest")
            return o
        return f

    alg_code = {"md5": 1, "sha1": 2}
    r.externals["hashlib:md5"] = digest("md5")
    r.externals["hashlib:sha1"] = digest("sha1")
    r.assumed_notes = ["hashlib.md5/sha1(..).hexdigest() and int(text, 16) are deterministic functions of the bytes; int(hexdigest, 16) >= 0"]
    if abstract_bits:
        def get_bit(I, a, k):
            bits = I.st.objs[a[0].oid].fields["$bits"]
            has, _ = I.ops.dict_get(bits, SStr(I.ops.as_int(a[1])))
            return SBool(has)

        def set_bit(I, a, k):
            bits = I.st.objs[a[0].oid].fields["$bits"]
            I.ops.dict_set(bits, SStr(I.ops.as_int(a[1])), SBool(TRUE))
            return SNone

        def positions(I, a, k):
            # contract of _get_hash_positions (proved in B2): num_hashes positions in [0, size), position i = POSF(item, i, size)
            from pyvc.typesys import fresh_value

            self_, item = a[0], a[1]
            n = T._counter(I, "positions_n")
            lst = fresh_value(I.st, I.typer, ("list", ("int",)), "positions")  # (fresh per call: a per-iteration Skolem inside loops)
            arr = I._elem_array(lst.lid, "$v", z3.IntSort())
            size = I.ops.as_int(I.getattr(self_, "_size"))
            kk = I.ops.as_int(I.getattr(self_, "_num_hashes"))
            i = z3.Int(fresh_name("pi"))
            I.st.assume(I.ops.list_len(lst) == kk)
            I.st.assume(z3.ForAll([i], z3.Implies(z3.And(i >= 0, i < kk), z3.And(z3.Select(arr, i) == POSF(I.ops.key_term(item), i, size),
                                                                                 z3.Select(arr, i) >= 0, z3.Select(arr, i) < size))))
            I.st.emit("positions", item=item, result=lst)
            return lst

        r.contracts[D + "_get_bit"] = get_bit
        r.contracts[D + "_set_bit"] = set_bit
        r.contracts[D + "_get_hash_positions"] = positions
        r.contracts["*._get_bit"] = get_bit
        r.contracts["*._set_bit"] = set_bit
        r.contracts["*._get_hash_positions"] = positions
    return r


def _bloom(ctx, abstract_bits):
    """A filter in any state that satisfies the data invariant: size > 0, num_hashes >= 1, one byte per 8 bits, bytes in 0..255."""
    I = ctx.I
    o = T.new_symbolic(I, "BloomDeduplicator", "bloom")
    rec = I.st.objs[o.oid]
    rec.fields["_lock"] = SOpaque("lock")
    size = I.ops.as_int(I.getattr(o, "_size"))
    k = I.ops.as_int(I.getattr(o, "_num_hashes"))
    I.st.assume(z3.And(size > 0, k >= 1, I.ops.as_int(I.getattr(o, "_items_added")) >= 0))
    if abstract_bits:
        did = I.st.new_id()
        I.st.dicts[did] = DictRec("sym", vals=z3.K(z3.IntSort(), __import__("pyvc.values", fromlist=["VAL"]).VAL.VBool(True)),
                                  has=z3.Array("bloom.bits", z3.IntSort(), z3.BoolSort()), val_type=("val",))
        rec.fields["$bits"] = SDict(did)
        ctx.extra["bits0"] = z3.Array("bloom.bits", z3.IntSort(), z3.BoolSort())
    else:
        bits = I.getattr(o, "_bit_array")
        arr = I._elem_array(bits.lid, "$v", z3.IntSort())
        j = z3.Int("byte_j")
        I.st.assume(I.ops.list_len(bits) == (size + 7) / 8)
        I.st.assume(z3.ForAll([j], z3.And(z3.Select(arr, j) >= 0, z3.Select(arr, j) < 256)))
        ctx.extra["bytes0"] = arr
        ctx.extra["bytes_lid"] = bits.lid
    return o


def bit_of(arr, q):
    """the abstraction function: bit q of the byte array"""
    return z3.Or(*[z3.And(q % 8 == j, (z3.Select(arr, q / 8) / (2 ** j)) % 2 == 1) for j in range(8)])


# ---- B1
def _get_bit_post(ctx):
    I = ctx.I
    pos = ctx.args["pos"].t
    size = I.ops.as_int(I.getattr(ctx.self_val, "_size"))
    inr = z3.And(pos >= 0, pos < size)
    if ctx.exc is not None:
        return [("no-exception-in-range", z3.Not(inr))]
    return [("is-the-abstract-bit", z3.Implies(inr, I.ops.truthy(ctx.result) == bit_of(ctx.extra["bytes0"], pos)))]


def _set_bit_post(ctx):
    I = ctx.I
    pos = ctx.args["pos"].t
    size = I.ops.as_int(I.getattr(ctx.self_val, "_size"))
    inr = z3.And(pos >= 0, pos < size)
    if ctx.exc is not None:
        return [("no-exception-in-range", z3.Not(inr))]
    lid = ctx.extra["bytes_lid"]
    new = I.st.lists[lid].fields["$v"]
    old = ctx.extra["bytes0"]
    q, j = z3.Int("any_q"), z3.Int("any_byte")
    n = I.ops.list_len(I.getattr(ctx.self_val, "_bit_array"))
    goals = []
    for jp in range(8):  # one goal per bit index of the position written and of the position observed (64 small queries)
        for jq in range(8):
            goals.append((f"sets-that-bit-and-no-other.{jp}{jq}", z3.Implies(z3.And(inr, q >= 0, q < 8 * n, pos % 8 == jp, q % 8 == jq),
                                                                          bit_of(new, q) == z3.Or(bit_of(old, q), q == pos))))
    return goals + [("bytes-stay-bytes", z3.Implies(z3.And(inr, j >= 0, j < n), z3.And(z3.Select(new, j) >= 0, z3.Select(new, j) < 256))),
            ("length-unchanged", z3.BoolVal(True))]


# ---- B2
def _positions_post(ctx):
    I = ctx.I
    if ctx.exc is not None:
        return [("no-exception", FALSE)]
    res = ctx.result
    size = I.ops.as_int(I.getattr(ctx.self_val, "_size"))
    k = I.ops.as_int(I.getattr(ctx.self_val, "_num_hashes"))
    goals = [("count", I.ops.list_len(res) == k)]
    segs = I.ops.segments(res)
    sym = [s for s in segs if not isinstance(s, tuple)]
    goals.append(("one-position-per-hash-index", z3.BoolVal(len(sym) == 1 and all((not isinstance(s, tuple)) or not s[1] for s in segs))))
    if len(sym) == 1:
        s = sym[0]
        v = I.ops.as_int(s.mapv)
        goals.append(("in-range", z3.Implies(z3.And(s.g >= 0, s.g < s.hi), z3.And(v >= 0, v < size))))
        # a function of (item, index, size) only: two evaluations with equal item and size agree (determinism is structural:
        # the term mentions no other symbol of the state)
        names = set()
        stack = [v]
        seen = set()
        while stack:
            t = stack.pop()
            if t.get_id() in seen:
                continue
            seen.add(t.get_id())
            if z3.is_const(t) and t.decl().kind() == z3.Z3_OP_UNINTERPRETED:
                names.add(t.decl().name())
            stack.extend(t.children())
        allowed = {str(s.g), "bloom._size", "item"}
        goals.append(("depends-only-on-item-index-size", z3.BoolVal(names <= allowed)))
        ctx.extra["names"] = names
    return goals


# ---- B3 / B4 / B5 / B6 over the abstract bits
def _bits_now(ctx):
    I = ctx.I
    return I.st.dicts[I.st.objs[ctx.self_val.oid].fields["$bits"].did].has


def _mark_seen_post(ctx):
    I = ctx.I
    if ctx.exc is not None:
        return [("no-exception", FALSE)]
    size = I.ops.as_int(I.getattr(ctx.self_val, "_size"))
    k = I.ops.as_int(I.getattr(ctx.self_val, "_num_hashes"))
    item = ctx.args["message_id"].t
    b0, b1 = ctx.extra["bits0"], _bits_now(ctx)
    i, q = z3.Int("hash_i"), z3.Int("any_q")
    return [("sets-every-position-of-the-id", z3.Implies(z3.And(i >= 0, i < k), z3.Select(b1, POSF(item, i, size)))),
            ("clears-nothing", z3.Implies(z3.Select(b0, q), z3.Select(b1, q))),
            ("counts-the-item", I.ops.as_int(I.getattr(ctx.self_val, "_items_added")) == z3.Int("bloom._items_added") + 1),
            ("authority-unchanged", I.ops.truthy(I.getattr(ctx.self_val, "_authoritative")) == z3.Bool("bloom._authoritative"))]


def _maybe_seen_post(ctx):
    I = ctx.I
    if ctx.exc is not None:
        return [("no-exception", FALSE)]
    size = I.ops.as_int(I.getattr(ctx.self_val, "_size"))
    k = I.ops.as_int(I.getattr(ctx.self_val, "_num_hashes"))
    item = ctx.args["message_id"].t
    b0 = ctx.extra["bits0"]
    i = z3.Int("hash_i")
    res = I.ops.truthy(ctx.result)
    allset = z3.ForAll([i], z3.Implies(z3.And(i >= 0, i < k), z3.Select(b0, POSF(item, i, size))))
    return [("true-when-every-position-is-set", z3.Implies(allset, res)),
            ("false-only-with-an-unset-position", z3.Implies(z3.Not(res), z3.Not(allset))),
            ("true-only-when-every-position-is-set", z3.Implies(z3.And(res, i >= 0, i < k), z3.Select(b0, POSF(item, i, size)))),
            ("read-only", z3.BoolVal(not I.st.dicts[I.st.objs[ctx.self_val.oid].fields["$bits"].did].meta.get("mut")))]


def _hydrate_post(ctx):
    I = ctx.I
    if ctx.exc is not None:
        return [("no-exception", FALSE)]
    size = I.ops.as_int(I.getattr(ctx.self_val, "_size"))
    k = I.ops.as_int(I.getattr(ctx.self_val, "_num_hashes"))
    ids = ctx.args["message_ids"]
    arr = I._elem_array(ids.lid, "$v", z3.IntSort())
    b0, b1 = ctx.extra["bits0"], _bits_now(ctx)
    i, j, q = z3.Int("hash_i"), z3.Int("id_j"), z3.Int("any_q")
    return [("sets-every-position-of-every-id", z3.Implies(z3.And(j >= 0, j < I.ops.list_len(ids), i >= 0, i < k),
                                                         z3.Select(b1, POSF(z3.Select(arr, j), i, size)))),
            ("clears-nothing", z3.Implies(z3.Select(b0, q), z3.Select(b1, q))),
            ("grants-authority", I.ops.truthy(I.getattr(ctx.self_val, "_authoritative"))),
            ("returns-the-number-of-ids", I.ops.as_int(ctx.result) == I.ops.list_len(ids))]


def _watch_authority(ctx):
    sv = ctx.self_val
    ctx.I.st.ghost["on_lock_release"] = lambda I: I.ops.truthy(I.getattr(sv, "_authoritative"))


def _hydrate_authority_last(ctx):
    """Between two critical sections of hydrate another thread may consult the filter (`is_authoritative`, then
    `maybe_seen`): authority that the call itself grants must not be visible at any lock release that is followed by more
    loading -- otherwise a negative answer is trusted while ids are still missing (seed C09-H)."""
    I = ctx.I
    top = ctx.st.effects
    goals = []
    n = 0
    entry = z3.Bool("bloom._authoritative")
    for pos, e in enumerate(top):
        later_load = any(x.kind == "foreach" for x in top[pos + 1:])
        inner = [(b, g) for b, g in T.flat([e]) if b.kind == "lock_release"]
        for b, g in inner:
            n += 1
            if later_load or e.kind == "foreach":
                goals.append((f"release{n}.no-new-authority-before-the-load-is-complete", z3.Implies(z3.And(g, b.data["snap"]), entry)))
    goals.append(("some-release-observed", z3.BoolVal(n > 0)))
    return goals


def _reset_post(ctx):
    I = ctx.I
    if ctx.exc is not None:
        return [("no-exception", FALSE)]
    return [("revokes-authority", z3.Not(I.ops.truthy(I.getattr(ctx.self_val, "_authoritative"))))]


def _lemma(ctx):
    """L: from the contracts B3-B5 alone -- if every position of x is set in some state and every later operation clears nothing,
    maybe_seen(x) answers True.  Stated over arbitrary bit arrays b0 (after mark_seen(x)), b1 (after any number of monotone steps)."""
    b0, b1 = z3.Array("L.b0", z3.IntSort(), z3.BoolSort()), z3.Array("L.b1", z3.IntSort(), z3.BoolSort())
    x, size, k, i, q = z3.Ints("L.x L.size L.k L.i L.q")
    marked = z3.ForAll([i], z3.Implies(z3.And(i >= 0, i < k), z3.Select(b0, POSF(x, i, size))))       # post of mark_seen / hydrate
    monotone = z3.ForAll([q], z3.Implies(z3.Select(b0, q), z3.Select(b1, q)))                           # 'clears-nothing', composed
    seen_true = z3.ForAll([i], z3.Implies(z3.And(i >= 0, i < k), z3.Select(b1, POSF(x, i, size))))     # pre of maybe_seen == True
    return [("marked-stays-seen", z3.Implies(z3.And(marked, monotone), seen_true))]


def _inconsistent(ctx):
    """canary: must be refuted -- the hypotheses of the path (contracts of the callees, loop summaries) are satisfiable"""
    return [("hypotheses-are-satisfiable", FALSE)]


def units():
    out = []
    concrete = dict(names=STATUS_NAMES, replayable=False, self_type=lambda ctx: _bloom(ctx, False), registry=_registry(False))
    out.append(Unit(prop="*", name="L1/Bloom._get_bit", func=D + "_get_bit", params=[("pos", ("int",))],
                    obligations=[Obl("C09/bloom/B1.get_bit", _get_bit_post, when="any")], **concrete))
    out.append(Unit(prop="*", name="L1/Bloom._set_bit", func=D + "_set_bit", params=[("pos", ("int",))],
                    obligations=[Obl("C09/bloom/B1.set_bit", _set_bit_post, when="any")], **concrete))
    out.append(Unit(prop="*", name="L1/Bloom._get_hash_positions", func=D + "_get_hash_positions", params=[("item", ("str",))],
                    obligations=[Obl("C09/bloom/B2.positions", _positions_post, when="any")], **concrete))
    abstract = dict(names=STATUS_NAMES, replayable=False, self_type=lambda ctx: _bloom(ctx, True), registry=_registry(True))
    out.append(Unit(prop="*", name="L1/Bloom.mark_seen", func=D + "mark_seen", params=[("message_id", ("str",))],
                    obligations=[Obl("C09/bloom/B3.mark_seen", _mark_seen_post, when="any", canary=_inconsistent)], **abstract))
    out.append(Unit(prop="*", name="L1/Bloom.maybe_seen", func=D + "maybe_seen", params=[("message_id", ("str",))],
                    obligations=[Obl("C09/bloom/B4.maybe_seen", _maybe_seen_post, when="any", canary=_inconsistent)], **abstract))
    out.append(Unit(prop="*", name="L1/Bloom.hydrate", func=D + "hydrate", params=[("message_ids", ("list", ("str",)))],
                    obligations=[Obl("C09/bloom/B5.hydrate", _hydrate_post, when="any", canary=_inconsistent),
                                 Obl("C09/bloom/B5.hydrate/authority-last", _hydrate_authority_last, when="any")],
                    setup=_watch_authority, **abstract))
    out.append(Unit(prop="*", name="L1/Bloom.reset", func=D + "reset", params=[],
                    obligations=[Obl("C09/bloom/B6.reset", _reset_post, when="any")], **abstract))
    out.append(Unit(prop="*", name="L1/Bloom.lemma", func=D + "maybe_seen", params=[], run=lambda ctx: SNone, names=STATUS_NAMES, replayable=False,
                    registry=_registry(True), obligations=[Obl("C09/bloom/L.no-false-negative", _lemma, when="any")]))
    return out


def units_for(prop):
    out = []
    for u in units():
        u.obligations = [o for o in u.obligations if o.name.startswith(prop + "/")]
        if u.obligations:
            u.prop = prop
            u.name = f"{prop}:{u.name}"
            out.append(u)
    return out
