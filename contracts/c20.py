"""C20 -- graph validation and condition expressions are sound and total (DESIGN 4, C20)."""
from . import handlers, sqlunits

LEVEL = "other"
EXPLANATION = ("bounded stand-ins (labelled bounded, never counted as proved): validate_stage_graph / topological_sort against the "
               "rank-function definition of acyclicity, and evaluate_expression's totality / no-call / no-mutation over a grammar")
ASSUMPTIONS = ["interpreter recursion limit is outside the bound (deeply nested expression text)"]
TRUSTED = ["native comparison harness replay/bounded/c20_*.py"]


def units(tier):
    return sqlunits.units_for("C20") + handlers.units_for("C20")


def extras(tier, seed):
    from pyvc.bounded import run_bounded

    return [
        run_bounded("C20", "c20_graph.py", "C20/bounded/graph-validation", tier, seed),
        run_bounded("C20", "c20_expressions.py", "C20/bounded/expression-totality", tier, seed),
    ]
