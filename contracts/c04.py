"""C04 -- see DESIGN.md section 4, C04."""
from . import handlers, sqlunits

LEVEL = "proof"
EXPLANATION = "trace obligations of the real handlers (layer L2) selected by the prefix C04/"
ASSUMPTIONS = []
TRUSTED = []


def units(tier):
    return sqlunits.units_for("C04") + handlers.units_for("C04")
