"""C03 -- a stage never runs before its dependencies allow it (DESIGN 4, C03; Appendix A.1)."""
from pyvc.verify import Obl, Unit

from .common import CONT, HALT, STATUS_NAMES, base_registry

LEVEL = "proof"
EXPLANATION = ("evaluate_readiness (five private evaluators inlined, upstream list of unbounded length) is proved sound "
               "against the join specification written from the property statement: READY implies the join condition.")
ASSUMPTIONS = ["elements of upstream_stages are distinct objects or None (list validity)",
               "soundness direction only: a stricter join is not a C03 violation"]
TRUSTED = []

G = "not jump_bypass and len(upstream_stages) > 0 and result.phase == Phase.READY"
cont = f"(u.status in {CONT})"
halt = f"(u.status in {HALT})"
ACT = "stage.context.get('_activated_branches')"
FIRED = "bool(stage.context.get('_join_fired', False))"


def units(tier):
    reg = base_registry()
    U = Unit(
        prop="C03", name="C03/readiness", func="stabilize.dag.readiness:evaluate_readiness",
        params=[("stage", ("obj", "StageExecution")), ("upstream_stages", ("list", ("opt", ("obj", "StageExecution")))),
                ("jump_bypass", ("bool",))],
        names=STATUS_NAMES, registry=reg,
        # data invariant of the engine-internal key: written only by the OR-split code, always as a list of ref_ids
        requires=[f"{ACT} is None or isinstance({ACT}, list)"],
        obligations=[
            Obl("C03/readiness/and.sound",
                f"implies({G} and stage.join_type == JoinType.AND, forall(upstream_stages, lambda u: u is None or {cont}))",
                canary=f"implies({G} and stage.join_type == JoinType.AND, forall(upstream_stages, lambda u: u is None or u.status == S.SUCCEEDED))"),
            Obl("C03/readiness/or.sound",
                f"implies({G} and stage.join_type == JoinType.OR and {ACT} is not None, "
                f"forall(upstream_stages, lambda u: u is None or u.ref_id not in {ACT} or {cont}))",
                canary=f"implies({G} and stage.join_type == JoinType.OR and {ACT} is not None, "
                f"forall(upstream_stages, lambda u: u is None or {cont}))"),
            Obl("C03/readiness/or.fallback",
                f"implies({G} and stage.join_type == JoinType.OR and {ACT} is None, forall(upstream_stages, lambda u: u is None or {cont}))"),
            Obl("C03/readiness/n_of_m.sound",
                f"implies({G} and stage.join_type == JoinType.N_OF_M and stage.join_threshold > 0, "
                f"not {FIRED} and count(upstream_stages, lambda u: u is not None and {cont}) >= stage.join_threshold)",
                canary=f"implies({G} and stage.join_type == JoinType.N_OF_M and stage.join_threshold > 0, "
                f"count(upstream_stages, lambda u: u is not None and {cont}) > stage.join_threshold)"),
            Obl("C03/readiness/n_of_m.nonpositive",
                f"implies({G} and stage.join_type == JoinType.N_OF_M and stage.join_threshold <= 0, "
                f"forall(upstream_stages, lambda u: u is None or {cont}))"),
            Obl("C03/readiness/discriminator.sound",
                f"implies({G} and stage.join_type == JoinType.DISCRIMINATOR, "
                f"not {FIRED} and exists(upstream_stages, lambda u: u is not None and {cont}))",
                canary=f"implies({G} and stage.join_type == JoinType.DISCRIMINATOR, "
                f"forall(upstream_stages, lambda u: u is None or {cont}))"),
            Obl("C03/readiness/multi_merge.sound",
                f"implies({G} and stage.join_type == JoinType.MULTI_MERGE, exists(upstream_stages, lambda u: u is not None and {cont}))"),
            Obl("C03/readiness/halted-upstream-blocks.and",
                f"implies(not jump_bypass and stage.join_type == JoinType.AND and exists(upstream_stages, lambda u: u is not None and {halt}), "
                "result.phase != Phase.READY)",
                canary=f"implies(not jump_bypass and stage.join_type == JoinType.AND and exists(upstream_stages, lambda u: u is not None and {halt}), "
                "result.phase == Phase.NOT_READY)"),
            Obl("C03/readiness/halted-upstream-blocks.or",
                f"implies(not jump_bypass and stage.join_type == JoinType.OR and {ACT} is not None and "
                f"exists(upstream_stages, lambda u: u is not None and u.ref_id in {ACT} and {halt}), result.phase != Phase.READY)"),
            Obl("C03/readiness/no-exception", "False", when="raise"),
        ])
    from . import handlers, sqlunits

    return [U] + sqlunits.units_for("C03") + handlers.units_for("C03")
