"""Layer L2: trace contracts of the real handlers.  One unit per handler; obligations are named
`<property>/<clause>/<handler>` and each property module selects its own by prefix."""
import z3

from pyvc import trace as T
from pyvc.ops import FALSE, TRUE
from pyvc.values import VAL, SList, ObjRec, SElem, SEnum, SNone, SObj, SOpt, SStr, fresh_int
from pyvc.verify import Obl

from . import tprops as P
from .hcommon import WS, can_transition, handler_unit, in_set, is_complete, status

H = "stabilize.handlers."


# ----------------------------------------------------------------------------- helpers
def loaded_stage(ctx, how="retrieve_stage", nth=0):
    objs = [e.data["obj"] for e in ctx.st.effects if e.kind == "load" and e.data["kind"] == "stage" and e.data["how"] == how]
    return objs[nth] if len(objs) > nth else None


def loaded_execution(ctx, nth=0):
    objs = [e.data["obj"] for e in ctx.st.effects if e.kind == "load" and e.data["kind"] == "execution" and e.data["how"] == "retrieve"]
    return objs[nth] if len(objs) > nth else None


def task_guard(ctx, want: str):
    """z3 Bool: the task addressed by message.task_id was loaded with status `want` (None if no stage was loaded)."""
    I = ctx.I
    stage = loaded_stage(ctx)
    if stage is None:
        return None
    ld = T.loaded_info(I, stage)
    tasks = I.getattr(stage, "tasks")
    ids = I._elem_array(tasks.lid, "id", z3.IntSort())
    tid = I.getattr(ctx.extra["message"], "task_id").t
    n = I.ops.list_len(tasks)
    disj = []
    for path in I.st.index_terms.get(tasks.lid, []):
        w = path[-1]
        disj.append(z3.And(w >= 0, w < n, z3.Select(ids, w) == tid, z3.Select(ld["task_status"], w) == status(I, want)))
    return z3.Or(*disj) if disj else FALSE


def found_task_index(ctx, stage):
    I = ctx.I
    tasks = I.getattr(stage, "tasks")
    terms = I.st.index_terms.get(tasks.lid, [])
    return terms[0][-1] if terms else None


def field_of(ctx, obj, name):
    return ctx.I.getattr(obj, name)


def txn_pushes(t):
    return [e for e in t.effects if e.kind == "push"]


def str_eq(ctx, a, b):
    return ctx.I.ops.eq(a, b)


# ----------------------------------------------------------------------------- CompleteTask
def _complete_task_t2(ctx):
    """T2: the commit that completes the task pushes exactly the continuation: StartTask(next task) if the task is
    not the stage end and a next task exists, else CompleteStage(this stage); nothing for REDIRECT."""
    I = ctx.I
    msg = ctx.extra["message"]
    goals = []
    stage = loaded_stage(ctx)
    for t in P.committed_txns(ctx):
        if not any(e.kind == "store_stage" for e in t.effects):
            continue
        ps = txn_pushes(t)
        redirect = I.getattr(msg, "status").t == status(I, "REDIRECT")
        if not ps:
            goals.append((f"txn{t.tid}.redirect-only", redirect))
            continue
        goals.append((f"txn{t.tid}.not-redirect", z3.Not(redirect)))
        goals.append((f"txn{t.tid}.one-push", z3.BoolVal(len(ps) == 1)))
        p = ps[0]
        w = found_task_index(ctx, stage)
        tasks = I.getattr(stage, "tasks")
        n = I.ops.list_len(tasks)
        ids = I._elem_array(tasks.lid, "id", z3.IntSort())
        send = I._elem_array(tasks.lid, "stage_end", z3.BoolSort())
        if p.data["cls"] == "StartTask":
            nxt = I.getattr(p.data["msg"], "task_id").t
            goals.append((f"txn{t.tid}.next-task", z3.And(w + 1 < n, z3.Not(z3.Select(send, w)), nxt == z3.Select(ids, w + 1),
                                                          I.ops.eq(I.getattr(p.data["msg"], "stage_id"), I.getattr(msg, "stage_id")))))
        elif p.data["cls"] == "CompleteStage":
            goals.append((f"txn{t.tid}.stage-end", z3.And(z3.Or(z3.Select(send, w), w + 1 >= n),
                                                          I.ops.eq(I.getattr(p.data["msg"], "stage_id"), I.getattr(msg, "stage_id")))))
        else:
            goals.append((f"txn{t.tid}.push-kind", FALSE))
    return goals


def _complete_task_frame(ctx):
    """The store changes only the addressed task: its status becomes message.status; the stage status and every
    other task status are written back as loaded."""
    I = ctx.I
    msg = ctx.extra["message"]
    goals = []
    for n, (e, g) in enumerate(P.stores(ctx)):
        ld, snap = e.data["loaded"], e.data["snap"]
        goals.append((f"store{n}.stage-status-unchanged", snap["status"].t == ld["status"].t))
        w = found_task_index(ctx, e.data["stage"])
        i = fresh_int("ti")
        goals.append((f"store{n}.others-unchanged", z3.Implies(z3.And(i >= 0, i < snap["task_len"], i != w),
                                                                z3.Select(snap["task_status"], i) == z3.Select(ld["task_status"], i))))
        goals.append((f"store{n}.task-status", z3.Select(snap["task_status"], w) == I.getattr(msg, "status").t))
    return goals


def complete_task():
    obls = [
        Obl("C02/guard/CompleteTask", P.only_marks_when(lambda ctx: None if task_guard(ctx, "RUNNING") is None else z3.Not(task_guard(ctx, "RUNNING"))), when="any"),
        Obl("C10/absorb/CompleteTask", P.only_marks_when(lambda ctx: None if task_guard(ctx, "RUNNING") is None else z3.Not(task_guard(ctx, "RUNNING"))), when="any"),
        Obl("C02/frame/CompleteTask", _complete_task_frame, when="any"),
        Obl("C01/T1/CompleteTask", P.t1_processed_with_effects(), when="any"),
        Obl("C02/T1/CompleteTask", P.t1_processed_with_effects(), when="any"),
        Obl("C09/T1/CompleteTask", P.t1_processed_with_effects(), when="any"),
        Obl("C01/T6/CompleteTask", P.t6_single_commit(), when="any"),
        Obl("C01/T7/CompleteTask", P.t7_no_split, when="any"),
        Obl("C13/T7/CompleteTask", P.t7_no_split, when="any"),  # nothing commits on its own inside the completion transaction (it would commit the completion without its event)
        Obl("C05/T2/CompleteTask", _complete_task_t2, when="any"),
        Obl("C05/T2b/CompleteTask", P.no_push_after_commit, when="any"),
        Obl("C06/T3/CompleteTask", P.t3_legal_write(), when="any"),
        Obl("C13/T4/CompleteTask", P.t4_events_inside(("record_task_completed", "record_task_failed")), when="any"),
    ]
    return handler_unit("*", "L2/CompleteTask", H + "complete_task:CompleteTaskHandler", "CompleteTask", obls)


# ----------------------------------------------------------------------------- StartTask
def _start_task_extra(I):
    return {"task_registry": T.new_model_obj(I, "TaskRegistry", "task_registry", open=True)}


def _start_task_t2(ctx):
    """T2/T5: the commit that sets the task RUNNING pushes RunTask for that task (token invariant of C10), and the
    commit that stores SKIPPED pushes a CompleteTask whose receiver guard (task RUNNING) holds in the committed state."""
    I = ctx.I
    msg = ctx.extra["message"]
    goals = []
    for t in P.committed_txns(ctx):
        st_effs = [e for e in t.effects if e.kind == "store_stage"]
        if not st_effs:
            continue
        e = st_effs[0]
        w = found_task_index(ctx, e.data["stage"])
        snap = e.data["snap"]
        stored = z3.Select(snap["task_status"], w)
        ps = txn_pushes(t)
        goals.append((f"txn{t.tid}.one-push", z3.BoolVal(len(ps) == 1)))
        if len(ps) != 1:
            continue
        p = ps[0]
        same_task = z3.And(I.ops.eq(I.getattr(p.data["msg"], "task_id"), I.getattr(msg, "task_id")),
                           I.ops.eq(I.getattr(p.data["msg"], "stage_id"), I.getattr(msg, "stage_id")))
        if p.data["cls"] == "RunTask":
            goals.append((f"txn{t.tid}.run-task", z3.And(stored == status(I, "RUNNING"), same_task)))
        elif p.data["cls"] == "CompleteTask":
            # receiver guard of CompleteTaskHandler: the task must be durable RUNNING when CompleteTask is handled
            goals.append((f"txn{t.tid}.complete-task-receivable", z3.And(stored == status(I, "RUNNING"), same_task)))
        else:
            goals.append((f"txn{t.tid}.push-kind", FALSE))
    return goals


def start_task():
    obls = [
        Obl("C02/guard/StartTask", P.only_marks_when(lambda ctx: None if task_guard(ctx, "NOT_STARTED") is None else z3.Not(task_guard(ctx, "NOT_STARTED"))), when="any"),
        Obl("C10/absorb/StartTask", P.only_marks_when(lambda ctx: None if task_guard(ctx, "NOT_STARTED") is None else z3.Not(task_guard(ctx, "NOT_STARTED"))), when="any"),
        Obl("C01/T1/StartTask", P.t1_processed_with_effects(), when="any"),
        Obl("C02/T1/StartTask", P.t1_processed_with_effects(), when="any"),
        Obl("C09/T1/StartTask", P.t1_processed_with_effects(), when="any"),
        Obl("C01/T6/StartTask", P.t6_single_commit(), when="any"),
        Obl("C01/T7/StartTask", P.t7_no_split, when="any"),
        Obl("C05/T5/StartTask", _start_task_t2, when="any", scenario="d3_disabled_skippable_task.py"),
        Obl("C10/token/StartTask", _start_task_t2, when="any"),
        Obl("C05/T2b/StartTask", P.no_push_after_commit, when="any"),
        Obl("C06/T3/StartTask", P.t3_legal_write(), when="any"),
    ]
    return handler_unit("*", "L2/StartTask", H + "start_task:StartTaskHandler", "StartTask", obls, extra=_start_task_extra)


ALL = [complete_task, start_task]


def _generic_obls(u):
    """Obligations every handler unit carries: the frame on the optimistic-lock version (C07; for the stage starter also C04)."""
    tag = u.name.split("/")[-1]
    out = [Obl(f"C07/version-from-load/{tag}", P.version_from_load, when="any")]
    if "StartStage" in u.name:
        out.append(Obl(f"C04/version-from-load/{tag}", P.version_from_load, when="any"))
    return out


def units_for(prop: str):
    out = []
    for mk in ALL:
        u = mk()
        u.obligations = list(u.obligations) + _generic_obls(u)
        u.obligations = [o for o in u.obligations if o.name.startswith(prop + "/")]
        if u.obligations:
            u.prop = prop
            u.name = f"{prop}:{u.name}"
            out.append(u)
    return out


# ----------------------------------------------------------------------------- RunTask
def _run_task_extra(I):
    from .assumed_runtask import install  # noqa

    repo_q = {}
    th_ci = I.index.find_class("TransactionHelper")
    return {"task_registry": T.new_model_obj(I, "TaskRegistry", "task_registry", open=True),
            "timeout_manager": T.new_model_obj(I, "TimeoutManager", "timeout_manager"),
            "_task_backoff": T.new_model_obj(I, "ExponentialDelay", "task_backoff"),
            "bulkhead_manager": T.new_model_obj(I, "TaskBulkheadManager", "bulkheads", open=True),
            "circuit_factory": T.new_model_obj(I, "WorkflowCircuitFactory", "circuits", open=True),
            "process_executor": SNone, "task_lease": SNone, "isolation_mode": I.ops.lit("thread")}


def _run_task_setup(ctx):
    I = ctx.I
    h = ctx.extra["handler"]
    rec = I.st.objs[h.oid]
    ci = I.index.find_class("TransactionHelper")
    rec.fields["txn_helper"] = I.construct(ci, [rec.fields["repository"], rec.fields["queue"]], {})


def run_task_registry():
    from .assumed_runtask import install
    from .hcommon import handler_registry

    reg = handler_registry()
    install(reg)
    return reg


DELEGATES = {
    "stabilize.handlers.run_task.error:complete_with_error": "complete_with_error",
    "stabilize.handlers.run_task.error:handle_exception": "handle_exception",
    "stabilize.handlers.run_task.error:handle_cancellation": "handle_cancellation",
    "stabilize.handlers.run_task.handler:RunTaskHandler._process_result_safely": "process_result",
}


def run_task_top_registry():
    """handle() is verified against the *contracts* of its four helpers (each proved as its own unit below)."""
    reg = run_task_registry()
    for q, name in DELEGATES.items():
        def mk(name):
            def f(I, a, k):
                I.st.emit("delegate", to=name, args=list(a), in_txn=I.st.ghost.get("open_txn"))
                return SNone
            return f
        reg.contracts[q] = mk(name)
    return reg


def _executions(ctx):
    return [e for e, _ in T.flat(ctx.st.effects) if e.kind == "task_execute"]


def _delegates(ctx):
    return [e for e in ctx.st.effects if e.kind == "delegate"]


def _run_task_gate(ctx):
    """C17/C02: user code runs only if the task was loaded RUNNING and the execution loaded in this handling is
    neither canceled nor complete nor paused."""
    I = ctx.I
    if not _executions(ctx):
        return []
    stage = loaded_stage(ctx)
    g = task_guard(ctx, "RUNNING")
    ex = I.getattr(stage, "execution")
    canceled = I.ops.truthy(I.getattr(ex, "is_canceled"))
    est = I.getattr(ex, "status").t
    return [("task-running", g), ("not-canceled", z3.Not(canceled)), ("execution-not-complete", z3.Not(is_complete(I, est))),
            ("not-paused", est != status(I, "PAUSED")), ("executes-once", z3.BoolVal(len(_executions(ctx)) == 1))]


def _run_task_hands_over(ctx):
    """After running user code the handling hands the outcome to exactly one helper (result processing or error
    handling) for the same message -- or an exception escapes and the message stays unacknowledged."""
    I = ctx.I
    msg = ctx.extra["message"]
    if not _executions(ctx) or ctx.exc is not None:
        return []
    ds = _delegates(ctx)
    goals = [("one-delegate", z3.BoolVal(len(ds) == 1))]
    for d in ds:
        has_msg = any(isinstance(x, SObj) and x.oid == msg.oid for x in d.data["args"])
        goals.append((f"{d.data['to']}.same-message", z3.BoolVal(has_msg)))
    return goals


def _run_task_canceled_path(ctx):
    """C17: with the cancel flag set, the handling delegates to handle_cancellation and runs no user task code."""
    I = ctx.I
    stage = loaded_stage(ctx)
    if stage is None or ctx.exc is not None:
        return []
    ds = [d.data["to"] for d in _delegates(ctx)]
    if "handle_cancellation" in ds:
        ex = I.getattr(stage, "execution")
        return [("flag-set", I.ops.truthy(I.getattr(ex, "is_canceled"))), ("no-execution", z3.BoolVal(not _executions(ctx)))]
    return []


def _run_task_guard_false(ctx):
    """C02: a RunTask for a task that is not RUNNING does nothing but mark the message."""
    g = task_guard(ctx, "RUNNING")
    if g is None:
        return []
    acts = [e for e, _ in T.flat(ctx.st.effects) if e.kind in ("store_stage", "push", "standalone", "queue_push", "task_execute", "delegate")
            and not (e.kind == "push" and e.data.get("cls", "").startswith("Invalid"))]
    return [("", g if acts else TRUE)]


def _run_task_never_swallowed(ctx):
    """C05 (no stage of a finished workflow is left running / nothing silently stuck): a RunTask addressed to a task that
    was loaded RUNNING is never consumed without handing the task on -- to user code and a result helper, or to a durable
    CompleteTask / PauseTask / RunTask message.  A handling that only marks the message is legal only when the task was
    not RUNNING."""
    if ctx.exc is not None:
        return []
    g = task_guard(ctx, "RUNNING")
    if g is None:
        return []
    ok_txn = {t.tid for t in T.transactions(ctx.st.effects) if t.committed}
    handed = [e for e, _ in T.flat(ctx.st.effects) if e.kind in ("task_execute", "delegate", "queue_push")
              or (e.kind == "push" and e.data["txn"] in ok_txn and not e.data.get("cls", "").startswith("Invalid"))]
    return [("", TRUE if handed else z3.Not(g))]


def _run_task_transient_routed(ctx):
    """C14 (a transient failure is retried, not fatal): when the attempt ends with a verification that is still pending
    (TransientVerificationError, a transient error by construction), the handler hands the error to handle_exception -- the
    retry decision with its budget --, never to complete_with_error (terminal on the first occurrence)."""
    if ctx.exc is not None:
        return []
    failed = [e for e, _ in T.flat(ctx.st.effects) if e.kind == "attempt_failed" and e.data.get("transient")]
    if not failed:
        return []
    ds = [d.data["to"] for d in _delegates(ctx)]
    return [("goes-to-the-retry-decision", z3.BoolVal("handle_exception" in ds)), ("not-failed-terminally", z3.BoolVal("complete_with_error" not in ds))]


def run_task():
    obls = [
        Obl("C14/transient-routed/RunTask.handle", _run_task_transient_routed, when="any"),
        Obl("C05/T5/RunTask.handle", _run_task_never_swallowed, when="any"),
        Obl("C02/guard/RunTask", _run_task_guard_false, when="any"),
        Obl("C10/absorb/RunTask", _run_task_guard_false, when="any"),
        Obl("C02/gate/RunTask", _run_task_gate, when="any"),
        Obl("C17/run-task-gate", _run_task_gate, when="any"),
        Obl("C17/run-task-canceled", _run_task_canceled_path, when="any"),
        Obl("C02/executed-once/RunTask.handle", _run_task_hands_over, when="any"),
        Obl("C14/hand-over/RunTask.handle", _run_task_hands_over, when="any"),
        Obl("C01/T1/RunTask.handle", P.t1_processed_with_effects(), when="any"),
        Obl("C02/T1/RunTask.handle", P.t1_processed_with_effects(), when="any"),
        Obl("C09/T1/RunTask.handle", P.t1_processed_with_effects(), when="any"),
        Obl("C01/T6/RunTask.handle", P.t6_single_commit(), when="any"),
        Obl("C01/T7/RunTask.handle", P.t7_no_split, when="any"),
        Obl("C06/T3/RunTask.handle", P.t3_legal_write(), when="any"),
    ]
    return handler_unit("*", "L2/RunTask.handle", H + "run_task.handler:RunTaskHandler", "RunTask", obls, extra=_run_task_extra,
                        registry=run_task_top_registry(), setup=_run_task_setup)


ALL.append(run_task)


# ---- the four helpers of RunTask, each proved against the contract handle() assumes of it
def _rt_env(ctx):
    """Common collaborators for the helper units: handler, message, a stage loaded earlier in the handling, its task."""
    I = ctx.I
    from .hcommon import make_handler

    h = make_handler(I, H + "run_task.handler:RunTaskHandler", _run_task_extra)
    ctx.extra["handler"] = h
    _run_task_setup(ctx)
    msg = T.new_symbolic(I, "RunTask", "message")
    ctx.extra["message"] = msg
    ctx.args["message"] = msg
    rec = I.st.objs[h.oid]
    return h, msg, rec


def _outer_stage(ctx, msg):
    """The stage object the handler loaded at the start of the handling (stale by the time a helper runs)."""
    I = ctx.I
    stg = T.new_symbolic(I, "StageExecution", "outer_stage")
    I.st.objs[stg.oid].fields["id"] = I.getattr(msg, "stage_id")
    tasks = I.getattr(stg, "tasks")
    w = z3.Int("outer_task_index")
    I.st.assume(z3.And(w >= 0, w < I.ops.list_len(tasks)))
    task = SElem(tasks.lid, (w,))
    I.st.assume(I.ops.eq(I.getattr(task, "id"), I.getattr(msg, "task_id")))
    return stg, task


def _helper_unit(name, func_qual, build, obls):
    from pyvc.verify import Unit, get_index
    from pyvc.values import SFunc
    from .common import STATUS_NAMES

    def run(ctx):
        I = ctx.I
        args, selfv = build(ctx)
        m, ci, node = get_index().func(func_qual)
        f = SFunc(node, m, None, selfv, ci, node.name)
        return I.call_func(f, args, {})

    return Unit(prop="*", name=name, func=func_qual, params=[], names=STATUS_NAMES, registry=run_task_registry(),
                obligations=obls, run=run, replayable=False)


def _helper_outcome(kinds, allow_none=False):
    """Contract of a RunTask helper: unless an exception escapes (message stays unacknowledged and is redelivered),
    exactly one transaction commits; it carries the processed mark and the continuation for the same task."""
    def check(ctx):
        I = ctx.I
        if ctx.exc is not None:
            return []
        msg = ctx.extra["message"]
        txns = [t for t in P.committed_txns(ctx) if P._has_write(t) or any(e.kind == "mark" for e in t.effects)]
        if not txns and not ctx.st.effects_of("store_stage", "push", "standalone", "queue_push"):
            # nothing done at all: allowed only when the reloaded stage no longer contains the task (nothing to continue)
            st2 = loaded_stage(ctx)
            found = st2 is not None and bool(I.st.index_terms.get(I.getattr(st2, "tasks").lid))
            if not found:
                return [("nothing-only-when-task-gone", TRUE)]
            return [("nothing-only-when-task-gone-or-stale", z3.Not(task_guard_on(ctx, st2, "RUNNING")))]
        goals = [("one-commit", z3.BoolVal(len(txns) == 1))]
        if len(txns) != 1:
            return goals
        t = txns[0]
        ps = txn_pushes(t)
        goals.append(("push-kinds", z3.BoolVal(all(p.data["cls"] in kinds for p in ps))))
        for n, p in enumerate(ps):
            if p.data["cls"] in ("CompleteTask", "RunTask"):
                goals.append((f"push{n}.same-task", z3.And(I.ops.eq(I.getattr(p.data["msg"], "task_id"), I.getattr(msg, "task_id")),
                                                           I.ops.eq(I.getattr(p.data["msg"], "stage_id"), I.getattr(msg, "stage_id")))))
        cont = [p for p in ps if p.data["cls"] in ("CompleteTask", "RunTask")]
        if not cont:
            stores_ = [e for e in t.effects if e.kind == "store_stage"]
            ok = stores_[0].data["snap"]["status"].t == status(I, "SUSPENDED") if (stores_ and allow_none) else FALSE
            if not stores_ and not ps:
                # mark-only: the result is discarded because the reloaded task is no longer RUNNING
                g = task_guard_on(ctx, loaded_stage(ctx), "RUNNING")
                ok = z3.Not(g) if g is not None else FALSE
            goals.append(("no-continuation-only-when-suspended-or-stale", ok))
        else:
            goals.append(("one-continuation", z3.BoolVal(len(cont) == 1)))
        return goals
    return check


def task_guard_on(ctx, stage, want):
    I = ctx.I
    if stage is None:
        return None
    ld = T.loaded_info(I, stage)
    tasks = I.getattr(stage, "tasks")
    ids = I._elem_array(tasks.lid, "id", z3.IntSort())
    tid = I.getattr(ctx.extra["message"], "task_id").t
    n = I.ops.list_len(tasks)
    disj = [z3.And(p[-1] >= 0, p[-1] < n, z3.Select(ids, p[-1]) == tid, z3.Select(ld["task_status"], p[-1]) == status(I, want))
            for p in I.st.index_terms.get(tasks.lid, [])]
    return z3.Or(*disj) if disj else FALSE


def _stage_task_inv(ctx, e):
    """Data invariant of a loaded stage row (is_valid precondition, listed as an assumption): a stage that holds a
    RUNNING task is itself RUNNING."""
    I = ctx.I
    ld = e.data.get("loaded") or {}
    if "task_status" not in ld:
        return TRUE
    i = z3.Int("inv_task_index")
    return z3.ForAll([i], z3.Implies(z3.And(i >= 0, i < I.ops.base_len(ld["tasks_lid"], ()), z3.Select(ld["task_status"], i) == status(I, "RUNNING")),
                                     ld["status"].t == status(I, "RUNNING")))


def _common_helper_obls(tag, kinds, allow_none=False, t1_exempt=None):
    return [
        Obl(f"C02/executed-once/{tag}", _helper_outcome(kinds, allow_none), when="any"),
        Obl(f"C05/T2/{tag}", _helper_outcome(kinds, allow_none), when="any"),
        Obl(f"C14/continuation/{tag}", _helper_outcome(kinds, allow_none), when="any"),
        Obl(f"C01/T1/{tag}", P.t1_processed_with_effects(t1_exempt), when="any"),
        Obl(f"C02/T1/{tag}", P.t1_processed_with_effects(t1_exempt), when="any"),
        Obl(f"C09/T1/{tag}", P.t1_processed_with_effects(t1_exempt), when="any"),
        Obl(f"C01/T6/{tag}", P.t6_single_commit(), when="any"),
        Obl(f"C01/T7/{tag}", P.t7_no_split, when="any"),
        Obl(f"C05/T2b/{tag}", P.no_push_after_commit, when="any"),
        Obl(f"C06/T3/{tag}", P.t3_legal_write(pre=_stage_task_inv), when="any",
            scenario="d4_cancel_then_suspend.py" if tag == "process_result" else None),
        Obl(f"C07/retry-reloads/{tag}", _stores_use_fresh_loads, when="any"),
    ]


def _stores_use_fresh_loads(ctx):
    """C07: every stage written was loaded from the store inside this (retried) closure, not passed in from outside."""
    goals = []
    for n, (e, g) in enumerate(P.stores(ctx, committed_only=False)):
        ld = e.data.get("loaded") or {}
        goals.append((f"store{n}", z3.BoolVal(ld.get("how") == "retrieve_stage")))
    return goals


def _run_task_t1_exempt(ctx, t):
    """T1 exemptions: the polling re-push and the transient-retry re-push keep the same logical message alive."""
    ps = txn_pushes(t)
    return len(ps) == 1 and ps[0].data["cls"] == "RunTask" and not any(e.kind == "mark" for e in t.effects)


def _run_task_repush(ctx):
    """The un-marked RunTask re-push is the same message (polling) or its copy with attempts + 1 (transient retry)."""
    I = ctx.I
    msg = ctx.extra["message"]
    goals = []
    for t in P.committed_txns(ctx):
        if not _run_task_t1_exempt(ctx, t):
            continue
        m2 = txn_pushes(t)[0].data["msg"]
        if isinstance(m2, SObj) and m2.oid == msg.oid:
            goals.append((f"txn{t.tid}.same-message", TRUE))
            continue
        a0 = I.getattr(msg, "attempts")
        a0t = z3.If(I.ops.truthy(a0), I.ops.as_int(a0), 0)
        truthy, _mid = P.msg_id_truthy(ctx)
        goals.append((f"txn{t.tid}.retry-copy", z3.Or(z3.Not(truthy), z3.And(I.ops.eq(I.getattr(m2, "task_id"), I.getattr(msg, "task_id")),
                                                       I.ops.eq(I.getattr(m2, "stage_id"), I.getattr(msg, "stage_id")),
                                                       I.ops.eq(I.getattr(m2, "execution_id"), I.getattr(msg, "execution_id")),
                                                       I.ops.as_int(I.getattr(m2, "attempts")) == a0t + 1))))
    return goals


def _polling_repush(ctx):
    """C14: a task that reports it is still running is polled again with the very same message -- in particular the
    polling re-push does not spend the transient-retry budget (attempts unchanged)."""
    I = ctx.I
    msg = ctx.extra["message"]
    goals = []
    for t in P.committed_txns(ctx):
        if not _run_task_t1_exempt(ctx, t):
            continue
        m2 = txn_pushes(t)[0].data["msg"]
        same = isinstance(m2, SObj) and m2.oid == msg.oid
        truthy, _mid = P.msg_id_truthy(ctx)
        goals.append((f"txn{t.tid}.attempts-unchanged", TRUE if same else z3.Or(z3.Not(truthy), z3.And(
            I.ops.eq(I.getattr(m2, "attempts"), I.getattr(msg, "attempts")), I.ops.eq(I.getattr(m2, "task_id"), I.getattr(msg, "task_id"))))))
    return goals


def _consume_one_signal(ctx):
    """C18 (consumed exactly once, one resume per signal): when a task result suspends the stage, either the mailbox the row
    was loaded with is empty / absent and the stage is stored SUSPENDED with no continuation, or exactly its FIRST entry is
    consumed -- the stored mailbox is the loaded one without its head, every other waiting signal kept in order -- and the
    stage is stored RUNNING together with one RunTask for the same task."""
    from pyvc.values import VAL, vlist_get, vlist_len

    I = ctx.I
    res = ctx.extra.get("result")
    if res is None or ctx.exc is not None:
        return []
    susp = I.getattr(res, "status").t == status(I, "SUSPENDED")
    key = I.ops.lit("_buffered_signals").t
    # the task's own result.context is merged into the stage context first; a task that writes the mailbox key itself is
    # outside this obligation (the mailbox is then the task's, not the loaded one)
    rc = I.getattr(res, "context")
    if isinstance(rc, SOpt):
        rc = rc.inner
    task_writes_mailbox = I.ops.dict_get(rc, I.ops.lit("_buffered_signals"))[0]
    susp = z3.And(susp, z3.Not(task_writes_mailbox))
    goals = []
    j = z3.Int("signal_j")
    for n, (e, g) in enumerate(P.stores(ctx)):
        ld, snap = e.data.get("loaded") or {}, e.data["snap"]
        if "ctx_vals" not in ld or "ctx_vals" not in snap:
            continue
        oh, ov = z3.Select(ld["ctx_has"], key), z3.Select(ld["ctx_vals"], key)
        nh, nv = z3.Select(snap["ctx_has"], key), z3.Select(snap["ctx_vals"], key)
        waiting = z3.And(oh, VAL.is_VList(ov), vlist_len(VAL.vl(ov)) > 0)
        olen = vlist_len(VAL.vl(ov))
        stored = snap["status"].t
        well_typed = z3.Implies(oh, VAL.is_VList(ov))
        goals.append((f"store{n}.stays-suspended-only-with-an-empty-mailbox", z3.Implies(z3.And(g, susp, well_typed, stored == status(I, "SUSPENDED")), z3.Not(waiting))))
        goals.append((f"store{n}.resumes-only-by-consuming-a-signal", z3.Implies(z3.And(g, susp, well_typed, stored == status(I, "RUNNING")), waiting)))
        goals.append((f"store{n}.consumes-exactly-the-first-signal", z3.Implies(
            z3.And(g, susp, well_typed, waiting, stored == status(I, "RUNNING"), j >= 0, j < olen - 1),
            z3.And(nh, VAL.is_VList(nv), vlist_len(VAL.vl(nv)) == olen - 1, vlist_get(VAL.vl(nv), j) == vlist_get(VAL.vl(ov), j + 1)))))
        goals.append((f"store{n}.the-other-signals-stay", z3.Implies(
            z3.And(g, susp, well_typed, waiting, stored == status(I, "RUNNING")), z3.And(nh, VAL.is_VList(nv), vlist_len(VAL.vl(nv)) == olen - 1))))
    return goals


def process_result_unit():
    def build(ctx):
        h, msg, rec = _rt_env(ctx)
        I = ctx.I
        result = T.new_symbolic(I, "TaskResult", "result")
        ctx.extra["result"] = result
        return [I.getattr(msg, "stage_id"), I.getattr(msg, "task_id"), result, msg], h

    obls = _common_helper_obls("process_result", ("CompleteTask", "RunTask", "JumpToStage"), allow_none=True, t1_exempt=_run_task_t1_exempt)
    obls.append(Obl("C14/repush/process_result", _run_task_repush, when="any"))
    obls.append(Obl("C14/polling-keeps-the-message", _polling_repush, when="any"))
    obls.append(Obl("C01/T1x/process_result", _run_task_repush, when="any"))
    obls.append(Obl("C18/consume-one/process_result", _consume_one_signal, when="any"))
    return _helper_unit("L2/RunTask.process_result", H + "run_task.handler:RunTaskHandler._process_result_safely", build, obls)


def _error_args(ctx, with_task_impl=False, with_exc=False, with_backoff=False):
    I = ctx.I
    h, msg, rec = _rt_env(ctx)
    stg, task = _outer_stage(ctx, msg)
    args = [stg, task]
    if with_task_impl:
        args.append(_mk_impl(I))
    args.append(msg)
    if with_exc:
        from .assumed_runtask import new_exception

        exc = new_exception(I)
        ctx.extra["exception"] = exc
        args.append(exc)
    args += [rec.fields["repository"], rec.fields["txn_helper"]]
    if with_backoff:
        args.append(I.getattr(h, "_get_backoff_period"))
    args.append(I.getattr(h, "retry_on_concurrency_error"))
    return args


def _mk_impl(I):
    from pyvc.values import SModel, fresh_bool as fb

    n = T._counter(I, "impl_n")
    impl = T.new_model_obj(I, "TaskImpl", f"task_impl{n}", open=True)
    rec = I.st.objs[impl.oid]

    def opt_result(I2, a, k):
        r = T.new_symbolic(I2, "TaskResult", f"user_result{T._counter(I2, 'ures_n')}")
        I2.st.emit("user_code", what="task hook")
        return SOpt(r, fb("hook_returns_none"))

    rec.fields["on_cancel"] = SModel(opt_result, None, "Task.on_cancel")
    rec.meta["hasattr:on_cancel"] = fb("has_on_cancel")
    return impl


def complete_with_error_unit():
    def build(ctx):
        args = _error_args(ctx)
        args.insert(3, ctx.I.ops.opaque_str("error"))
        return args, None

    return _helper_unit("L2/RunTask.complete_with_error", H + "run_task.error:complete_with_error", build,
                        _common_helper_obls("complete_with_error", ("CompleteTask",)))


def handle_cancellation_unit():
    def build(ctx):
        return _error_args(ctx, with_task_impl=True), None

    obls = _common_helper_obls("handle_cancellation", ("CompleteTask",))
    obls.append(Obl("C17/cancellation-pushes-canceled", _cancellation_status, when="any"))
    return _helper_unit("L2/RunTask.handle_cancellation", H + "run_task.error:handle_cancellation", build, obls)


def _cancellation_status(ctx):
    I = ctx.I
    goals = []
    for n, (p, g) in enumerate(P.pushes(ctx, "CompleteTask")):
        goals.append((f"push{n}", I.getattr(p.data["msg"], "status").t == status(I, "CANCELED")))
    return goals


def _exception_contract(ctx):
    """C14: transient and attempts + 1 < max  =>  the single commit re-pushes the message copy with attempts + 1 (and
    stores the freshly loaded stage with the context update when the error carries one); otherwise it stores the
    failure details and pushes CompleteTask with a failure status together with the processed mark."""
    I = ctx.I
    if ctx.exc is not None:
        return []
    msg, exc = ctx.extra["message"], ctx.extra["exception"]
    transient = I.st.objs[exc.oid].meta["transient"]
    a0 = I.getattr(msg, "attempts")
    a0t = z3.If(I.ops.truthy(a0), I.ops.as_int(a0), 0)
    m0 = I.getattr(msg, "max_attempts")
    m0t = z3.If(I.ops.truthy(m0), I.ops.as_int(m0), 10)
    retry_expected = z3.And(transient, a0t + 1 < m0t)
    goals = []
    for t in P.committed_txns(ctx):
        ps = txn_pushes(t)
        if not ps:
            continue
        p = ps[0]
        if p.data["cls"] == "RunTask":
            goals.append((f"txn{t.tid}.retry-only-when-budget-left", retry_expected))
            cu = I.st.objs[exc.oid].fields["context_update"]
            has_cu = z3.And(z3.Not(cu.isnone), I.ops.truthy(cu.inner))
            stores_ = [e for e in t.effects if e.kind == "store_stage"]
            goals.append((f"txn{t.tid}.context-saved-with-retry", z3.Implies(has_cu, z3.BoolVal(bool(stores_)))))
            for e in stores_:
                # the stored context contains the update: for an arbitrary key present in the update, the stored value is the update's
                kk = z3.Int("any_key")
                drec = I.st.dicts[cu.inner.did]
                snap = e.data["snap"]
                goals.append((f"txn{t.tid}.context-merged", z3.Implies(z3.Select(drec.has, kk),
                              z3.And(z3.Select(snap["ctx_has"], kk), z3.Select(snap["ctx_vals"], kk) == z3.Select(drec.vals, kk)))))
                ld = e.data.get("loaded") or {}
                # progress kept: the update goes onto a row re-read inside the retried closure -- a copy loaded before the attempt
                # ran loses the compare-and-swap to any concurrent writer, on every retry, and the progress with it
                goals.append((f"txn{t.tid}.context-saved-on-a-fresh-load", z3.BoolVal(ld.get("how") == "retrieve_stage" and "ctx_has" in ld)))
                if "ctx_has" not in ld:
                    continue
                goals.append((f"txn{t.tid}.context-kept", z3.Implies(z3.And(z3.Not(z3.Select(drec.has, kk)), z3.Select(ld["ctx_has"], kk)),
                              z3.And(z3.Select(snap["ctx_has"], kk), z3.Select(snap["ctx_vals"], kk) == z3.Select(ld["ctx_vals"], kk)))))
        elif p.data["cls"] == "CompleteTask":
            goals.append((f"txn{t.tid}.terminal-when-no-budget", z3.Not(retry_expected)))
            stt = I.getattr(p.data["msg"], "status").t
            goals.append((f"txn{t.tid}.failure-status", in_set(stt, I, ("TERMINAL", "STOPPED", "FAILED_CONTINUE"))))
    return goals


def handle_exception_unit():
    def build(ctx):
        return _error_args(ctx, with_task_impl=True, with_exc=True, with_backoff=True), None

    obls = _common_helper_obls("handle_exception", ("CompleteTask", "RunTask"), t1_exempt=_run_task_t1_exempt)
    obls.append(Obl("C14/retry-arithmetic", _exception_contract, when="any"))
    obls.append(Obl("C14/repush/handle_exception", _run_task_repush, when="any"))
    obls.append(Obl("C01/T1x/handle_exception", _run_task_repush, when="any"))
    return _helper_unit("L2/RunTask.handle_exception", H + "run_task.error:handle_exception", build, obls)


ALL += [process_result_unit, complete_with_error_unit, handle_cancellation_unit, handle_exception_unit]


# ----------------------------------------------------------------------------- CompleteStage
CS = H + "complete_stage.handler:CompleteStageHandler."


def _havoc_execution_stages(I, stage):
    ex = I.getattr(stage, "execution")
    n = T._counter(I, "replan_n")
    from pyvc.typesys import fresh_value

    I.st.objs[ex.oid].fields["stages"] = fresh_value(I.st, I.typer, ("list", ("obj", "StageExecution")), f"stages_after_plan{n}", det=True)


def complete_stage_registry():
    reg = run_task_registry()

    def plan_after(I, a, k):
        I.st.emit("standalone", op="plan_synthetic_stages", args=[a[1]], kwargs={}, in_txn=I.st.ghost.get("open_txn"))
        _havoc_execution_stages(I, a[1])
        return SNone

    def plan_on_failure(I, a, k):
        from pyvc.values import SBool, fresh_bool

        I.st.emit("standalone", op="plan_synthetic_stages", args=[a[1]], kwargs={}, in_txn=I.st.ghost.get("open_txn"))
        _havoc_execution_stages(I, a[1])
        return SBool(fresh_bool("has_on_failure"))

    def cleanup(I, a, k):
        I.st.emit("user_code", what="on_cleanup")
        return SNone

    def split(I, a, k):
        """assumed here, proved on the real body in unit L3/_apply_split_logic: the two results partition the downstream
        list, and a non-empty downstream list activates at least one branch."""
        from pyvc.values import Seg, SElem, fresh_int

        down = a[2]
        lid = down.lid
        n = I.ops.list_len(down)
        act = z3.Array(fresh_name_("activated"), z3.IntSort(), z3.BoolSort())
        g1, g2 = fresh_int("g"), fresh_int("g")
        a_list = I.ops.new_derived([Seg(lid, (), n, g1, z3.Select(act, g1), SElem(lid, (g1,)))])
        s_list = I.ops.new_derived([Seg(lid, (), n, g2, z3.Not(z3.Select(act, g2)), SElem(lid, (g2,)))])
        I.st.assume(z3.Implies(n > 0, I.ops.list_len(a_list) > 0))
        from pyvc.values import STuple

        return STuple([a_list, s_list])

    def side_store(name):
        def f(I, a, k):
            I.st.emit("standalone", op=name, args=list(a[1:]), kwargs={}, in_txn=I.st.ghost.get("open_txn"))
            if I.st.choose("concurrency_error"):
                T.raise_exc(I, "ConcurrencyError", "stabilize.errors")
            return SNone
        return f

    def determine_status(I, a, k):
        """contract proved on the real StageExecution.determine_status (unit C05/determine_status): any status but REDIRECT."""
        from pyvc.values import ENUMS

        t = z3.Const(fresh_name_("determined_status"), ENUMS.sort(WS))
        I.st.assume(t != status(I, "REDIRECT"))
        I.st.ghost.setdefault("determined", []).append(t)
        return SEnum(WS, t)

    reg.contracts["stabilize.models.stage.stage:StageExecution.determine_status"] = determine_status
    reg.contracts["*._plan_after_stages"] = plan_after
    reg.contracts["*._plan_on_failure_stages"] = plan_on_failure
    reg.contracts["*._invoke_task_cleanup"] = cleanup
    reg.contracts["*._apply_split_logic"] = split
    reg.contracts["*._record_activated_branches"] = side_store("record_activated_branches")
    reg.contracts["*._update_join_tracking"] = side_store("update_join_tracking")
    return reg


def fresh_name_(p):
    from pyvc.values import fresh_name

    return fresh_name(p)


def _addressed_stage_stores(ctx, txn=None):
    stage = loaded_stage(ctx)
    out = []
    for e, g in P.stores(ctx):
        if isinstance(e.data.get("stage"), SObj) and stage is not None and e.data["stage"].oid == stage.oid:
            if txn is None or e.data.get("txn") == txn.tid:
                out.append((e, g))
    return out


def _cs_guard(ctx):
    """C02: CompleteStage changes the stage only if it was loaded RUNNING; for a stage already halted it only re-sends
    the (idempotent) completion notice; otherwise it only marks the message."""
    I = ctx.I
    stage = loaded_stage(ctx)
    if stage is None:
        return []
    ld = T.loaded_info(I, stage)["status"].t
    running = ld == status(I, "RUNNING")
    goals = []
    changing = [e for e, _ in T.flat(ctx.st.effects) if e.kind in ("store_stage", "standalone", "event", "user_code")]
    if changing:
        goals.append(("acts-only-when-running", running))
    ps = [e for e, _ in T.flat(ctx.st.effects) if e.kind == "push" and not e.data["cls"].startswith("Invalid")]
    if ps and not changing:
        ok = all(p.data["cls"] in ("CompleteWorkflow", "CompleteStage") for p in ps)
        goals.append(("notice-only-when-halted", z3.And(z3.BoolVal(ok), z3.Or(running, in_set(ld, I, ("TERMINAL", "CANCELED", "STOPPED"))))))
    return goals


def _cs_absorbing(ctx, t):
    """T1 alternative: the commit stores the addressed stage with a status other than RUNNING, after which the entry
    guard of this handler makes every redelivery a no-op or an idempotent notice."""
    I = ctx.I
    ss = _addressed_stage_stores(ctx, t)
    if not ss:
        return FALSE
    return z3.And(*[e.data["snap"]["status"].t != status(I, "RUNNING") for e, _ in ss])


def t1_or_absorbing(absorbing):
    def check(ctx):
        I = ctx.I
        truthy, mid = P.msg_id_truthy(ctx)
        goals = []
        for t in P.committed_txns(ctx):
            if not P._has_write(t):
                continue
            marks = [e for e in t.effects if e.kind == "mark"]
            has = z3.Or(*[I.ops.eq(e.data["message_id"], mid) for e in marks]) if marks else FALSE
            goals.append((f"txn{t.tid}", z3.Implies(truthy, z3.Or(has, absorbing(ctx, t)))))
        return goals
    return check


def _cs_downstream_only_when_continuable(ctx):
    """C03: StartStage / SkipStage for the stages downstream of the completing stage is pushed only in a commit that
    stores a continuable status (and never on the blocking-failure conversion)."""
    I = ctx.I
    goals = []
    down_lids = {e.data["obj"].lid for e in ctx.st.effects if e.kind == "load" and e.data["kind"] == "stage_list" and e.data["how"] == "downstream"}
    for t in P.committed_txns(ctx):
        n = 0
        for e in t.effects:
            if e.kind != "foreach" or e.data["lid"] not in down_lids:
                continue
            for b, g in T.flat([e]):
                if b.kind == "push" and b.data["cls"] in ("StartStage", "SkipStage"):
                    ss = _addressed_stage_stores(ctx, t)
                    ok = z3.And(*[in_set(s.data["snap"]["status"].t, I, ("SUCCEEDED", "FAILED_CONTINUE", "SKIPPED")) for s, _ in ss]) if ss else FALSE
                    goals.append((f"txn{t.tid}.push{n}", ok))
                    n += 1
    return goals


def _cs_t2(ctx):
    """T2: the commit that stores a complete status for the stage carries a continuation: downstream StartStage/SkipStage,
    ContinueParentStage, CompleteWorkflow, a parent CompleteStage, or (failure) CancelStage plus CompleteWorkflow/parent."""
    I = ctx.I
    goals = []
    for t in P.committed_txns(ctx):
        ss = _addressed_stage_stores(ctx, t)
        if not ss:
            continue
        stt = ss[0][0].data["snap"]["status"].t
        complete = is_complete(I, stt)
        ps = [b for e in t.effects for b, _ in T.flat([e]) if b.kind == "push"]
        stage = ss[0][0].data["stage"]
        phase_set = z3.Not(I.ops.is_none(I.getattr(stage, "synthetic_stage_owner")))
        no_parent = z3.Not(I.ops.truthy(I.getattr(stage, "parent_stage_id")))
        if not ps:
            goals.append((f"txn{t.tid}.continuation", z3.Or(z3.Not(complete), z3.And(phase_set, no_parent))))
        halt = in_set(stt, I, ("TERMINAL", "CANCELED", "STOPPED"))
        kinds = {p.data["cls"] for p in ps}
        if ps:
            goals.append((f"txn{t.tid}.failure-cancels", z3.Implies(halt, z3.BoolVal("CancelStage" in kinds and bool(kinds & {"CompleteWorkflow", "CompleteStage"})))))
    return goals


def _cs_silent_drop(ctx):
    """C05 (no silent loss of the completion hand-over): when the stage's own work is over (determine_status returned a
    complete status) and CompleteStage for a stage loaded RUNNING nevertheless ends without any effect other than marking
    the message (no store, no push, no event), somebody else must still be due to complete the stage: an INITIAL synthetic
    child of the stage that has not finished (its own completion re-sends CompleteStage to the parent).  A child that is not
    initial is started only by its sibling's success and justifies nothing -- with a failed sibling it never runs."""
    I = ctx.I
    stage = loaded_stage(ctx)
    if stage is None or ctx.exc is not None:
        return []
    acts = [e for e, _ in T.flat(ctx.st.effects) if e.kind in ("store_stage", "push", "update_workflow", "standalone", "queue_push", "event")]
    det = I.st.ghost.get("determined", [])
    if acts or not det:
        return []
    running = T.loaded_info(I, stage)["status"].t == status(I, "RUNNING")
    child_due = ctx.ev("exists(execution.stages, lambda s: s.parent_stage_id == stage.id and len(s.requisite_stage_ref_ids) == 0 "
                       "and not s.status.is_complete)", {"stage": stage, "execution": I.getattr(stage, "execution")})
    goals = [("mark-only-needs-an-unfinished-initial-child", z3.Implies(z3.And(running, is_complete(I, det[-1])), child_due))]
    # ... and when determine_status says RUNNING only because the stage's own work is over (every task and before-child ended
    # in a continuable status) while its after-stages have not been started yet, the handler is the one that has to start
    # them: swallowing the message there leaves nobody to complete the stage
    env = {"stage": stage, "execution": I.getattr(stage, "execution"), "CONT": ctx.names.get("CONT")}
    cont = "(S.SUCCEEDED, S.FAILED_CONTINUE, S.SKIPPED)"
    before = "(s.parent_stage_id == stage.id and s.synthetic_stage_owner == Owner.STAGE_BEFORE)"
    first_after = "(s.parent_stage_id == stage.id and s.synthetic_stage_owner == Owner.STAGE_AFTER and len(s.requisite_stage_ref_ids) == 0)"
    core_done = ctx.ev(f"(exists(stage.tasks, lambda t: True) or exists(execution.stages, lambda s: {before})) "
                       f"and forall(stage.tasks, lambda t: t.status in {cont}) "
                       f"and forall(execution.stages, lambda s: implies({before}, s.status in {cont}))", env)
    after_waiting = ctx.ev(f"exists(execution.stages, lambda s: {first_after}) "
                           f"and forall(execution.stages, lambda s: implies({first_after}, s.status == S.NOT_STARTED))", env)
    goals.append(("mark-only-never-when-the-after-stages-are-this-handlers-to-start",
                  z3.Implies(z3.And(running, det[-1] == status(I, "RUNNING")), z3.Not(z3.And(core_done, after_waiting)))))
    return goals


def _cs_events(ctx):
    """C13/C12: a commit that stores a complete status for the stage records its completion event inside the same
    transaction (when a recorder is configured), and the event is never recorded outside a transaction."""
    I = ctx.I
    h = ctx.extra["handler"]
    rec_absent = I.st.objs[h.oid].fields["_event_recorder"].isnone
    goals = []
    evs = [e for e in ctx.st.effects if e.kind == "event" and e.data["kind"] in ("record_stage_completed", "record_stage_failed", "record_stage_skipped")]
    for n, e in enumerate(evs):
        goals.append((f"event{n}.inside-txn", z3.BoolVal(e.data.get("in_txn") is not None)))
    for t in P.committed_txns(ctx):
        ss = _addressed_stage_stores(ctx, t)
        if not ss:
            continue
        stt = ss[0][0].data["snap"]["status"].t
        has_ev = any(e.data.get("in_txn") == t.tid for e in evs)
        goals.append((f"txn{t.tid}.event-with-completion", z3.Implies(z3.And(is_complete(I, stt), z3.Not(rec_absent)), z3.BoolVal(has_ev))))
        for e in evs:
            if e.data.get("in_txn") == t.tid and e.data.get("status") is not None:
                goals.append((f"txn{t.tid}.event-status", e.data["status"].t == stt))
    return goals


def _cs_tracking_before_start(ctx):
    """C04 (a first-of / quorum join is started once, not zero times): the write that records this branch in the join's row
    (_completed_branches, _activated_branches) bumps the join's version -- the token of the claim.  It therefore happens BEFORE
    the commit that pushes StartStage for the downstream stages: afterwards a worker may already have read the join for its
    claim, and the late bump would make that claim fail with nobody left to start the join."""
    txns = {t.tid: t for t in T.transactions(ctx.st.effects)}
    started = False
    bad = False
    for e in ctx.st.effects:
        if e.kind == "txn_commit" and any(b.kind == "push" and b.data["cls"] == "StartStage" for b, _ in T.flat(txns[e.data["txn"]].effects)):
            started = True
        elif e.kind == "standalone" and e.data.get("op") in ("update_join_tracking", "record_activated_branches") and started:
            bad = True
    return [("join-row-written-before-the-downstream-start-is-committed", z3.BoolVal(not bad))]


def complete_stage():
    obls = [
        Obl("C04/tracking-before-start/CompleteStage", _cs_tracking_before_start, when="any"),
        Obl("C02/guard/CompleteStage", _cs_guard, when="any"),
        Obl("C01/T1/CompleteStage", t1_or_absorbing(_cs_absorbing), when="any"),
        Obl("C02/T1/CompleteStage", t1_or_absorbing(_cs_absorbing), when="any"),
        Obl("C09/T1/CompleteStage", t1_or_absorbing(_cs_absorbing), when="any"),
        Obl("C01/T7/CompleteStage", P.t7_no_split, when="any"),
        Obl("C13/T7/CompleteStage", P.t7_no_split, when="any"),  # nothing commits on its own inside the completion transaction (it would commit the completion without its event)
        Obl("C03/push/continuable-only", _cs_downstream_only_when_continuable, when="any"),
        Obl("C05/T2/CompleteStage", _cs_t2, when="any"),
        Obl("C05/T2b/CompleteStage", P.no_push_after_commit, when="any"),
        Obl("C05/no-silent-drop/CompleteStage", _cs_silent_drop, when="any"),
        Obl("C06/T3/CompleteStage", P.t3_legal_write(), when="any"),
        Obl("C06/stage-never-redirect/CompleteStage", P.stage_status_never_redirect, when="any"),
        Obl("C13/T4/CompleteStage", _cs_events, when="any", scenario="d6b_complete_stage_error_path_event.py"),
        Obl("C12/T4/CompleteStage", _cs_events, when="any", scenario="d6b_complete_stage_error_path_event.py"),
    ]
    return handler_unit("*", "L2/CompleteStage", H + "complete_stage.handler:CompleteStageHandler", "CompleteStage", obls,
                        extra=lambda I: {"task_registry": SNone}, registry=complete_stage_registry())


ALL.append(complete_stage)


# ----------------------------------------------------------------------------- StartStage
def start_stage_registry():
    from pyvc.values import SBool, fresh_bool
    from .assumed_runtask import new_exception

    reg = run_task_registry()

    def cond(name):
        def f(I, a, k):
            b = fresh_bool(name)
            I.st.emit("condition", name=name, result=b)
            return SBool(b)
        return f

    for n in ("_should_skip", "_is_milestone_expired", "_is_mutex_blocked", "_is_deferred_choice_claimed", "_is_after_start_time_expiry"):
        reg.contracts["*." + n] = cond(n)

    def plan_stage(I, a, k):
        """opaque: stage builders (user code) + synthetic stages persisted through repository.add_stage + context merge."""
        stage = a[1]
        I.st.emit("plan", stage=stage, in_txn=I.st.ghost.get("open_txn"))
        I.st.emit("standalone", op="plan_synthetic_stages", args=[stage], kwargs={}, in_txn=I.st.ghost.get("open_txn"))
        if I.st.choose("planning_fails"):
            raise PyRaise_(new_exception(I, "planning_error"))
        from pyvc.typesys import fresh_value

        n = T._counter(I, "plan_n")
        I.st.objs[stage.oid].fields["tasks"] = fresh_value(I.st, I.typer, ("list", ("obj", "TaskExecution")), f"planned_tasks{n}", det=True)
        return SNone

    reg.contracts["*._plan_stage"] = plan_stage

    def readiness(I, a, k):
        """contract of evaluate_readiness (proved in C03/readiness): any phase; the call is recorded."""
        stage, ups = a[0], a[1]
        bypass = a[2] if len(a) > 2 else k.get("jump_bypass", SBool(FALSE))
        r = T.new_symbolic(I, "ReadinessResult", f"readiness{T._counter(I, 'rd_n')}")
        I.st.emit("readiness", stage=stage, upstream=ups, bypass=bypass, result=r, phase=I.getattr(r, "phase"))
        return r

    reg.contracts["stabilize.dag.readiness:evaluate_readiness"] = readiness
    return reg


def PyRaise_(exc):
    from pyvc.values import PyRaise

    return PyRaise(exc)


def _ss_claim_txns(ctx):
    return [t for t in T.transactions(ctx.st.effects)
            if any(e.kind == "store_stage" and e.data["expected_phase"] is not SNone for e in t.effects)]


def _ss_starting_effects(ctx):
    """Everything that constitutes 'starting': planning, the plan commit, start messages, the started event."""
    out = []
    planned = set()
    for e, _ in T.flat(ctx.st.effects):
        if e.kind == "plan":
            out.append(e)
            if isinstance(e.data["stage"], SObj):
                planned.add(e.data["stage"].oid)
        elif e.kind == "push" and e.data["cls"] in ("StartTask",):
            out.append(e)
        elif e.kind == "event" and e.data["kind"] == "record_stage_started":
            out.append(e)
        elif e.kind == "store_stage" and e.data["expected_phase"] is SNone and isinstance(e.data["stage"], SObj) and e.data["stage"].oid in planned:
            out.append(e)  # the plan commit (error-path stores write a freshly loaded stage and are not 'starting')
    return out


def _ss_ready(ctx):
    """C03: whatever constitutes starting happens only after evaluate_readiness returned READY for the upstream list
    loaded in this same handling, with jump_bypass true only if the stage's own context carried _jump_bypass."""
    I = ctx.I
    stage = loaded_stage(ctx)
    if stage is None:
        return []
    claim = _ss_claim_txns(ctx)
    starting = [e for e in _ss_starting_effects(ctx) if e.kind != "store_stage"] + [t for t in claim]
    # a SkipStage sent from here finishes the stage as SKIPPED, which releases its downstream stages exactly like a run
    # would: it is 'starting' too and must be dominated by READY (seed C03-G)
    starting += [e for e, _ in T.flat(ctx.st.effects) if e.kind in ("push", "queue_push") and e.data["cls"] == "SkipStage"]
    if not starting:
        return []
    rds = [e for e in ctx.st.effects if e.kind == "readiness"]
    ups = [e for e in ctx.st.effects if e.kind == "load" and e.data["kind"] == "stage_list" and e.data["how"] == "upstream"]
    goals = [("readiness-evaluated-once", z3.BoolVal(len(rds) == 1 and len(ups) == 1))]
    if len(rds) != 1 or len(ups) != 1:
        return goals
    rd = rds[0]
    ready = rd.data["phase"].t == ctx.I.enum_member(ctx.I.index.find_class("PredicatePhase"), "READY").t
    goals.append(("phase-ready", ready))
    same_list = isinstance(rd.data["upstream"], type(ups[0].data["obj"])) and rd.data["upstream"].lid == ups[0].data["obj"].lid
    goals.append(("same-upstream-list", z3.BoolVal(same_list)))
    goals.append(("same-stage", z3.BoolVal(isinstance(rd.data["stage"], SObj) and rd.data["stage"].oid == stage.oid)))
    ld = T.loaded_info(I, stage)
    key = I.ops.lit("_jump_bypass").t
    had = z3.And(z3.Select(ld["ctx_has"], key), __import__("pyvc.ops", fromlist=["val_truthy"]).val_truthy(z3.Select(ld["ctx_vals"], key)))
    goals.append(("bypass-only-from-own-context", z3.Implies(I.ops.truthy(rd.data["bypass"]), had)))
    return goals


def _ss_claim_first(ctx):
    """C04: planning, the _join_fired write, the plan commit, start messages and the started event all come after a
    committed claim transaction that stores RUNNING under expected_phase = the loaded status, which is NOT_STARTED or
    (zombie) RUNNING with no tasks and no synthetic stages."""
    I = ctx.I
    stage = loaded_stage(ctx)
    if stage is None:
        return []
    starting = _ss_starting_effects(ctx)
    if not starting:
        return []
    ld = T.loaded_info(I, stage)
    claims = [t for t in _ss_claim_txns(ctx) if t.committed]
    goals = [("claimed", z3.BoolVal(len(claims) == 1))]
    if len(claims) != 1:
        return goals
    c = claims[0]
    first_start = min(ctx.st.effects.index(e) if e in ctx.st.effects else 10 ** 9 for e in starting)
    commit_pos = next(i for i, e in enumerate(ctx.st.effects) if e.kind == "txn_commit" and e.data["txn"] == c.tid)
    goals.append(("claim-commits-before-starting", z3.BoolVal(commit_pos < first_start)))
    se = [e for e in c.effects if e.kind == "store_stage"][0]
    exp = se.data["expected_phase"]
    lds = ld["status"].t
    name_of_loaded = I.enum_getattr(SEnum(WS, lds), "name")
    goals.append(("expected-phase-is-loaded-status", I.ops.eq(exp, name_of_loaded)))
    goals.append(("stores-running", se.data["snap"]["status"].t == status(I, "RUNNING")))
    # the claim itself does not mark a first-of / quorum join as fired: the flag is written after the claim and persisted by the
    # plan commit.  Stored with the claim, a plan commit that fails afterwards leaves a claimed, never planned join that readiness
    # reports "already fired" to every later branch -- started zero times
    snap = se.data["snap"]
    if "ctx_has" in snap and "ctx_has" in ld:
        jf = I.ops.lit("_join_fired").t
        goals.append(("the-claim-does-not-mark-the-join-fired", z3.And(z3.Select(snap["ctx_has"], jf) == z3.Select(ld["ctx_has"], jf),
                      z3.Implies(z3.Select(ld["ctx_has"], jf), z3.Select(snap["ctx_vals"], jf) == z3.Select(ld["ctx_vals"], jf)))))
    tasks_lid = ld["tasks_lid"]
    no_tasks = I.ops.base_len(tasks_lid, ()) == 0
    syn = [e.data["obj"] for e in ctx.st.effects if e.kind == "load" and e.data["kind"] == "stage_list" and e.data["how"] == "synthetic"]
    no_syn = (I.ops.list_len(syn[0]) == 0) if syn else FALSE
    goals.append(("from-not-started-or-zombie", z3.Or(lds == status(I, "NOT_STARTED"), z3.And(lds == status(I, "RUNNING"), no_tasks, no_syn))))
    return goals


def _ss_loser_silent(ctx):
    """C04: when the claim transaction fails with ConcurrencyError nothing else happens (no plan, push, event)."""
    goals = []
    for t in _ss_claim_txns(ctx):
        if t.rolled_back:
            failed = any(e.kind == "store_stage" and e.data.get("failed") for e in t.effects)
            if failed:
                pos = next(i for i, e in enumerate(ctx.st.effects) if e.kind == "txn_rollback" and e.data["txn"] == t.tid)
                later = [e for e in ctx.st.effects[pos + 1:] if e.kind in ("plan", "push", "queue_push", "event", "store_stage", "standalone", "foreach")]
                goals.append((f"txn{t.tid}", z3.BoolVal(not later)))
    return goals


def _ss_claims(ctx):
    """C11: the transaction that stores NOT_STARTED -> RUNNING acquires the mutex claim (steal only from a finished owner)
    when mutex_key is set and the choice claim when a group is set; a refused claim aborts the transaction; the loser
    of a choice commits mark + CancelStage, the loser of a mutex re-queues StartStage."""
    I = ctx.I
    stage = loaded_stage(ctx)
    goals = []
    for t in _ss_claim_txns(ctx):
        if not t.committed:
            continue
        cl = [e for e in t.effects if e.kind == "claim"]
        mk = I.getattr(stage, "mutex_key")
        grp = I.getattr(stage, "deferred_choice_group")
        has_m = [e for e in cl if I.ops.eq(e.data["args"][1], I.ops.fmt("mutex:{}", [mk])) is not None and "steal_if_owner_terminal" in e.data["kwargs"]]
        has_c = [e for e in cl if "steal_if_owner_terminal" not in e.data["kwargs"]]
        goals.append((f"txn{t.tid}.mutex-claimed", z3.Implies(I.ops.truthy(mk), z3.BoolVal(bool(has_m)))))
        goals.append((f"txn{t.tid}.choice-claimed", z3.Implies(I.ops.truthy(grp), z3.BoolVal(bool(has_c)))))
        for n, e in enumerate(cl):
            goals.append((f"txn{t.tid}.claim{n}.granted", e.data["result"]))
            goals.append((f"txn{t.tid}.claim{n}.for-this-stage", I.ops.eq(e.data["args"][2], I.getattr(stage, "id"))))
            goals.append((f"txn{t.tid}.claim{n}.same-execution", I.ops.eq(e.data["args"][0], I.getattr(ctx.extra["message"], "execution_id"))))
        for e in has_m:
            goals.append((f"txn{t.tid}.mutex-key", I.ops.eq(e.data["args"][1], I.ops.fmt("mutex:{}", [mk]))))
        for e in has_c:
            goals.append((f"txn{t.tid}.choice-key", I.ops.eq(e.data["args"][1], I.ops.fmt("choice:{}", [grp]))))
            goals.append((f"txn{t.tid}.choice-never-steals", z3.BoolVal("steal_if_owner_terminal" not in e.data["kwargs"])))
    return goals


def _ss_claim_loser(ctx):
    """C11 (second half of each sentence): a stage refused the mutex claim durably re-queues its own StartStage (so it
    does run after the holder finishes); a stage refused the choice claim durably hands itself to CancelStage.  Durable =
    queue.push, or a push inside a transaction that commits; a push inside the refused (rolled back) claim transaction
    does not count."""
    I = ctx.I
    msg = ctx.extra["message"]
    goals = []
    for t in T.transactions(ctx.st.effects):
        cl = [e for e in t.effects if e.kind == "claim"]
        if not t.rolled_back or not cl:
            continue
        if any(e.kind == "store_stage" and e.data.get("failed") for e in t.effects):
            continue  # lost the status CAS, not the claim (C04/loser-silent)
        last = cl[-1]
        refused = z3.Not(last.data["result"])
        pos = next(i for i, e in enumerate(ctx.st.effects) if e.kind == "txn_rollback" and e.data["txn"] == t.tid)
        later = ctx.st.effects[pos + 1:]
        ok_txn = {x.tid for x in T.transactions(ctx.st.effects) if x.committed}
        want = "StartStage" if "steal_if_owner_terminal" in last.data["kwargs"] else "CancelStage"
        durable = [e for e in later if (e.kind == "queue_push" and e.data["cls"] == want)
                   or (e.kind == "push" and e.data["cls"] == want and e.data["txn"] in ok_txn)]
        same = z3.Or(*[I.ops.eq(I.getattr(e.data["msg"], "stage_id"), I.getattr(msg, "stage_id")) for e in durable]) if durable else FALSE
        goals.append((f"txn{t.tid}.{'mutex-loser-requeues' if want == 'StartStage' else 'choice-loser-cancels-itself'}", z3.Implies(refused, same)))
    return goals


def _ss_choice_siblings(ctx):
    """C11 (the others end canceled): the winner of a deferred choice hands every other NOT_STARTED stage of its group to
    CancelStage, and it looks for them in the FULL stage list of the workflow (repository.retrieve) -- the execution that
    comes with a stage loaded by retrieve_stage holds only the stage, its upstream stages and its synthetic children, never
    its siblings."""
    I = ctx.I
    stage = loaded_stage(ctx)
    goals = []
    if stage is None:
        return goals
    msg = ctx.extra["message"]
    fes = [e for e in ctx.st.effects if e.kind == "foreach" and any(b.kind == "queue_push" and b.data["cls"] == "CancelStage" for b, _ in T.flat([e]))]
    for n, e in enumerate(fes):
        lid = e.data["lid"]
        owners = [rec for rec in I.st.objs.values() if rec.cls == "Workflow" or (rec.ci is not None and rec.ci.name == "Workflow")
                  if isinstance(rec.fields.get("stages"), SList) and rec.fields["stages"].lid == lid]
        full = any((rec.meta.get("loaded") or {}).get("how") == "retrieve" for rec in owners)
        goals.append((f"cancel-loop{n}.over-the-full-workflow", z3.BoolVal(full)))
        if not full:
            continue
        g = e.data["g"]
        ids = I._elem_array(lid, "id", z3.IntSort())
        sel = SElem(lid, (g,))
        sibling = ctx.ev("s.id != stage.id and s.deferred_choice_group == stage.deferred_choice_group and s.status == S.NOT_STARTED", {"s": sel, "stage": stage})
        goals.append((f"cancel-loop{n}.every-unstarted-sibling-of-the-group", z3.Implies(z3.And(g >= 0, g < e.data["hi"], sibling), e.data["cond"])))
        goals.append((f"cancel-loop{n}.covers-the-whole-list", e.data["hi"] == I.ops.base_len(lid, ())))
        for b, bg in T.flat([e]):
            if b.kind == "queue_push" and b.data["cls"] == "CancelStage":
                goals.append((f"cancel-loop{n}.addresses-the-sibling", z3.Implies(bg, I.getattr(b.data["msg"], "stage_id").t == z3.Select(ids, g))))
    # a winner with a group always runs the loop (after its claim committed)
    claimed = [t for t in _ss_claim_txns(ctx) if t.committed]
    if claimed and not fes:
        grp = I.getattr(stage, "deferred_choice_group")
        planned = any(e.kind == "plan" for e in ctx.st.effects)
        if planned:
            none_to_cancel = [e for e in ctx.st.effects if e.kind == "load" and e.data["kind"] == "execution" and e.data["how"] == "retrieve"]
            goals.append(("winner-looks-for-its-siblings", z3.Implies(I.ops.truthy(grp), z3.BoolVal(bool(none_to_cancel)))))
    return goals


def _ss_guard(ctx):
    """C02/C10: a StartStage for a stage that is neither NOT_STARTED nor a zombie does nothing at all."""
    I = ctx.I
    stage = loaded_stage(ctx)
    if stage is None:
        return []
    ld = T.loaded_info(I, stage)
    lds = ld["status"].t
    acts = [e for e, _ in T.flat(ctx.st.effects) if e.kind in ("plan", "event", "claim")
            or (e.kind == "push" and e.data["cls"] in ("StartTask", "SkipStage", "CancelStage"))]
    if not acts:
        return []
    # (the TERMINAL-after-max-retries and the error paths act on a stage that is not ready; they are legal writes (C06)
    # and are not 'starting')
    tasks_lid = ld["tasks_lid"]
    no_tasks = I.ops.base_len(tasks_lid, ()) == 0
    syn = [e.data["obj"] for e in ctx.st.effects if e.kind == "load" and e.data["kind"] == "stage_list" and e.data["how"] == "synthetic"]
    no_syn = (I.ops.list_len(syn[0]) == 0) if syn else FALSE
    return [("", z3.Or(lds == status(I, "NOT_STARTED"), z3.And(lds == status(I, "RUNNING"), no_tasks, no_syn)))]


def _ss_t1_exempt(ctx, t):
    # claim transaction (compensated by zombie resumption, C01/RES) and the two error paths that hand over to CompleteStage
    if any(e.kind == "store_stage" and e.data["expected_phase"] is not SNone for e in t.effects):
        return True
    ps = txn_pushes(t)
    if len(ps) == 1 and ps[0].data["cls"] == "CompleteStage" and not any(e.kind == "mark" for e in t.effects):
        return True
    return False


def _ss_plan_commit(ctx):
    """C05/T2 + C01: the plan commit stores the planned stage, marks the message and pushes at least one start message
    (before-stage StartStage, first StartTask, after-stage StartStage or CompleteStage)."""
    I = ctx.I
    goals = []
    for t in P.committed_txns(ctx):
        se = [e for e in t.effects if e.kind == "store_stage" and e.data["expected_phase"] is SNone]
        if not se or not any(e.kind == "plan" for e in ctx.st.effects):
            continue
        ps = [b for e in t.effects for b, _ in T.flat([e]) if b.kind == "push"]
        goals.append((f"txn{t.tid}.has-start-message", z3.BoolVal(bool(ps))))
        goals.append((f"txn{t.tid}.kinds", z3.BoolVal(all(p.data["cls"] in ("StartStage", "StartTask", "CompleteStage") for p in ps))))
    return goals


def _ss_plan_commits_nothing(ctx):
    """C01/RES: between the claim commit and the plan commit nothing else becomes durable.  _plan_stage persists the synthetic
    stages its builder creates through repository.add_stage -- a commit of its own (the assumed contract of _plan_stage mirrors
    that loop of the real function as one standalone effect) -- so a crash after it leaves a claimed parent whose own planning
    is never repeated (zombie re-plan requires 'no synthetic stages'): finding D7."""
    bad = [e for e in ctx.st.effects if e.kind == "standalone" and e.data["op"] == "plan_synthetic_stages"]
    if not any(e.kind == "plan" for e in ctx.st.effects):
        return []
    return [("", z3.BoolVal(not bad))]


def _ss_bypass_consumed(ctx):
    """C03: the jump bypass is one-shot -- no commit of the start handler leaves _jump_bypass set in the durable context
    of the stage it handles (otherwise a later, ordinary start of that stage would skip its join condition)."""
    from pyvc.ops import val_truthy

    I = ctx.I
    stage = loaded_stage(ctx)
    goals = []
    if stage is None:
        return goals
    key = I.ops.lit("_jump_bypass").t
    for n, (e, g) in enumerate(P.stores(ctx)):
        if not (isinstance(e.data.get("stage"), SObj) and e.data["stage"].oid == stage.oid):
            continue
        snap = e.data["snap"]
        goals.append((f"store{n}", z3.Not(z3.And(z3.Select(snap["ctx_has"], key), val_truthy(z3.Select(snap["ctx_vals"], key))))))
    return goals


def start_stage():
    obls = [
        Obl("C03/handler/dominated-by-READY", _ss_ready, when="any"),
        Obl("C03/handler/bypass-consumed", _ss_bypass_consumed, when="any"),
        Obl("C04/claim-first", _ss_claim_first, when="any"),
        Obl("C01/RES/StartStage.claim-first", _ss_claim_first, when="any"),  # a crash after the claim must leave a stage that a redelivery can still plan
        Obl("C04/loser-silent", _ss_loser_silent, when="any"),
        Obl("C02/once-per-iteration/StartStage", _ss_claim_first, when="any"),
        Obl("C11/claim-in-claim-txn", _ss_claims, when="any"),
        Obl("C11/claim-loser", _ss_claim_loser, when="any"),
        Obl("C11/choice-siblings", _ss_choice_siblings, when="any"),
        Obl("C02/guard/StartStage", _ss_guard, when="any"),
        Obl("C10/absorb/StartStage", _ss_guard, when="any"),
        Obl("C01/T1/StartStage", P.t1_processed_with_effects(_ss_t1_exempt), when="any"),
        Obl("C02/T1/StartStage", P.t1_processed_with_effects(_ss_t1_exempt), when="any"),
        Obl("C09/T1/StartStage", P.t1_processed_with_effects(_ss_t1_exempt), when="any"),
        Obl("C01/T7/StartStage", P.t7_no_split, when="any"),
        Obl("C01/RES/StartStage.plan-commit", _ss_plan_commit, when="any"),
        Obl("C01/RES/StartStage.planning-commits-nothing-on-its-own", _ss_plan_commits_nothing, when="any",
            scenario="d7_crash_between_add_stage_and_plan_commit.py"),
        Obl("C05/T2/StartStage", _ss_plan_commit, when="any"),
        Obl("C06/T3/StartStage", P.t3_legal_write(), when="any"),
        Obl("C06/stage-never-redirect/StartStage", P.stage_status_never_redirect, when="any"),
    ]
    return handler_unit("*", "L2/StartStage", H + "start_stage.handler:StartStageHandler", "StartStage", obls,
                        registry=start_stage_registry())


ALL.append(start_stage)


# ----------------------------------------------------------------------------- SkipStage / CancelStage
def _stage_guard(pred_names, negate=False):
    """acts (store, push other than Invalid*, event) only if the loaded stage status is in / not in pred_names."""
    def check(ctx):
        I = ctx.I
        stage = loaded_stage(ctx)
        if stage is None:
            return []
        lds = T.loaded_info(I, stage)["status"].t
        acts = [e for e, _ in T.flat(ctx.st.effects) if e.kind in ("store_stage", "event", "standalone", "queue_push", "user_code")
                or (e.kind == "push" and not e.data["cls"].startswith("Invalid"))]
        if not acts:
            return []
        g = in_set(lds, I, pred_names)
        return [("", z3.Not(g) if negate else g)]
    return check


def _continuation_after(status_names):
    """T2: the commit that stores the stage in one of `status_names` pushes a continuation (downstream StartStage,
    ContinueParentStage or CompleteWorkflow) -- except for a synthetic stage without parent id (data inconsistency)."""
    def check(ctx):
        I = ctx.I
        goals = []
        for t in P.committed_txns(ctx):
            ss = _addressed_stage_stores(ctx, t)
            if not ss:
                continue
            stage = ss[0][0].data["stage"]
            ps = [b for e in t.effects for b, _ in T.flat([e]) if b.kind == "push"]
            phase_set = z3.Not(I.ops.is_none(I.getattr(stage, "synthetic_stage_owner")))
            no_parent = z3.Not(I.ops.truthy(I.getattr(stage, "parent_stage_id")))
            if not ps:
                goals.append((f"txn{t.tid}.continuation", z3.And(phase_set, no_parent)))
            else:
                goals.append((f"txn{t.tid}.kinds", z3.BoolVal(all(p.data["cls"] in ("StartStage", "ContinueParentStage", "CompleteWorkflow") for p in ps))))
            goals.append((f"txn{t.tid}.status", in_set(ss[0][0].data["snap"]["status"].t, I, status_names)))
        return goals
    return check


def _events_inside(kinds):
    def check(ctx):
        evs = [e for e in ctx.st.effects if e.kind == "event" and e.data["kind"] in kinds]
        return [(f"event{n}.inside-txn", z3.BoolVal(e.data.get("in_txn") is not None)) for n, e in enumerate(evs)]
    return check


def skip_stage():
    obls = [
        Obl("C02/guard/SkipStage", _stage_guard(("NOT_STARTED",)), when="any"),
        Obl("C10/absorb/SkipStage", _stage_guard(("NOT_STARTED",)), when="any"),
        Obl("C01/T1/SkipStage", P.t1_processed_with_effects(), when="any"),
        Obl("C02/T1/SkipStage", P.t1_processed_with_effects(), when="any"),
        Obl("C09/T1/SkipStage", P.t1_processed_with_effects(), when="any"),
        Obl("C01/T6/SkipStage", P.t6_single_commit(), when="any"),
        Obl("C01/T7/SkipStage", P.t7_no_split, when="any"),
        Obl("C13/T7/SkipStage", P.t7_no_split, when="any"),  # nothing commits on its own inside the completion transaction (it would commit the completion without its event)
        Obl("C05/T2/SkipStage", _continuation_after(("SKIPPED",)), when="any"),
        Obl("C03/push/SkipStage", _continuation_after(("SKIPPED",)), when="any"),
        Obl("C05/T2b/SkipStage", P.no_push_after_commit, when="any"),
        Obl("C06/T3/SkipStage", P.t3_legal_write(), when="any"),
        Obl("C13/T4/SkipStage", _events_inside(("record_stage_skipped",)), when="any", scenario="d6a_skip_event_outside_txn.py"),
    ]
    return handler_unit("*", "L2/SkipStage", H + "skip_stage:SkipStageHandler", "SkipStage", obls, registry=run_task_registry())


def _cancel_stage_post(ctx):
    """C17: a non-complete stage is stored CANCELED with every NOT_STARTED/RUNNING task CANCELED and every other task
    unchanged, in one transaction with the mark; nothing is pushed."""
    I = ctx.I
    goals = []
    for n, (e, g) in enumerate(P.stores(ctx)):
        ld, snap = e.data["loaded"], e.data["snap"]
        goals.append((f"store{n}.stage-canceled", snap["status"].t == status(I, "CANCELED")))
        i = fresh_int("ti")
        li, si = z3.Select(ld["task_status"], i), z3.Select(snap["task_status"], i)
        rng = z3.And(i >= 0, i < snap["task_len"])
        goals.append((f"store{n}.live-tasks-canceled", z3.Implies(z3.And(rng, in_set(li, I, ("NOT_STARTED", "RUNNING"))), si == status(I, "CANCELED"))))
        goals.append((f"store{n}.other-tasks-unchanged", z3.Implies(z3.And(rng, z3.Not(in_set(li, I, ("NOT_STARTED", "RUNNING")))), si == li)))
    ps = [e for e, _ in T.flat(ctx.st.effects) if e.kind in ("push", "queue_push") and not e.data["cls"].startswith("Invalid")]
    goals.append(("no-push", z3.BoolVal(not ps)))
    # ... and the other way round (the workflow ends with every stage finished or canceled): a CancelStage that stores nothing had
    # found the stage already complete -- a stage that is not complete, with or without tasks, is never skipped
    stage = loaded_stage(ctx)
    if stage is not None and ctx.exc is None and not P.stores(ctx):
        goals.append(("skipped-only-when-already-complete", is_complete(I, T.loaded_info(I, stage)["status"].t)))
    return goals


def cancel_stage_registry():
    reg = run_task_registry()
    # cancel_task(task_id) -> bool: True when the task is executing in this process and has been told to stop (assumed: any answer)
    reg.contracts["stabilize.resilience.cancellation:cancel_task"] = lambda I, a, k: __import__("pyvc.values", fromlist=["SBool"]).SBool(
        __import__("pyvc.values", fromlist=["fresh_bool"]).fresh_bool("task_runs_in_this_process"))
    return reg


def _cancel_stage_event(ctx):
    """C12 (the log reproduces the stored status of every stage that went through the regular cancel step): a run that commits the
    stage CANCELED records one stage-canceled event for it (when a recorder is configured) -- whatever the stage's status was
    before, NOT_STARTED included; a run that commits nothing records none."""
    I = ctx.I
    if ctx.exc is not None:
        return []
    h = ctx.extra["handler"]
    rec_absent = I.st.objs[h.oid].fields["_event_recorder"].isnone
    evs = [e for e in ctx.st.effects if e.kind == "event" and e.data["kind"] == "record_stage_canceled"]
    canc = [(e, g) for e, g in P.stores(ctx) if True]
    if not canc:
        return [("no-event-without-the-status-commit", z3.BoolVal(not evs))]
    goals = []
    for n, (e, g) in enumerate(canc):
        stt = e.data["snap"]["status"].t
        goals.append((f"store{n}.canceled-event-recorded", z3.Implies(z3.And(g, stt == status(I, "CANCELED"), z3.Not(rec_absent)), z3.BoolVal(len(evs) == 1))))
    for e in evs:
        ent = e.data.get("entity")
        goals.append(("event-is-about-the-stored-stage", z3.BoolVal(isinstance(ent, SObj) and any(isinstance(c.data["snap"]["obj"], SObj) and c.data["snap"]["obj"].oid == ent.oid for c, _ in canc))))
    return goals


def cancel_stage():
    complete = ("SUCCEEDED", "FAILED_CONTINUE", "SKIPPED", "TERMINAL", "CANCELED", "STOPPED")
    obls = [
        Obl("C02/guard/CancelStage", _stage_guard(complete, negate=True), when="any"),
        Obl("C10/absorb/CancelStage", _stage_guard(complete, negate=True), when="any"),
        Obl("C17/cancel-stage", _cancel_stage_post, when="any"),
        Obl("C12/T4/CancelStage", _cancel_stage_event, when="any"),
        Obl("C01/T1/CancelStage", P.t1_processed_with_effects(), when="any"),
        Obl("C02/T1/CancelStage", P.t1_processed_with_effects(), when="any"),
        Obl("C09/T1/CancelStage", P.t1_processed_with_effects(), when="any"),
        Obl("C01/T6/CancelStage", P.t6_single_commit(), when="any"),
        Obl("C01/T7/CancelStage", P.t7_no_split, when="any"),
        Obl("C06/T3/CancelStage", P.t3_legal_write(), when="any"),
        Obl("C06/stage-task-inv/CancelStage", P.establishes_stage_task_inv, when="any"),
        Obl("C18/only-signal-wakes/CancelStage", _cancel_stage_post, when="any"),
    ]
    return handler_unit("*", "L2/CancelStage", H + "cancel_stage:CancelStageHandler", "CancelStage", obls, registry=cancel_stage_registry())


ALL += [skip_stage, cancel_stage]


# ----------------------------------------------------------------------------- workflow control
WC = H + "workflow_control:"
COMPLETE = ("SUCCEEDED", "FAILED_CONTINUE", "SKIPPED", "TERMINAL", "CANCELED", "STOPPED")


def _cancel_workflow_post(ctx):
    """C17: for an execution that is not complete: the cancel flag is persisted (standalone, idempotent) and ONE
    transaction marks the message, pushes CancelStage for EVERY top-level stage whose loaded status is not complete,
    and pushes one CompleteWorkflow.  For a complete execution: mark only."""
    I = ctx.I
    ex = loaded_execution(ctx)
    if ex is None or ctx.exc is not None:
        return []
    lds = T.loaded_info(I, ex)["status"].t
    goals = []
    txns = [t for t in P.committed_txns(ctx)]
    pushes_ = [b for t in txns for e in t.effects for b, _ in T.flat([e]) if b.kind == "push"]
    cancels = [e for e in ctx.st.effects if e.kind == "standalone" and e.data["op"] == "cancel"]
    if not pushes_:
        goals.append(("mark-only-when-complete", z3.And(is_complete(I, lds), z3.BoolVal(not cancels))))
        return goals
    goals.append(("not-complete", z3.Not(is_complete(I, lds))))
    goals.append(("flag-persisted-once-before-txn", z3.BoolVal(len(cancels) == 1 and ctx.st.effects.index(cancels[0]) <
                                                               min(i for i, e in enumerate(ctx.st.effects) if e.kind == "txn_begin"))))
    goals.append(("one-txn", z3.BoolVal(len([t for t in txns if P._has_write(t)]) == 1)))
    cw = [p for p in pushes_ if p.data["cls"] == "CompleteWorkflow"]
    goals.append(("one-complete-workflow", z3.BoolVal(len(cw) == 1)))
    stages = I.getattr(ex, "stages")
    fe = [e for t in txns for e in t.effects if e.kind == "foreach" and e.data["lid"] == stages.lid
          and any(b.kind == "push" and b.data["cls"] == "CancelStage" for b in e.data["body"])]
    j = fresh_int("sj")
    n = I.ops.list_len(stages)
    stt = z3.Select(I._elem_array(stages.lid, "status", I.typer.sort_of(("enum", WS))), j)
    top = z3.Select(I._elem_array(stages.lid, "parent_stage_id?", z3.BoolSort()), j)
    covered = z3.Or(*[z3.And(j < e.data["hi"], z3.substitute(e.data["cond"], (e.data["g"], j))) for e in fe]) if fe else FALSE
    goals.append(("every-unfinished-top-level-stage", z3.Implies(z3.And(j >= 0, j < n, top, z3.Not(is_complete(I, stt))), covered)))
    for k_, e in enumerate(fe):
        b = [x for x in e.data["body"] if x.kind == "push"][0]
        sid = I.getattr(b.data["msg"], "stage_id")
        ids = I._elem_array(stages.lid, "id", z3.IntSort())
        goals.append((f"cancel{k_}.addresses-that-stage", sid.t == z3.Select(ids, e.data["g"])))
    return goals


def cancel_workflow():
    obls = [
        Obl("C17/cancel-workflow", _cancel_workflow_post, when="any"),
        Obl("C01/RES/CancelWorkflow", _cancel_workflow_post, when="any"),
        Obl("C01/T1/CancelWorkflow", P.t1_processed_with_effects(), when="any"),
        Obl("C02/T1/CancelWorkflow", P.t1_processed_with_effects(), when="any"),
        Obl("C09/T1/CancelWorkflow", P.t1_processed_with_effects(), when="any"),
        Obl("C01/T7/CancelWorkflow", P.t7_no_split, when="any"),
        Obl("C06/T3/CancelWorkflow", P.t3_legal_write(), when="any"),
    ]
    return handler_unit("*", "L2/CancelWorkflow", WC + "CancelWorkflowHandler", "CancelWorkflow", obls, registry=run_task_registry())


def _rearm_allowed(ctx, e, cur, new):
    # RestartStage is one of the two explicit re-arm sites of C06: any status -> NOT_STARTED for stage and tasks, and the
    # finished workflow of the restarted stage goes back to RUNNING
    if e.kind == "update_workflow":
        return z3.And(is_complete(ctx.I, cur), new == status(ctx.I, "RUNNING"))
    return new == status(ctx.I, "NOT_STARTED")


def _restart_post(ctx):
    """RestartStage re-arms only a complete stage of an execution that is not canceled; stores it NOT_STARTED together
    with the mark and a StartStage for it."""
    I = ctx.I
    goals = []
    for n, (e, g) in enumerate(P.stores(ctx)):
        ld, snap = e.data["loaded"], e.data["snap"]
        goals.append((f"store{n}.was-complete", is_complete(I, ld["status"].t)))
        goals.append((f"store{n}.not-started", snap["status"].t == status(I, "NOT_STARTED")))
        ex = I.getattr(e.data["stage"], "execution")
    for t in P.committed_txns(ctx):
        if any(x.kind == "store_stage" for x in t.effects):
            ps = txn_pushes(t)
            goals.append((f"txn{t.tid}.start-stage", z3.BoolVal(len(ps) == 1 and ps[0].data["cls"] == "StartStage")))
    return goals


def restart_stage():
    obls = [
        Obl("C06/rearm/RestartStage", _restart_post, when="any"),
        Obl("C06/T3/RestartStage", P.t3_legal_write(allow=_rearm_allowed), when="any"),
        Obl("C01/T1/RestartStage", P.t1_processed_with_effects(), when="any"),
        Obl("C09/T1/RestartStage", P.t1_processed_with_effects(), when="any"),
        Obl("C01/T6/RestartStage", P.t6_single_commit(), when="any"),
        Obl("C01/T7/RestartStage", P.t7_no_split, when="any"),
    ]
    return handler_unit("*", "L2/RestartStage", WC + "RestartStageHandler", "RestartStage", obls, registry=run_task_registry())


def resume_stage():
    obls = [
        Obl("C02/guard/ResumeStage", _stage_guard(("PAUSED",)), when="any"),
        Obl("C06/T3/ResumeStage", P.t3_legal_write(), when="any"),
        Obl("C01/T1/ResumeStage", P.t1_processed_with_effects(), when="any"),
        Obl("C09/T1/ResumeStage", P.t1_processed_with_effects(), when="any"),
        Obl("C01/T6/ResumeStage", P.t6_single_commit(), when="any"),
        Obl("C01/T7/ResumeStage", P.t7_no_split, when="any"),
    ]
    return handler_unit("*", "L2/ResumeStage", WC + "ResumeStageHandler", "ResumeStage", obls, registry=run_task_registry())


def pause_task():
    obls = [
        Obl("C06/T3/PauseTask", P.t3_legal_write(), when="any"),
        Obl("C01/T1/PauseTask", P.t1_processed_with_effects(), when="any"),
        Obl("C09/T1/PauseTask", P.t1_processed_with_effects(), when="any"),
        Obl("C01/T6/PauseTask", P.t6_single_commit(), when="any"),
        Obl("C01/T7/PauseTask", P.t7_no_split, when="any"),
    ]
    return handler_unit("*", "L2/PauseTask", WC + "PauseTaskHandler", "PauseTask", obls, registry=run_task_registry())


ALL += [cancel_workflow, restart_stage, resume_stage, pause_task]


# ----------------------------------------------------------------------------- SignalStage
def _ctx_key(ctx, arr_has, arr_vals, name):
    k = ctx.I.ops.lit(name).t
    return z3.Select(arr_has, k), z3.Select(arr_vals, k)


def _signal_post(ctx):
    """C18: the three cases of a signal.
    suspended  -> one transaction: stage RUNNING, the first SUSPENDED task RUNNING (others unchanged), _signal_name /
                  _signal_data stored, mark, exactly one push (RunTask for that task, or StartStage if there is none);
    otherwise, persistent -> one transaction: status unchanged, _buffered_signals' = old ++ [signal], mark, no push;
    otherwise, transient  -> nothing but the mark."""
    from pyvc.values import VAL, vlist_get, vlist_len, vdict_get, vdict_has

    I = ctx.I
    stage = loaded_stage(ctx)
    if stage is None or ctx.exc is not None:
        return []
    msg = ctx.extra["message"]
    ld = T.loaded_info(I, stage)
    lds = ld["status"].t
    susp = lds == status(I, "SUSPENDED")
    persistent = I.ops.truthy(I.getattr(msg, "persistent"))
    ss = P.stores(ctx)
    ps = [e for e, _ in T.flat(ctx.st.effects) if e.kind == "push" and not e.data["cls"].startswith("Invalid")]
    goals = []
    if not ss:
        goals.append(("dropped-only-when-transient-and-not-suspended", z3.And(z3.Not(susp), z3.Not(persistent))))
        goals.append(("dropped-pushes-nothing", z3.BoolVal(not ps)))
        return goals
    goals.append(("one-store", z3.BoolVal(len(ss) == 1)))
    e = ss[0][0]
    snap = e.data["snap"]
    i = fresh_int("ti")
    li, si = z3.Select(ld["task_status"], i), z3.Select(snap["task_status"], i)
    rng = z3.And(i >= 0, i < snap["task_len"])
    if ps:
        goals.append(("resumes-only-suspended", susp))
        goals.append(("stage-running", snap["status"].t == status(I, "RUNNING")))
        goals.append(("one-push", z3.BoolVal(len(ps) == 1)))
        hn, vn = _ctx_key(ctx, snap["ctx_has"], snap["ctx_vals"], "_signal_name")
        goals.append(("signal-name-stored", z3.And(hn, vn == I.ops.to_val(I.getattr(msg, "signal_name")))))
        hd, vd = _ctx_key(ctx, snap["ctx_has"], snap["ctx_vals"], "_signal_data")
        goals.append(("signal-data-stored", hd))
        p = ps[0]
        if p.data["cls"] == "RunTask":
            w = found_task_index(ctx, stage)
            ids = I._elem_array(I.getattr(stage, "tasks").lid, "id", z3.IntSort())
            goals.append(("first-suspended-task", z3.And(z3.Select(ld["task_status"], w) == status(I, "SUSPENDED"),
                                                        I.getattr(p.data["msg"], "task_id").t == z3.Select(ids, w),
                                                        z3.Implies(z3.And(rng, i < w), li != status(I, "SUSPENDED")))))
            goals.append(("that-task-running", z3.Select(snap["task_status"], w) == status(I, "RUNNING")))
            goals.append(("other-tasks-unchanged", z3.Implies(z3.And(rng, i != w), si == li)))
        elif p.data["cls"] == "StartStage":
            goals.append(("no-suspended-task", z3.Implies(rng, li != status(I, "SUSPENDED"))))
            goals.append(("tasks-unchanged", z3.Implies(rng, si == li)))
        else:
            goals.append(("push-kind", FALSE))
    else:
        goals.append(("buffers-only-persistent-on-not-suspended", z3.And(z3.Not(susp), persistent)))
        goals.append(("status-unchanged", snap["status"].t == lds))
        goals.append(("tasks-unchanged", z3.Implies(rng, si == li)))
        ho, vo = _ctx_key(ctx, ld["ctx_has"], ld["ctx_vals"], "_buffered_signals")
        hn, vn = _ctx_key(ctx, snap["ctx_has"], snap["ctx_vals"], "_buffered_signals")
        old_len = z3.If(ho, vlist_len(VAL.vl(vo)), 0)
        nl = VAL.vl(vn)
        goals.append(("buffer-grows-by-one", z3.And(hn, VAL.is_VList(vn), vlist_len(nl) == old_len + 1)))
        last = vlist_get(nl, old_len)
        nm = I.ops.lit("signal_name").t
        goals.append(("last-is-this-signal", z3.And(VAL.is_VDict(last), vdict_has(VAL.vd(last), nm),
                                                    vdict_get(VAL.vd(last), nm) == I.ops.to_val(I.getattr(msg, "signal_name")))))
        goals.append(("earlier-entries-kept", z3.Implies(z3.And(ho, i >= 0, i < old_len), vlist_get(nl, i) == vlist_get(VAL.vl(vo), i))))
    return goals


def signal_stage():
    obls = [
        Obl("C18/signal", _signal_post, when="any"),
        Obl("C18/T1/SignalStage", P.t1_processed_with_effects(), when="any"),
        Obl("C01/T1/SignalStage", P.t1_processed_with_effects(), when="any"),
        Obl("C09/T1/SignalStage", P.t1_processed_with_effects(), when="any"),
        Obl("C18/T6/SignalStage", P.t6_single_commit(), when="any"),
        Obl("C01/T6/SignalStage", P.t6_single_commit(), when="any"),
        Obl("C01/T7/SignalStage", P.t7_no_split, when="any"),
        Obl("C06/T3/SignalStage", P.t3_legal_write(), when="any"),
        Obl("C18/only-signal-wakes/SignalStage", P.t3_legal_write(), when="any"),
    ]
    return handler_unit("*", "L2/SignalStage", H + "signal_stage:SignalStageHandler", "SignalStage", obls, registry=run_task_registry())


ALL.append(signal_stage)


# ----------------------------------------------------------------------------- ContinueParentStage
def _cps_extra(I):
    return {}


def _cps_setup(ctx):
    I = ctx.I
    rec = I.st.objs[ctx.extra["handler"].oid]
    rec.fields["txn_helper"] = I.construct(I.index.find_class("TransactionHelper"), [rec.fields["repository"], rec.fields["queue"]], {})


def _every_commit_continues(kinds):
    def check(ctx):
        goals = []
        for t in P.committed_txns(ctx):
            if not P._has_write(t):
                continue
            ps = [b for e in t.effects for b, _ in T.flat([e]) if b.kind == "push"]
            goals.append((f"txn{t.tid}.pushes", z3.BoolVal(bool(ps) and all(p.data["cls"] in kinds or p.data["cls"].startswith("Invalid") for p in ps))))
        return goals
    return check


def _cps_starts_first_task(ctx):
    """C02 (redelivery never changes the result): one ContinueParentStage arrives per finished before-stage, so the handler
    runs several times for one stage; every run may only (re-)issue StartTask for the stage's FIRST task -- a duplicate of
    that message is absorbed by the StartTask status guard, whereas StartTask for a later task would run it out of order,
    before the first task has produced its result."""
    I = ctx.I
    stage = loaded_stage(ctx)
    if stage is None:
        return []
    goals = []
    tasks = I.getattr(stage, "tasks")
    for n, (e, g) in enumerate(P.pushes(ctx, "StartTask")):
        first_id = I.getattr(SElem(tasks.lid, (z3.IntVal(0),)), "id")
        goals.append((f"push{n}", z3.Implies(g, z3.And(I.ops.list_len(tasks) > 0, I.ops.eq(I.getattr(e.data["msg"], "task_id"), first_id),
                                                       I.ops.eq(I.getattr(e.data["msg"], "stage_id"), I.getattr(stage, "id"))))))
    return goals


def _cps_finalises_with_halt(ctx):
    """C05 (the continuation that belongs to the stored status): when ContinueParentStage finalises the parent itself and hands
    it on with CompleteStage(parent), the status it stores is a HALT status -- CompleteStage, finding the stage already
    complete, continues (to the parent or to CompleteWorkflow) only from a halt status; from any other completed status it
    returns, and nothing would ever start the downstream stages or end the workflow."""
    I = ctx.I
    msg = ctx.extra["message"]
    goals = []
    for t in P.committed_txns(ctx):
        ss = [e for e in t.effects if e.kind == "store_stage"]
        ps = [p for p in txn_pushes(t) if p.data["cls"] == "CompleteStage"]
        for e in ss:
            stt = e.data["snap"]["status"].t
            for p in ps:
                same = I.ops.eq(I.getattr(p.data["msg"], "stage_id"), e.data["snap"]["id"])
                goals.append((f"txn{t.tid}.a-stage-finalised-here-and-sent-to-CompleteStage-has-a-halt-status",
                              z3.Implies(z3.And(same, is_complete(I, stt)), I.ops.truthy(I.enum_getattr(SEnum(WS, stt), "is_halt")))))
    return goals


def continue_parent_stage():
    obls = [
        Obl("C05/finalise/ContinueParentStage", _cps_finalises_with_halt, when="any"),
        Obl("C02/order/ContinueParentStage.starts-the-first-task", _cps_starts_first_task, when="any"),
        Obl("C05/T2/ContinueParentStage", _every_commit_continues(("CompleteStage", "StartTask", "StartStage")), when="any"),
        Obl("C05/T2b/ContinueParentStage", P.no_push_after_commit, when="any"),
        Obl("C01/T1/ContinueParentStage", P.t1_processed_with_effects(), when="any"),
        Obl("C02/T1/ContinueParentStage", P.t1_processed_with_effects(), when="any"),
        Obl("C09/T1/ContinueParentStage", P.t1_processed_with_effects(), when="any"),
        Obl("C01/T6/ContinueParentStage", P.t6_single_commit(), when="any"),
        Obl("C01/T7/ContinueParentStage", P.t7_no_split, when="any"),
        Obl("C06/T3/ContinueParentStage", P.t3_legal_write(), when="any"),
        Obl("C06/stage-never-redirect/ContinueParentStage", P.stage_status_never_redirect, when="any"),
    ]
    return handler_unit("*", "L2/ContinueParentStage", H + "continue_parent_stage:ContinueParentStageHandler", "ContinueParentStage", obls,
                        registry=run_task_registry(), setup=_cps_setup)


ALL.append(continue_parent_stage)


# ----------------------------------------------------------------------------- StartWorkflow / CompleteWorkflow
def workflow_registry():
    from pyvc.values import SBool, fresh_bool

    reg = run_task_registry()
    reg.contracts["*._should_queue"] = lambda I, a, k: SBool(fresh_bool("should_queue"))
    reg.contracts["stabilize.audit:audit"] = lambda I, a, k: SNone
    reg.contracts["stabilize.models.workflow:Workflow.cleanup"] = lambda I, a, k: SNone  # breaks reference cycles only
    T.install_recorder(reg)
    reg.methods[("EventRecorder", "record_workflow_created")] = reg.methods[("EventRecorder", "record_workflow_started")]
    return reg


def _exec_guard(names, negate=False):
    def check(ctx):
        I = ctx.I
        ex = loaded_execution(ctx)
        if ex is None:
            return []
        lds = T.loaded_info(I, ex)["status"].t
        acts = [e for e, _ in T.flat(ctx.st.effects) if e.kind in ("update_workflow", "store_stage", "event", "standalone", "queue_push")
                or (e.kind == "push" and not e.data["cls"].startswith("Invalid"))]
        if not acts:
            return []
        g = in_set(lds, I, names)
        return [("", z3.Not(g) if negate else g)]
    return check


def _start_workflow_t2(ctx):
    """T2: the commit that sets the workflow RUNNING pushes StartStage for every initial top-level stage."""
    I = ctx.I
    ex = loaded_execution(ctx)
    goals = []
    for t in P.committed_txns(ctx):
        ups = [e for e in t.effects if e.kind == "update_workflow"]
        if not ups or not z3.is_true(z3.simplify(ups[0].data["status"].t == status(I, "RUNNING"))):
            continue
        stages = I.getattr(ex, "stages")
        fe = [e for e in t.effects if e.kind == "foreach" and e.data["lid"] == stages.lid]
        goals.append((f"txn{t.tid}.pushes-start-stages", z3.BoolVal(bool(fe) and all(b.kind == "push" and b.data["cls"] == "StartStage" for e in fe for b in e.data["body"]))))
        j = fresh_int("sj")
        n = I.ops.list_len(stages)
        top = z3.Select(I._elem_array(stages.lid, "parent_stage_id?", z3.BoolSort()), j)
        req = I.elem_field(SElem(stages.lid, (j,)), "requisite_stage_ref_ids", ("set", ("str",)))
        initial = I.ops.list_len(req) == 0
        covered = z3.Or(*[z3.And(j < e.data["hi"], z3.substitute(e.data["cond"], (e.data["g"], j))) for e in fe]) if fe else FALSE
        goals.append((f"txn{t.tid}.every-initial-stage", z3.Implies(z3.And(j >= 0, j < n, top, initial), covered)))
    return goals


def start_workflow():
    obls = [
        Obl("C10/absorb/StartWorkflow", _exec_guard(("NOT_STARTED",)), when="any"),
        Obl("C02/guard/StartWorkflow", _exec_guard(("NOT_STARTED",)), when="any"),
        Obl("C05/T2/StartWorkflow", _start_workflow_t2, when="any"),
        Obl("C01/T1/StartWorkflow", P.t1_processed_with_effects(), when="any"),
        Obl("C09/T1/StartWorkflow", P.t1_processed_with_effects(), when="any"),
        Obl("C01/T6/StartWorkflow", P.t6_single_commit(), when="any"),
        Obl("C01/T7/StartWorkflow", P.t7_no_split, when="any"),
        Obl("C06/T3/StartWorkflow", P.t3_legal_write(), when="any"),
    ]
    return handler_unit("*", "L2/StartWorkflow", H + "start_workflow:StartWorkflowHandler", "StartWorkflow", obls, registry=workflow_registry())


def _complete_workflow_post(ctx):
    """C05/C17: the commit that ends the workflow stores a complete status; when that status is not SUCCEEDED the same
    commit pushes CancelStage for every top-level stage loaded RUNNING; a not-ready workflow is never silently dropped:
    either a CompleteWorkflow with retry_count + 1 is re-queued or (retry budget exhausted) the workflow goes TERMINAL."""
    I = ctx.I
    ex = loaded_execution(ctx)
    if ex is None or ctx.exc is not None:
        return []
    msg = ctx.extra["message"]
    lds = T.loaded_info(I, ex)["status"].t
    goals = []
    ups = [(t, e) for t in P.committed_txns(ctx) for e in t.effects if e.kind == "update_workflow"]
    requeues = [e for e in ctx.st.effects if e.kind == "queue_push" and e.data["cls"] == "CompleteWorkflow"]
    if not ups:
        if requeues:
            r = requeues[0]
            rc = I.getattr(msg, "retry_count")
            rct = z3.If(I.ops.truthy(rc), I.ops.as_int(rc), 0)
            goals.append(("requeue-increments-retry", I.ops.as_int(I.getattr(r.data["msg"], "retry_count")) == rct + 1))
            goals.append(("requeue-same-execution", I.ops.eq(I.getattr(r.data["msg"], "execution_id"), I.getattr(msg, "execution_id"))))
        else:
            goals.append(("silent-only-when-already-complete", is_complete(I, lds)))
        return goals
    t, u = ups[0]
    stt = u.data["status"].t
    goals.append(("final-status-complete", is_complete(I, stt)))
    goals.append(("was-not-complete", z3.Not(is_complete(I, lds))))
    stages = I.getattr(ex, "stages")
    fe = [e for e in t.effects if e.kind == "foreach" and e.data["lid"] == stages.lid
          and any(b.kind == "push" and b.data["cls"] == "CancelStage" for b in e.data["body"])]
    j = fresh_int("sj")
    n = I.ops.list_len(stages)
    sarr = I._elem_array(stages.lid, "status", I.typer.sort_of(("enum", WS)))
    top = z3.Select(I._elem_array(stages.lid, "parent_stage_id?", z3.BoolSort()), j)
    covered = z3.Or(*[z3.And(j < e.data["hi"], z3.substitute(e.data["cond"], (e.data["g"], j))) for e in fe]) if fe else FALSE
    goals.append(("cancels-running-stages-when-not-succeeded",
                  z3.Implies(z3.And(stt != status(I, "SUCCEEDED"), j >= 0, j < n, top, z3.Select(sarr, j) == status(I, "RUNNING")), covered)))
    return goals


def _cw_events(ctx):
    """C12 (crash-free replay gives the stored status): the handler run that commits the final workflow status records exactly
    one workflow completion event (when a recorder is configured), and the KIND of that event is the one replay maps back to
    the stored status: `canceled` only for CANCELED (replay sets the fixed status CANCELED), `failed` only for a failure
    status, `completed` otherwise (those two carry the status themselves -- recorder units).  The event is recorded before the
    transaction, not inside it; C13 speaks of stage and task completion events only, so that is not an obligation here."""
    I = ctx.I
    if ctx.exc is not None:
        return []
    h = ctx.extra["handler"]
    rec_absent = I.st.objs[h.oid].fields["_event_recorder"].isnone
    kinds = ("record_workflow_completed", "record_workflow_failed", "record_workflow_canceled")
    evs = [e for e in ctx.st.effects if e.kind == "event" and e.data["kind"] in kinds]
    goals = []
    ups = [e for t in P.committed_txns(ctx) for e in t.effects if e.kind == "update_workflow"]
    if not ups:
        return [("no-completion-event-without-the-status-commit", z3.BoolVal(not evs))]
    stt = ups[0].data["status"].t
    goals.append(("one-completion-event", z3.Implies(z3.And(is_complete(I, stt), z3.Not(rec_absent)), z3.BoolVal(len(evs) == 1))))
    for e in evs:
        k = e.data["kind"]
        if k == "record_workflow_canceled":
            goals.append(("canceled-event-only-for-CANCELED", stt == status(I, "CANCELED")))
        elif k == "record_workflow_failed":
            goals.append(("failed-event-only-for-a-failure", z3.And(stt != status(I, "CANCELED"), stt != status(I, "SUCCEEDED"))))
        else:
            goals.append(("completed-event-not-for-CANCELED", stt != status(I, "CANCELED")))
    return goals


def complete_workflow():
    obls = [
        Obl("C12/T4/CompleteWorkflow", _cw_events, when="any"),
        Obl("C05/complete-workflow", _complete_workflow_post, when="any"),
        Obl("C17/final/CompleteWorkflow", _complete_workflow_post, when="any"),
        Obl("C02/guard/CompleteWorkflow", _exec_guard(COMPLETE, negate=True), when="any"),
        Obl("C01/T1/CompleteWorkflow", P.t1_processed_with_effects(), when="any"),
        Obl("C09/T1/CompleteWorkflow", P.t1_processed_with_effects(), when="any"),
        Obl("C01/T6/CompleteWorkflow", P.t6_single_commit(), when="any"),
        Obl("C01/T7/CompleteWorkflow", P.t7_no_split, when="any"),
        Obl("C06/T3/CompleteWorkflow", P.t3_legal_write(), when="any"),
    ]
    return handler_unit("*", "L2/CompleteWorkflow", H + "complete_workflow:CompleteWorkflowHandler", "CompleteWorkflow", obls, registry=workflow_registry())


ALL += [start_workflow, complete_workflow]


# ----------------------------------------------------------------------------- pure-ish decision functions used by C05
def _final_status_post(ctx):
    """C05/final-status on the real CompleteWorkflowHandler._determine_final_status."""
    I = ctx.I
    if ctx.exc is not None:
        return [("no-exception", FALSE)]
    ex = ctx.args["execution"]
    msg = ctx.args["message"]
    stages = I.getattr(ex, "stages")
    j = fresh_int("sj")
    n = I.ops.list_len(stages)
    sarr = I._elem_array(stages.lid, "status", I.typer.sort_of(("enum", WS)))
    top = z3.Select(I._elem_array(stages.lid, "parent_stage_id?", z3.BoolSort()), j)
    in_rng = z3.And(j >= 0, j < n, top)
    res = ctx.result
    goals = []
    isnone = I.ops.is_none(res)
    rt = I.ops.strip_opt(res).t if not (res is SNone) else None
    if rt is not None:
        succeeded = z3.And(z3.Not(isnone), rt == status(I, "SUCCEEDED"))
        goals.append(("succeeded-implies-every-top-level-stage-continuable",
                      z3.Implies(z3.And(succeeded, in_rng), in_set(z3.Select(sarr, j), I, ("SUCCEEDED", "FAILED_CONTINUE", "SKIPPED", "REDIRECT")))))
        goals.append(("terminal-stage-means-terminal", z3.Implies(z3.And(in_rng, z3.Select(sarr, j) == status(I, "TERMINAL"), z3.Not(isnone)),
                                                                 rt == status(I, "TERMINAL"))))
        goals.append(("result-is-final", z3.Implies(z3.Not(isnone), in_set(rt, I, ("SUCCEEDED", "TERMINAL", "CANCELED")))))
    pushes_ = [e for e in ctx.st.effects if e.kind == "queue_push"]
    if pushes_:
        goals.append(("requeue-only-when-not-ready", isnone))
        rc = I.getattr(msg, "retry_count")
        rct = z3.If(I.ops.truthy(rc), I.ops.as_int(rc), 0)
        goals.append(("requeue-increments-retry", I.ops.as_int(I.getattr(pushes_[0].data["msg"], "retry_count")) == rct + 1))
    else:
        goals.append(("not-ready-is-never-silent", z3.Not(isnone)))
    return goals


def _final_status_cancel(ctx):
    """C17 (the workflow ends CANCELED): once a top-level stage is CANCELED and none is TERMINAL, the decided outcome is CANCELED --
    never SUCCEEDED, whatever else the other branches did (a STOPPED branch included)."""
    I = ctx.I
    if ctx.exc is not None:
        return [("no-exception", FALSE)]
    ex = ctx.args["execution"]
    stages = I.getattr(ex, "stages")
    j, k = fresh_int("sj"), z3.Int("sk")
    n = I.ops.list_len(stages)
    sarr = I._elem_array(stages.lid, "status", I.typer.sort_of(("enum", WS)))
    toparr = I._elem_array(stages.lid, "parent_stage_id?", z3.BoolSort())
    res = ctx.result
    if res is SNone:
        return []
    isnone = I.ops.is_none(res)
    rt = I.ops.strip_opt(res).t
    canceled_j = z3.And(j >= 0, j < n, z3.Select(toparr, j), z3.Select(sarr, j) == status(I, "CANCELED"))
    no_terminal = z3.ForAll([k], z3.Implies(z3.And(k >= 0, k < n, z3.Select(toparr, k)), z3.Select(sarr, k) != status(I, "TERMINAL")))
    return [("canceled-stage-never-ends-succeeded", z3.Implies(z3.And(canceled_j, z3.Not(isnone)), rt != status(I, "SUCCEEDED"))),
            ("canceled-stage-and-no-terminal-one-ends-canceled", z3.Implies(z3.And(canceled_j, no_terminal, z3.Not(isnone)), rt == status(I, "CANCELED")))]


def final_status_unit():
    from pyvc.verify import Unit
    from .common import STATUS_NAMES
    from .hcommon import make_handler

    def selfv(ctx):
        return make_handler(ctx.I, H + "complete_workflow:CompleteWorkflowHandler")

    return Unit(prop="*", name="L3/_determine_final_status", func=H + "complete_workflow:CompleteWorkflowHandler._determine_final_status",
                params=[("execution", ("obj", "Workflow")), ("message", ("obj", "CompleteWorkflow"))], self_type=selfv,
                names=STATUS_NAMES, registry=workflow_registry(), replayable=False,
                obligations=[Obl("C05/final-status", _final_status_post, when="any", scenario="d5_stopped_stage_workflow_succeeded.py"),
                             Obl("C17/final-status/canceled", _final_status_cancel, when="any")])


ALL.append(final_status_unit)


def _determine_status_post(ctx):
    """C05/determine_status on the real StageExecution.determine_status (the contract CompleteStage relies on)."""
    I = ctx.I
    if ctx.exc is not None:
        return [("no-exception", FALSE)]
    stage = ctx.self_val
    rt = ctx.result.t
    tasks = I.getattr(stage, "tasks")
    tarr = I._elem_array(tasks.lid, "status", I.typer.sort_of(("enum", WS)))
    i = fresh_int("ti")
    trng = z3.And(i >= 0, i < I.ops.list_len(tasks))
    ex = I.getattr(stage, "execution")
    stages = I.getattr(ex, "stages")
    sarr = I._elem_array(stages.lid, "status", I.typer.sort_of(("enum", WS)))
    j = fresh_int("sj")
    pid = I._elem_array(stages.lid, "parent_stage_id", z3.IntSort())
    pnull = I._elem_array(stages.lid, "parent_stage_id?", z3.BoolSort())
    onull = I._elem_array(stages.lid, "synthetic_stage_owner?", z3.BoolSort())
    child = z3.And(j >= 0, j < I.ops.list_len(stages), z3.Not(z3.Select(pnull, j)), z3.Select(pid, j) == I.getattr(stage, "id").t,
                   z3.Not(z3.Select(onull, j)))  # a before- or after-stage of this stage
    live = lambda t: in_set(t, I, ("NOT_STARTED", "RUNNING"))  # noqa: E731
    I.note_index(SElem(tasks.lid, (i,)))
    I.note_index(SElem(stages.lid, (j,)))
    return [
        ("never-redirect", rt != status(I, "REDIRECT")),
        ("succeeded-means-all-tasks-done", z3.Implies(z3.And(rt == status(I, "SUCCEEDED"), trng), in_set(z3.Select(tarr, i), I, ("SUCCEEDED", "SKIPPED")))),
        ("succeeded-means-no-live-synthetic-stage", z3.Implies(z3.And(rt == status(I, "SUCCEEDED"), child), z3.Not(live(z3.Select(sarr, j))))),
        ("continuable-result-means-no-live-task", z3.Implies(z3.And(in_set(rt, I, ("SUCCEEDED", "SKIPPED")), trng), z3.Not(live(z3.Select(tarr, i))))),
        ("terminal-task-means-failure", z3.Implies(z3.And(trng, z3.Select(tarr, i) == status(I, "TERMINAL")), in_set(rt, I, ("TERMINAL", "STOPPED", "FAILED_CONTINUE")))),
    ]


def determine_status_unit():
    from pyvc.verify import Unit
    from .common import STATUS_NAMES

    reg = run_task_registry()
    return Unit(prop="*", name="L3/StageExecution.determine_status", func="stabilize.models.stage.stage:StageExecution.determine_status",
                params=[], self_type=("obj", "StageExecution"), names=STATUS_NAMES, registry=reg, replayable=False,
                obligations=[Obl("C05/determine_status", _determine_status_post, when="any"),
                             Obl("C06/stage-never-redirect/determine_status", _determine_status_post, when="any")])


ALL.append(determine_status_unit)


# ----------------------------------------------------------------------------- JumpToStage (C15)
JH = H + "jump_to_stage.handler:JumpToStageHandler"


def jump_registry(contract_apply=True):
    from pyvc.values import SBool, fresh_bool

    reg = run_task_registry()
    if contract_apply:
        def apply_jump(I, a, k):
            I.st.emit("apply_jump", mutations=a[1], message=a[2], pushes=a[3])
            return SNone
        reg.contracts["*._apply_jump"] = apply_jump
    return reg


def _jump_handler(ctx):
    from .hcommon import make_handler

    h = make_handler(ctx.I, JH)
    ctx.extra["handler"] = h
    _cps_setup(ctx)
    return h


def _budget_post(ctx):
    """C15/budget: _check_jump_count returns False iff count >= max with max = execution._max_jumps ?? source._max_jumps
    ?? 10 (explicit None tests, so 0 disables jumping); on False exactly one atomic jump application that marks the source
    stage TERMINAL and pushes CompleteStage(source)."""
    from pyvc.values import VAL
    from pyvc.ops import val_truthy

    I = ctx.I
    if ctx.exc is not None:
        # comparing non-numeric context values raises TypeError: only for ill-typed engine-internal keys (excluded by requires)
        return [("no-exception", FALSE)]
    ex, src = ctx.args["execution"], ctx.args["source_stage"]
    cnt_has, cnt_v = _ctx_key(ctx, z3.Array("source_stage.context.has", z3.IntSort(), z3.BoolSort()),
                              z3.Array("source_stage.context.vals", z3.IntSort(), VAL), "_jump_count")
    e_has, e_v = _ctx_key(ctx, z3.Array("execution.context.has", z3.IntSort(), z3.BoolSort()),
                          z3.Array("execution.context.vals", z3.IntSort(), VAL), "_max_jumps")
    s_has, s_v = _ctx_key(ctx, z3.Array("source_stage.context.has", z3.IntSort(), z3.BoolSort()),
                          z3.Array("source_stage.context.vals", z3.IntSort(), VAL), "_max_jumps")
    count = z3.If(cnt_has, VAL.vi(cnt_v), 0)
    e_set = z3.And(e_has, z3.Not(VAL.is_VNone(e_v)))
    s_set = z3.And(s_has, z3.Not(VAL.is_VNone(s_v)))
    mx = z3.If(e_set, VAL.vi(e_v), z3.If(s_set, VAL.vi(s_v), 10))
    res = I.ops.truthy(ctx.result)
    goals = [("false-iff-budget-exhausted", res == z3.Not(count >= mx))]
    aj = [e for e in ctx.st.effects if e.kind == "apply_jump"]
    goals.append(("applies-jump-iff-exhausted", z3.If(res, z3.BoolVal(not aj), z3.BoolVal(len(aj) == 1))))
    for e in aj:
        muts = I.concrete_items(e.data["mutations"])
        pushes_ = I.concrete_items(e.data["pushes"])
        goals.append(("one-mutation-of-the-source", z3.And(z3.BoolVal(len(muts) == 1), I.ops.eq(muts[0].items[0], I.getattr(src, "id")))))
        goals.append(("pushes-complete-stage-of-source", z3.And(z3.BoolVal(len(pushes_) == 1 and I.class_of(pushes_[0]).name == "CompleteStage"),
                                                                 I.ops.eq(I.getattr(pushes_[0], "stage_id"), I.getattr(src, "id")))))
        # run the mutation closure on a fresh row: it must mark the stage TERMINAL
        probe = T.new_symbolic(I, "StageExecution", "probe_stage")
        I.call(muts[0].items[1], [probe], {})
        goals.append(("source-goes-terminal", I.getattr(probe, "status").t == status(I, "TERMINAL")))
    return goals


def check_jump_count_unit():
    from pyvc.verify import Unit
    from pyvc.values import VAL
    from .common import STATUS_NAMES

    def numeric(ctx):
        # is_valid of the engine-internal keys: _jump_count / _max_jumps, when present and not None, are integers
        def ok(name, key):
            has = z3.Select(z3.Array(f"{name}.context.has", z3.IntSort(), z3.BoolSort()), ctx.I.ops.lit(key).t)
            v = z3.Select(z3.Array(f"{name}.context.vals", z3.IntSort(), VAL), ctx.I.ops.lit(key).t)
            return z3.Implies(has, z3.Or(VAL.is_VInt(v), VAL.is_VNone(v) if key == "_max_jumps" else VAL.is_VInt(v)))
        return z3.And(ok("source_stage", "_jump_count"), ok("source_stage", "_max_jumps"), ok("execution", "_max_jumps"))

    return Unit(prop="*", name="L3/JumpToStage._check_jump_count", func=JH + "._check_jump_count",
                params=[("message", ("obj", "JumpToStage")), ("execution", ("obj", "Workflow")), ("source_stage", ("obj", "StageExecution"))],
                self_type=_jump_handler, names=STATUS_NAMES, registry=jump_registry(), replayable=False, requires=[numeric],
                setup=lambda ctx: (ctx.I.getattr(ctx.args["execution"], "context"), ctx.I.getattr(ctx.args["source_stage"], "context")),
                obligations=[Obl("C15/budget", _budget_post, when="any")])


def _apply_jump_post(ctx):
    """C15/atomic: every stage mutation of a jump, the processed mark and the follow-on messages are ONE transaction;
    every mutated row is loaded fresh inside it; a conflict rolls the whole transaction back."""
    I = ctx.I
    goals = []
    txns = T.transactions(ctx.st.effects)
    goals.append(("one-transaction", z3.BoolVal(len(txns) == 1)))
    stores_ = ctx.st.effects_of("store_stage")
    goals.append(("stores-inside-it", z3.BoolVal(all(e.data.get("txn") == txns[0].tid for e in stores_)) if txns else FALSE))
    goals.append(("rows-loaded-fresh", z3.BoolVal(all((e.data.get("loaded") or {}).get("how") == "retrieve_stage" for e in stores_))))
    goals.append(("no-standalone-commit", z3.BoolVal(not ctx.st.effects_of("standalone", "queue_push"))))
    if ctx.exc is None and txns:
        t = txns[0]
        goals.append(("committed", z3.BoolVal(t.committed)))
        truthy, mid = P.msg_id_truthy(ctx)
        marks = [e for e in t.effects if e.kind == "mark"]
        goals.append(("mark-in-it", z3.Implies(truthy, z3.Or(*[I.ops.eq(e.data["message_id"], mid) for e in marks]) if marks else FALSE)))
        ps = [b for e in t.effects for b, _ in T.flat([e]) if b.kind == "push"]
        goals.append(("pushes-in-it", z3.BoolVal(len(ps) == 1)))
    return goals


def apply_jump_unit():
    from pyvc.verify import Unit
    from pyvc.values import Seg, SModel, fresh_int as fi
    from .common import STATUS_NAMES

    def mutations(ctx):
        I = ctx.I
        n = z3.Int("n_mutations")
        I.st.assume(n >= 0)
        g = fi("g")
        ids = z3.Array("mutation_stage_id", z3.IntSort(), z3.IntSort())

        def mutate(I2, a, k):
            # an arbitrary in-memory mutation of the freshly loaded stage (re-arm / force-mark): jump semantics, exempt from T3
            I2.st.emit("mutate", stage=a[0])
            return SNone

        return I.ops.new_derived([Seg(-1, (), n, g, TRUE, STuple_([SStr(z3.Select(ids, g)), SModel(mutate, None, "mutation")]))])

    def pushes_(ctx):
        I = ctx.I
        return I.ops.new_conc_list([T.new_symbolic(I, "StartStage", "follow_on")])

    def msg(ctx):
        m = T.new_symbolic(ctx.I, "JumpToStage", "message")
        ctx.extra["message"] = m
        return m

    return Unit(prop="*", name="L3/JumpToStage._apply_jump", func=JH + "._apply_jump",
                params=[("mutations", mutations), ("message", msg), ("messages_to_push", pushes_)],
                self_type=_jump_handler, names=STATUS_NAMES, registry=jump_registry(contract_apply=False), replayable=False,
                obligations=[Obl("C15/atomic", _apply_jump_post, when="any"), Obl("C01/T6/JumpToStage._apply_jump", _apply_jump_post, when="any"),
                             Obl("C09/T1/JumpToStage", _apply_jump_post, when="any"), Obl("C07/retry-reloads/_apply_jump", _apply_jump_post, when="any")])


def STuple_(items):
    from pyvc.values import STuple

    return STuple(items)


ALL += [check_jump_count_unit, apply_jump_unit]


# ----------------------------------------------------------------------------- the three remaining message handlers
def _cancel_region_post(ctx):
    """CancelRegion: one commit; CancelStage exactly for the stages of the named region that have not finished."""
    I = ctx.I
    goals = [("single-commit", z3.BoolVal(P.state_changing_commits(ctx) <= 1))]
    ex = loaded_execution(ctx)
    if ex is None:
        return goals
    for n, (e, g) in enumerate(P.pushes(ctx, "CancelStage")):
        goals.append((f"cancel{n}.only-unfinished-stage-of-the-region", z3.Implies(g, ctx.ev(
            "exists(execution.stages, lambda s: s.id == m.stage_id and s.cancel_region == message.region and not s.status.is_complete)",
            {"execution": ex, "m": e.data["msg"], "message": ctx.extra["message"]}))))
    return goals


def cancel_region():
    obls = [
        Obl("C17/cancel-region", _cancel_region_post, when="any"),
        Obl("C01/T1/CancelRegion", P.t1_processed_with_effects(), when="any"),
        Obl("C02/T1/CancelRegion", P.t1_processed_with_effects(), when="any"),
        Obl("C09/T1/CancelRegion", P.t1_processed_with_effects(), when="any"),
        Obl("C01/T6/CancelRegion", P.t6_single_commit(), when="any"),
        Obl("C01/T7/CancelRegion", P.t7_no_split, when="any"),
        Obl("C06/T3/CancelRegion", P.t3_legal_write(), when="any"),
    ]
    return handler_unit("*", "L2/CancelRegion", H + "cancel_region:CancelRegionHandler", "CancelRegion", obls, registry=run_task_registry())


def _ami_post(ctx):
    """AddMultiInstance writes the parent only while it has not finished and never changes its status."""
    I = ctx.I
    goals = []
    for n, (e, g) in enumerate(P.stores(ctx, committed_only=False)):
        ld, snap = e.data.get("loaded") or {}, e.data["snap"]
        if "status" in ld:
            goals.append((f"store{n}.status-unchanged", z3.Implies(g, snap["status"].t == ld["status"].t)))
            goals.append((f"store{n}.parent-not-finished", z3.Implies(g, z3.Not(is_complete(I, ld["status"].t)))))
    return goals


def add_multi_instance():
    obls = [
        Obl("C06/frame/AddMultiInstance", _ami_post, when="any"),
        Obl("C06/T3/AddMultiInstance", P.t3_legal_write(), when="any"),
        Obl("C06/stage-never-redirect/AddMultiInstance", P.stage_status_never_redirect, when="any"),
        Obl("C09/T1/AddMultiInstance", P.t1_processed_with_effects(), when="any"),
        Obl("C02/T1/AddMultiInstance", P.t1_processed_with_effects(), when="any"),
        Obl("C01/T6/AddMultiInstance", P.t6_single_commit(), when="any", scenario="d12_add_multi_instance_not_atomic.py"),
    ]
    reg = run_task_registry()
    reg.appendable_stages = True
    return handler_unit("*", "L2/AddMultiInstance", H + "add_multi_instance:AddMultiInstanceHandler", "AddMultiInstance", obls, registry=reg)


# StartWaitingWorkflowsHandler has its own unit further down (a transaction per element inside a summarised loop: the trace
# views T1-T7 do not look into loop bodies, so its obligations are stated directly over the foreach effects).
ALL += [cancel_region, add_multi_instance]


# ----------------------------------------------------------------------------- recovery (C10, C01/REC)
def _recover_post(ctx):
    """C10/recover/contract on the real WorkflowRecovery._recover_workflow:
    complete workflow => nothing pushed; no status is ever written; all pushes of one workflow are ONE transaction (the
    one exception: a NOT_STARTED workflow with nothing to re-queue gets a single standalone StartWorkflow);
    RunTask(t) only for a task loaded RUNNING with no pending queue message; StartTask(t) only for a NOT_STARTED task of
    a RUNNING stage that has a start_time, no RUNNING task and no pending message; StartStage only for stages loaded
    RUNNING or NOT_STARTED."""
    I = ctx.I
    goals = []
    wf = ctx.args["workflow"]
    writes = ctx.st.effects_of("store_stage", "update_workflow", "standalone", "mark")
    goals.append(("no-status-write", z3.BoolVal(not writes)))
    txns = [t for t in T.transactions(ctx.st.effects)]
    qp = ctx.st.effects_of("queue_push")
    goals.append(("at-most-one-transaction", z3.BoolVal(len(txns) <= 1)))
    goals.append(("standalone-push-only-start-workflow", z3.BoolVal(all(e.data["cls"] == "StartWorkflow" for e in qp) and len(qp) <= 1 and not (qp and txns))))
    anything = bool(qp) or any(t.effects for t in txns)
    if anything:
        goals.append(("complete-workflow-pushes-nothing", z3.Not(is_complete(I, I.getattr(wf, "status").t))))
    full = loaded_execution(ctx)
    if qp and full is not None:
        goals.append(("start-workflow-only-when-not-started", T.loaded_info(I, full)["status"].t == status(I, "NOT_STARTED")))
    for t in txns:
        for e in t.effects:
            for b, g in T.flat([e]):
                if b.kind != "push":
                    continue
                m = b.data["msg"]
                cls = b.data["cls"]
                goals.append((f"push.{cls}.kind", z3.BoolVal(cls in ("RunTask", "StartTask", "StartStage"))))
                stages = I.getattr(full, "stages")
                sarr = I._elem_array(stages.lid, "status", I.typer.sort_of(("enum", WS)))
                ids = I._elem_array(stages.lid, "id", z3.IntSort())
                # the stage the message addresses: some index of the loaded stage list with that id (from the iteration frames)
                frames = [f for f in e.data.get("outer", ())] + [(e.data["lid"], e.data["pidx"], e.data["hi"], e.data["g"], e.data["cond"])]
                sframe = [f for f in frames if f[0] == stages.lid]
                if not sframe:
                    goals.append((f"push.{cls}.from-loaded-stage-list", FALSE))
                    continue
                sg = sframe[0][3]
                goals.append((f"push.{cls}.addresses-iterated-stage", z3.Implies(g, I.getattr(m, "stage_id").t == z3.Select(ids, sg))))
                if cls == "StartStage":
                    goals.append((f"push.{cls}.stage-running-or-not-started", z3.Implies(g, in_set(z3.Select(sarr, sg), I, ("RUNNING", "NOT_STARTED")))))
                    # a synthetic (before / after) stage that has not started is started by its parent's handlers at the right
                    # moment, never by the sweep (unless it shows evidence of having been started: a start time)
                    sels = SElem(stages.lid, (sg,))
                    goals.append((f"push.{cls}.never-starts-a-synthetic-stage-early", z3.Implies(
                        z3.And(g, z3.Select(sarr, sg) == status(I, "NOT_STARTED")),
                        ctx.ev("s.parent_stage_id is None or s.start_time is not None or exists(s.tasks, lambda t: t.start_time is not None)", {"s": sels}))))
                    # C01 (nothing stuck half-started): a stage that was claimed (RUNNING, start_time set) and already has its
                    # tasks, none of them started yet, is not a zombie -- StartStage would be absorbed by the status guard --
                    # so recovery must not answer it with StartStage (it has to start the first task instead)
                    sel = SElem(stages.lid, (sg,))
                    half = ctx.ev("s.start_time is not None and exists(s.tasks, lambda t: t.status == S.NOT_STARTED) "
                                  "and not exists(s.tasks, lambda t: t.status == S.RUNNING)", {"s": sel})
                    goals.append((f"push.{cls}.not-for-a-half-started-stage", z3.Implies(z3.And(g, z3.Select(sarr, sg) == status(I, "RUNNING")), z3.Not(half))))
                else:
                    goals.append((f"push.{cls}.stage-running", z3.Implies(g, z3.Select(sarr, sg) == status(I, "RUNNING"))))
    return goals


def _recover_task_level_c01(ctx):
    return _recover_task_level(ctx, planned=True)


def _recover_task_level(ctx, planned=False):
    """RunTask / StartTask pushed by recovery address a task in the required status for which has_pending_message_for_task
    was evaluated false."""
    I = ctx.I
    goals = []
    queries = [e for e, _ in T.flat(ctx.st.effects) if e.kind == "queue_query"]
    for t in T.transactions(ctx.st.effects):
        for e in t.effects:
            for b, g in T.flat([e]):
                if b.kind != "push" or b.data["cls"] not in ("RunTask", "StartTask"):
                    continue
                m = b.data["msg"]
                tid = I.getattr(m, "task_id")
                want = "RUNNING" if b.data["cls"] == "RunTask" else "NOT_STARTED"
                ent = b.data.get("entity")
                full = loaded_execution(ctx)
                stages = I.getattr(full, "stages")
                child = I.st.lists[stages.lid].meta.get("child:tasks")
                frames = [f for f in e.data.get("outer", ())] + [(e.data["lid"], e.data["pidx"], e.data["hi"], e.data["g"], e.data["cond"])]
                sframe = [f for f in frames if f[0] == stages.lid]
                if child is not None and sframe:
                    sg = sframe[0][3]
                    tids = z3.Select(I._elem_array(child, "id", z3.IntSort()), sg)
                    tst = z3.Select(I._elem_array(child, "status", I.typer.sort_of(("enum", WS))), sg)
                    cands = [(f[1] + (f[3],)) for f in frames if f[0] == child] + [p_ for p_ in I.st.index_terms.get(child, [])]
                    # the explicit witness: the position the pushed task id was read from (ids[stage index][task index])
                    tt = tid.t
                    if z3.is_select(tt) and z3.is_select(tt.arg(0)):
                        cands.append((sframe[0][3], tt.arg(1)))
                    tid_arr = I._elem_array(child, "id", z3.IntSort())
                    tst_arr = I._elem_array(child, "status", I.typer.sort_of(("enum", WS)))
                    disj = [z3.And(I._select(tid_arr, p_) == tid.t, I._select(tst_arr, p_) == status(I, want)) for p_ in cands if len(p_) == 2]
                    kq = z3.Int("task_k")
                    n_t = I._select(I.st.lists[child].length, (sframe[0][3],))
                    ex_ = z3.Exists([kq], z3.And(kq >= 0, kq < n_t, I._select(tid_arr, (sframe[0][3], kq)) == tid.t,
                                                 I._select(tst_arr, (sframe[0][3], kq)) == status(I, want)))
                    goals.append((f"push.{b.data['cls']}.task-in-status-{want}", z3.Implies(g, z3.Or(ex_, *disj))))
                    if b.data["cls"] == "StartTask":
                        # tasks of a stage run in order: the sweep may only start the FIRST task that has not started
                        jq = z3.Int("task_j")
                        firsts = [z3.And(I._select(tid_arr, p_) == tid.t, I._select(tst_arr, p_) == status(I, want),
                                         z3.ForAll([jq], z3.Implies(z3.And(jq >= 0, jq < p_[-1]), I._select(tst_arr, (p_[0], jq)) != status(I, want))))
                                  for p_ in cands if len(p_) == 2]
                        sgi = sframe[0][3]
                        ex_first = z3.Exists([kq], z3.And(kq >= 0, kq < n_t, I._select(tid_arr, (sgi, kq)) == tid.t, I._select(tst_arr, (sgi, kq)) == status(I, want),
                                                          z3.ForAll([jq], z3.Implies(z3.And(jq >= 0, jq < kq), I._select(tst_arr, (sgi, jq)) != status(I, want)))))
                        goals.append(("push.StartTask.is-the-first-not-started-task", z3.Implies(g, z3.Or(ex_first, *firsts))))
                if b.data["cls"] == "StartTask" and sframe:
                    # a stage's tasks start only after its before-stages: the sweep must not start a task while a synthetic
                    # before-child of the stage is unfinished (ContinueParentStage starts the first task then)
                    selp = SElem(stages.lid, (sframe[0][3],))
                    goals.append(("push.StartTask.before-stages-of-the-stage-are-finished", z3.Implies(g, ctx.ev(
                        "forall(execution.stages, lambda c: implies(c.parent_stage_id == s.id and c.synthetic_stage_owner == Owner.STAGE_BEFORE, c.status.is_complete))",
                        {"s": selp, "execution": full}))))
                if b.data["cls"] == "StartTask" and child is not None and sframe:
                    # tasks of a stage run one after the other: the sweep starts a task only when no task of the stage is RUNNING
                    # (a RUNNING task -- with or without a queued message -- is still to finish first)
                    sel0 = SElem(stages.lid, (sframe[0][3],))
                    goals.append(("push.StartTask.no-task-of-the-stage-is-running",
                                  z3.Implies(g, z3.Not(ctx.ev("exists(s.tasks, lambda t: t.status == S.RUNNING)", {"s": sel0})))))
                if planned and b.data["cls"] == "StartTask" and child is not None and sframe:
                    # C01 (same upstream data as an uninterrupted run): the first task may be started directly only in a stage
                    # that has been planned -- planning is what merges the ancestors' outputs into the stage context.  The one
                    # durable trace of the plan commit is a task that has moved on (the plan commit carries StartTask for the
                    # first task, and handling it sets the task RUNNING in the commit that consumes it); a stage whose tasks are
                    # ALL NOT_STARTED with no StartTask pending was claimed but never planned.
                    sel = SElem(stages.lid, (sframe[0][3],))
                    nm = f"push.StartTask.only-for-a-planned-stage"
                    ctx.extra.setdefault("residual_env", {})[nm] = {"s": sel}
                    goals.append((nm, z3.Implies(g, ctx.ev("exists(s.tasks, lambda t: t.status != S.NOT_STARTED)", {"s": sel}))))
                goals.append((f"push.{b.data['cls']}.pending-was-checked-false",
                              z3.Implies(g, z3.Or(*[z3.And(I.ops.eq(q.data["args"][0], tid), z3.Not(q.data["result"])) for q in queries]) if queries else FALSE)))
    return goals


def recovery_unit():
    from pyvc.verify import Unit
    from .common import STATUS_NAMES

    reg = run_task_registry()

    def selfv(ctx):
        I = ctx.I
        ci = I.index.find_class("WorkflowRecovery")
        oid = I.st.new_id()
        rec = ObjRec(ci.name, ci, {}, {"name": "recovery", "symbolic": True})
        I.st.objs[oid] = rec
        rec.fields["store"] = T.StoreModel.make_repository(I)
        rec.fields["queue"] = T.StoreModel.make_queue(I)
        return SObj(oid)

    def no_such_workflow(ctx):
        return TRUE

    return Unit(prop="*", name="L2/WorkflowRecovery._recover_workflow", func="stabilize.recovery:WorkflowRecovery._recover_workflow",
                params=[("workflow", ("obj", "Workflow"))], self_type=selfv, names=STATUS_NAMES, registry=reg, replayable=False,
                obligations=[Obl("C10/recover/contract", _recover_post, when="any"), Obl("C01/REC/contract", _recover_post, when="any"),
                             Obl("C10/recover/task-level", _recover_task_level, when="any"),
                             Obl("C01/REC/task-level", _recover_task_level_c01, when="any", scenario="d10_recovery_skips_planning.py")], max_paths=20000)


ALL.append(recovery_unit)


# ----------------------------------------------------------------------------- QueueProcessorMixin._handle_message (C09, C02)
PM = "stabilize.queue.processor.mixins:QueueProcessorMixin"


def _processor_registry():
    from pyvc.values import SBool, SModel, fresh_bool

    reg = run_task_registry()

    def get_dedup(I, a, k):
        d = I.st.ghost.get("dedup_obj")
        if d is not None:
            return d
        d = T.new_model_obj(I, "BloomDeduplicator", "dedup")
        rec = I.st.objs[d.oid]
        state = {"authoritative": fresh_bool("bloom_authoritative")}
        rec.meta["state"] = state

        def maybe_seen(I2, a2, k2):
            b = fresh_bool("bloom_maybe_seen")
            I2.st.emit("bloom", op="maybe_seen", id=a2[0], result=b)
            return SBool(b)

        def should_reset(I2, a2, k2):
            return SBool(fresh_bool("bloom_should_reset"))

        def reset(I2, a2, k2):
            # contract of BloomDeduplicator.reset: authority is revoked
            state["authoritative"] = FALSE
            I2.st.emit("bloom", op="reset")
            return SNone

        def hydrate(I2, a2, k2):
            state["authoritative"] = TRUE
            I2.st.emit("bloom", op="hydrate", ids=a2[0])
            return SInt_(0)

        def mark_seen(I2, a2, k2):
            I2.st.emit("bloom", op="mark_seen", id=a2[0])
            return SNone

        rec.fields["maybe_seen"] = SModel(maybe_seen, None, "maybe_seen")
        rec.fields["should_reset"] = SModel(should_reset, None, "should_reset")
        rec.fields["reset"] = SModel(reset, None, "reset")
        rec.fields["hydrate"] = SModel(hydrate, None, "hydrate")
        rec.fields["mark_seen"] = SModel(mark_seen, None, "mark_seen")
        rec.fields["expected_items"] = SInt_(z3.Int("bloom_capacity"))
        rec.fields["fill_ratio"] = SInt_(0)
        I.st.ghost["dedup_obj"] = d
        return d

    reg.contracts["stabilize.queue.dedup:get_deduplicator"] = get_dedup
    def authoritative(I, obj):
        v = I.st.objs[obj.oid].meta["state"]["authoritative"]
        I.st.emit("bloom", op="authoritative", result=v)
        return SBool(v)

    reg.props[("BloomDeduplicator", "authoritative")] = authoritative

    def is_processed(I, a, k):
        b = fresh_bool("is_processed")
        I.st.emit("store_query", op="is_message_processed", id=a[1] if len(a) > 1 else k.get("message_id"), result=b,
                  authoritative_then=I.st.objs[I.st.ghost["dedup_obj"].oid].meta["state"]["authoritative"] if I.st.ghost.get("dedup_obj") else None)
        return SBool(b)

    def mark_processed(I, a, k):
        I.st.emit("standalone", op="mark_message_processed", args=list(a[1:]), kwargs=dict(k), in_txn=None)
        return SNone

    def get_ids(I, a, k):
        from pyvc.typesys import fresh_value

        ids = fresh_value(I.st, I.typer, ("list", ("str",)), "processed_ids", det=True)
        I.st.emit("store_query", op="get_processed_message_ids", limit=k.get("limit", a[1] if len(a) > 1 else SNone), result=ids)
        if I.st.choose("ids_unavailable"):
            return SNone
        return ids

    reg.methods[("WorkflowStore", "is_message_processed")] = is_processed
    reg.methods[("WorkflowStore", "mark_message_processed")] = mark_processed
    reg.methods[("WorkflowStore", "get_processed_message_ids")] = get_ids
    return reg


def SInt_(x):
    from pyvc.values import SInt

    return SInt(z3.IntVal(x) if isinstance(x, int) else x)


def _make_processor(ctx):
    from pyvc.values import SModel, fresh_bool

    I = ctx.I
    ci = I.index.modules["stabilize.queue.processor.mixins"].classes["QueueProcessorMixin"]
    oid = I.st.new_id()
    rec = ObjRec(ci.name, ci, {}, {"name": "processor", "symbolic": True})
    I.st.objs[oid] = rec
    store = T.StoreModel.make_repository(I)
    rec.fields["_store"] = SOpt(store, z3.Bool("store_is_none"))
    rec.fields["queue"] = T.StoreModel.make_queue(I)
    rec.fields["config"] = T.new_symbolic(I, "QueueProcessorConfig", "config")
    handler = T.new_model_obj(I, "MessageHandler", "registered_handler")

    def handle(I2, a2, k2):
        I2.st.emit("handler_invoked", message=a2[0])
        if I2.st.choose("handler_raises"):
            from .assumed_runtask import new_exception

            raise PyRaise_(new_exception(I2, "handler_error"))
        return SNone

    I.st.objs[handler.oid].fields["handle"] = SModel(handle, None, "handle")
    handlers_ = T.new_model_obj(I, "dict", "_handlers")
    I.st.objs[handlers_.oid].fields["get"] = SModel(lambda I2, a2, k2: SOpt(handler, fresh_bool("no_handler")), None, "get")
    rec.fields["_handlers"] = handlers_
    return SObj(oid)


def _handle_message_post(ctx):
    """C09/_handle_message: with deduplication on and a message id, the handler runs only after the durable processed
    check was evaluated false for that id -- unless the negative cache is trusted, the filter is authoritative and it did
    not report the id; a processed message is acknowledged without running the handler; after a normal return the id is
    told to the filter; after a reset inside the call, authority stays revoked until a complete re-hydration."""
    I = ctx.I
    msg = ctx.args["message"]
    cfg = I.getattr(ctx.self_val, "config")
    dedup_on = I.ops.truthy(I.getattr(cfg, "enable_deduplication"))
    mid = I.getattr(msg, "message_id")
    has_id = z3.Not(I.ops.is_none(mid))
    invoked = [e for e in ctx.st.effects if e.kind == "handler_invoked"]
    qs = [e for e in ctx.st.effects if e.kind == "store_query" and e.data["op"] == "is_message_processed"]
    bl = [e for e in ctx.st.effects if e.kind == "bloom"]
    goals = [("at-most-once", z3.BoolVal(len(invoked) <= 1))]
    store_none = z3.Bool("store_is_none")
    if invoked:
        checked_false = z3.Or(*[z3.And(I.ops.eq(q.data["id"], mid), z3.Not(q.data["result"])) for q in qs]) if qs else FALSE
        ms = [e for e in bl if e.data["op"] == "maybe_seen"]
        trust = I.ops.truthy(I.call(__import__("pyvc.values", fromlist=["SBuiltin"]).SBuiltin("getattr"), [cfg, I.ops.lit("dedup_trust_negative_cache"), SBool_(False)], {}))
        auth0 = z3.Bool("bloom_authoritative!0")
        au = [e for e in bl if e.data["op"] == "authoritative"]
        skipped_ok = z3.And(trust, z3.Or(*[z3.Not(e.data["result"]) for e in ms]) if ms else FALSE,
                            z3.Or(*[e.data["result"] for e in au]) if au else FALSE)
        goals.append(("runs-only-if-not-processed", z3.Implies(z3.And(dedup_on, has_id, z3.Not(store_none)), z3.Or(checked_false, skipped_ok))))
        # when the durable check was skipped the filter must have been authoritative at that moment
        d = I.st.ghost.get("dedup_obj")
        if d is not None and not qs:
            pos = ctx.st.effects.index(invoked[0])
            goals.append(("skip-needs-authority", z3.Implies(z3.And(dedup_on, has_id, z3.Not(store_none)), I.st.objs[d.oid].meta.get("auth_at_check", TRUE))))
    for q in qs:
        if not invoked and ctx.exc is None:
            goals.append(("processed-means-no-handler", TRUE))
    if ctx.exc is None and invoked:
        marks = [e for e in bl if e.data["op"] == "mark_seen"]
        goals.append(("told-to-filter-after-handling", z3.Implies(z3.And(dedup_on, has_id), z3.BoolVal(bool(marks)) if not marks else
                                                                  z3.Or(*[I.ops.eq(e.data["id"], mid) for e in marks]))))
    if ctx.exc is None and invoked:
        # ... and to the durable record, whatever the message type: several handler branches (polling re-queue, transient
        # retry, stage-less fall-backs) deliberately leave the mark to the processor
        dm = [e for e in ctx.st.effects if e.kind == "standalone" and e.data["op"] == "mark_message_processed"]
        same = z3.Or(*[I.ops.eq(e.data["kwargs"].get("message_id", e.data["args"][0] if e.data["args"] else SNone), mid) for e in dm]) if dm else FALSE
        goals.append(("durably-marked-after-handling", z3.Implies(z3.And(dedup_on, has_id, z3.Not(store_none)), same)))
    resets = [i for i, e in enumerate(ctx.st.effects) if e.kind == "bloom" and e.data["op"] == "reset"]
    for r in resets:
        hyd = [e for e in ctx.st.effects[r + 1:] if e.kind == "bloom" and e.data["op"] == "hydrate"]
        for h in hyd:
            q = [e for e in ctx.st.effects[r + 1:] if e.kind == "store_query" and e.data["op"] == "get_processed_message_ids"]
            ok = FALSE
            if q:
                lim = q[0].data["limit"]
                cap = z3.Int("bloom_capacity")
                ok = z3.And(I.ops.as_int(lim) == cap + 1, I.ops.list_len(h.data["ids"]) <= cap,
                            z3.BoolVal(h.data["ids"].lid == q[0].data["result"].lid))
            goals.append(("hydrates-only-with-complete-id-set", ok))
    return goals


def SBool_(b):
    from pyvc.values import SBool

    return SBool(z3.BoolVal(b))


def handle_message_unit():
    from pyvc.verify import Unit
    from .common import STATUS_NAMES

    return Unit(prop="*", name="L2/QueueProcessorMixin._handle_message", func=PM + "._handle_message",
                params=[("message", ("obj", "Message"))], self_type=_make_processor, names=STATUS_NAMES, registry=_processor_registry(),
                replayable=False,
                obligations=[Obl("C09/_handle_message", _handle_message_post, when="any"), Obl("C02/dedup/_handle_message", _handle_message_post, when="any")])


ALL.append(handle_message_unit)


# ----------------------------------------------------------------------------- QueueProcessor.process_one / process_and_ack (C01/P, C08)
QP = "stabilize.queue.processor.processor:QueueProcessor"


def _qp_registry():
    from pyvc.values import SModel, fresh_bool

    reg = run_task_registry()

    def handle_message(I, a, k):
        I.st.emit("handle_message", message=a[1])
        if I.st.choose("handling_raises"):
            from .assumed_runtask import new_exception

            raise PyRaise_(new_exception(I, "handling_error"))
        return SNone

    reg.contracts["*._handle_message"] = handle_message
    def start_heartbeat(I, a, k):
        """assumed: a background thread that keeps extending the lock of the message until the returned Event is set (None when
        heart-beating is off)"""
        ev = T.new_model_obj(I, "Event", "heartbeat_stop")
        I.st.emit("heartbeat_started")
        I.st.objs[ev.oid].fields["set"] = SModel(lambda I2, a2, k2: (I2.st.emit("heartbeat_stopped"), SNone)[1], None, "Event.set")
        off = fresh_bool("heartbeat_off")
        I.st.ghost["heartbeat_off"] = off
        return SOpt(ev, off)

    reg.contracts["*._start_lock_heartbeat"] = start_heartbeat

    def poll_one(I, a, k):
        m = T.new_symbolic(I, "Message", "polled")
        I.st.emit("queue_op", op="poll_one", args=[], in_txn=None)
        return SOpt(m, fresh_bool("queue_empty"))

    reg.methods[("Queue", "poll_one")] = poll_one
    return reg


def _make_qp(ctx):
    from pyvc.values import SModel

    I = ctx.I
    ci = I.index.find_class("QueueProcessor")
    oid = I.st.new_id()
    rec = ObjRec(ci.name, ci, {}, {"name": "processor", "symbolic": True})
    I.st.objs[oid] = rec
    rec.fields["queue"] = T.StoreModel.make_queue(I)
    rec.fields["config"] = T.new_symbolic(I, "QueueProcessorConfig", "config")
    rec.fields["_in_flight_lock"] = SOpaque_("lock")
    rec.fields["_lock"] = SOpaque_("lock")
    rec.fields["_in_flight"] = I.ops.new_conc_list([], as_set=True)
    rec.fields["_active_count"] = SInt_(z3.Int("active_count"))
    ex = T.new_model_obj(I, "Executor", "executor")
    I.st.objs[ex.oid].fields["submit"] = SModel(lambda I2, a2, k2: I2.call(a2[0], list(a2[1:]), {}), None, "submit")  # runs the callable once
    rec.fields["_executor"] = ex
    return SObj(oid)


def SOpaque_(tag):
    from pyvc.values import SOpaque

    return SOpaque(tag)


def _ack_after_handler(ctx):
    """C01/P: the message is acknowledged only on the path where _handle_message returned normally, and after it; when
    handling raises the message is rescheduled and never acknowledged."""
    effs = ctx.st.effects
    hm = [i for i, e in enumerate(effs) if e.kind == "handle_message"]
    acks = [i for i, e in enumerate(effs) if e.kind == "queue_op" and e.data["op"] == "ack"]
    resch = [i for i, e in enumerate(effs) if e.kind == "queue_op" and e.data["op"] == "reschedule"]
    raised = any(e.kind == "handle_message" for e in effs) and bool(resch)
    goals = [("ack-only-after-handling", z3.BoolVal(all(hm and a > hm[0] for a in acks))),
             ("never-both", z3.BoolVal(not (acks and resch))),
             ("at-most-one-ack", z3.BoolVal(len(acks) <= 1))]
    if hm:
        goals.append(("acked-or-rescheduled", z3.BoolVal(bool(acks) or bool(resch))))
    # the lock heartbeat of the message is stopped on EVERY exit, failure included: a heartbeat that outlives a failed handling
    # keeps re-locking the rescheduled message, which is then never redelivered and never dead-lettered
    started = [i for i, e in enumerate(effs) if e.kind == "heartbeat_started"]
    stopped = [i for i, e in enumerate(effs) if e.kind == "heartbeat_stopped"]
    if started:
        goals.append(("heartbeat-stopped-on-every-exit", z3.Or(ctx.st.ghost["heartbeat_off"], z3.BoolVal(bool(stopped)))))
    return goals


def process_one_unit():
    from pyvc.verify import Unit
    from .common import STATUS_NAMES

    return Unit(prop="*", name="L2/QueueProcessor.process_one", func=QP + ".process_one", params=[], self_type=_make_qp,
                names=STATUS_NAMES, registry=_qp_registry(), replayable=False,
                obligations=[Obl("C01/P/ack-after-handler/process_one", _ack_after_handler, when="any"),
                             Obl("C08/processor/ack-after-handler/process_one", _ack_after_handler, when="any")])


def process_and_ack_unit():
    from pyvc.verify import Unit
    from .common import STATUS_NAMES

    return Unit(prop="*", name="L2/QueueProcessor.process_and_ack", func=QP + "._submit_message_internal",
                params=[("message", ("obj", "Message"))], self_type=_make_qp, names=STATUS_NAMES, registry=_qp_registry(), replayable=False,
                obligations=[Obl("C01/P/ack-after-handler/process_and_ack", _ack_after_handler, when="any"),
                             Obl("C08/processor/ack-after-handler/process_and_ack", _ack_after_handler, when="any")])


ALL += [process_one_unit, process_and_ack_unit]


# ----------------------------------------------------------------------------- callers of the condition evaluator (C20), split contract (C03)
def _expr_registry():
    from pyvc.values import SVal, fresh_val

    reg = run_task_registry()

    def evaluate_expression(I, a, k):
        """contract of evaluate_expression (C20 totality, bounded stand-in + fix D2): returns some value or raises
        ExpressionError -- nothing else."""
        I.st.emit("evaluate_expression", text=a[0])
        if I.st.choose("expression_error"):
            T.raise_exc(I, "ExpressionError", "stabilize.expressions")
        return SVal(fresh_val("expr_result"))

    reg.contracts["stabilize.expressions:evaluate_expression"] = evaluate_expression
    return reg


def _split_post(ctx):
    """_apply_split_logic (the contract CompleteStage assumes): never raises; the two results partition the downstream
    list; a non-empty downstream list activates at least one branch; AND-split activates everything."""
    I = ctx.I
    if ctx.exc is not None:
        return [("condition-errors-never-escape", FALSE)]
    down = ctx.args["downstream_stages"]
    act, skp = ctx.result.items
    n = I.ops.list_len(down)
    j = fresh_int("dj")
    dj = SElem(down.lid, (j,))
    I.note_index(dj)
    in_act, in_skp = I.ops.contains(act, dj), I.ops.contains(skp, dj)
    rng = z3.And(j >= 0, j < n)
    st_ = ctx.args["stage"]
    is_or = I.getattr(st_, "split_type").t == I.enum_member(I.index.find_class("SplitType"), "OR").t
    return [("partition", z3.Implies(rng, in_act != in_skp)),
            ("some-branch-activated", z3.Implies(n > 0, I.ops.list_len(act) > 0)),
            ("and-split-activates-all", z3.Implies(z3.And(rng, z3.Not(is_or)), in_act))]


def split_logic_unit():
    from pyvc.verify import Unit
    from .common import STATUS_NAMES
    from .hcommon import make_handler

    return Unit(prop="*", name="L3/CompleteStage._apply_split_logic", func=H + "complete_stage.split_logic:CompleteStagesSplitMixin._apply_split_logic",
                params=[("stage", ("obj", "StageExecution")), ("downstream_stages", ("list", ("obj", "StageExecution")))],
                self_type=lambda ctx: make_handler(ctx.I, H + "complete_stage.handler:CompleteStageHandler"),
                names=STATUS_NAMES, registry=_expr_registry(), replayable=False,
                obligations=[Obl("C20/expr/callers/_apply_split_logic", _split_post, when="any"), Obl("C03/split/partition", _split_post, when="any"),
                             Obl("C05/split/some-branch-activated", _split_post, when="any")])


def _join_tracking_post(ctx):
    """_update_join_tracking (first-of / quorum joins): every write goes to a stage row loaded by retrieve_stage AFTER the
    previous (failed) write attempt -- a conflict is retried on fresh data, never on the stale object, and never on the
    `downstream` object passed in; the write keeps the row's status (expected_phase = its loaded status) and the version it
    presents is the loaded one; the completing stage's ref_id is in the stored _completed_branches."""
    from pyvc.values import VAL, vlist_has_str  # noqa

    I = ctx.I
    goals = []
    flat = list(T.flat(ctx.st.effects))
    stores = [(n, e, g) for n, (e, g) in enumerate(flat) if e.kind == "standalone" and e.data["op"] == "store_stage"]
    loads = {id(e.data["obj"]) if False else e.data["obj"].oid: n for n, (e, g) in enumerate(flat) if e.kind == "load" and e.data["kind"] == "stage"}
    prev_store_pos = {}
    for k_, (n, e, g) in enumerate(stores):
        st_obj = e.data["args"][0]
        ld = e.data.get("loaded") or {}
        goals.append((f"store{k_}.row-was-loaded-by-retrieve_stage", z3.BoolVal(ld.get("how") == "retrieve_stage")))
        lp = loads.get(st_obj.oid) if isinstance(st_obj, SObj) else None
        earlier = [m for m, _e, _g in stores[:k_]]
        goals.append((f"store{k_}.loaded-after-the-previous-attempt", z3.BoolVal(lp is not None and all(lp > m for m in earlier))))
        if "status" in ld:
            goals.append((f"store{k_}.keeps-the-status", z3.Implies(g, e.data["snap"]["status"].t == ld["status"].t)))
            exp = e.data["kwargs"].get("expected_phase", SNone)
            goals.append((f"store{k_}.expected-phase-is-the-loaded-status", z3.Implies(g, I.ops.eq(exp, I.enum_getattr(SEnum(WS, ld["status"].t), "name")))))
    goals += [(f"version.{sfx}", gl) for sfx, gl in P.version_from_load(ctx)]
    # a lost compare-and-swap is never swallowed: the last write attempt of the call either succeeded or its ConcurrencyError
    # reaches the caller -- a branch whose record was refused is retried on fresh data or reported, not dropped
    if stores:
        last_failed = bool(stores[-1][1].data.get("failed"))
        escaped = ctx.exc is not None and "ConcurrencyError" in I.exc_class_names(ctx.exc)
        reloaded = any(e.kind in ("load", "load_failed") for e, _g in flat[stores[-1][0] + 1:])  # the next attempt re-read the row
        goals.append(("a-refused-write-is-retried-or-raised", z3.BoolVal((not last_failed) or escaped or reloaded)))
    # no lost update: what is written under _completed_branches extends the list READ FROM THE ROW BEING WRITTEN (the fresh
    # load of this attempt) -- every entry of that list is kept, in place -- and ends with the completing stage's ref_id
    from pyvc.values import vlist_get, vlist_len

    key = I.ops.lit("_completed_branches").t
    ref = I.ops.to_val(I.getattr(ctx.args["stage"], "ref_id"))
    j = z3.Int("branch_j")
    for k_, (n, e, g) in enumerate(stores):
        ld, snap = e.data.get("loaded") or {}, e.data["snap"]
        if "ctx_vals" not in ld or "ctx_vals" not in snap:
            goals.append((f"store{k_}.context-known", FALSE))
            continue
        old_has, old_v = z3.Select(ld["ctx_has"], key), z3.Select(ld["ctx_vals"], key)
        new_has, new_v = z3.Select(snap["ctx_has"], key), z3.Select(snap["ctx_vals"], key)
        old_len = z3.If(old_has, vlist_len(VAL.vl(old_v)), 0)
        is_list = z3.Implies(old_has, VAL.is_VList(old_v))
        goals.append((f"store{k_}.keeps-every-branch-recorded-in-the-row", z3.Implies(z3.And(g, is_list, j >= 0, j < old_len),
                      z3.And(new_has, VAL.is_VList(new_v), vlist_get(VAL.vl(new_v), j) == vlist_get(VAL.vl(old_v), j)))))
        goals.append((f"store{k_}.appends-the-completing-stage", z3.Implies(z3.And(g, is_list),
                      z3.And(new_has, VAL.is_VList(new_v), vlist_len(VAL.vl(new_v)) == old_len + 1, vlist_get(VAL.vl(new_v), old_len) == ref))))
    return goals


def join_tracking_unit():
    from pyvc.verify import Unit
    from .common import STATUS_NAMES
    from .hcommon import make_handler

    def one_downstream(ctx):
        # the loop over the downstream stages applies one body to each element independently (it carries no state from
        # one downstream stage to the next): the contract is proved for an arbitrary downstream stage, i.e. for a list
        # holding one symbolic element (the five retry attempts are unrolled)
        d = T.new_symbolic(ctx.I, "StageExecution", "downstream")
        ctx.extra["downstream"] = d
        return ctx.I.ops.new_conc_list([d])

    return Unit(prop="*", name="L3/CompleteStage._update_join_tracking",
                func=H + "complete_stage.split_logic:CompleteStagesSplitMixin._update_join_tracking",
                params=[("stage", ("obj", "StageExecution")), ("downstream_stages", one_downstream)],
                self_type=lambda ctx: make_handler(ctx.I, H + "complete_stage.handler:CompleteStageHandler"),
                names=STATUS_NAMES, registry=run_task_registry(), replayable=False, max_paths=20000,
                obligations=[Obl("C07/retry-reloads/_update_join_tracking", _join_tracking_post, when="any"),
                             Obl("C04/join-tracking/fresh-row-per-attempt", _join_tracking_post, when="any"),
                             Obl("C06/frame/_update_join_tracking", _join_tracking_post, when="any")])


def _should_skip_post(ctx):
    """a malformed stageEnabled condition never crashes the stage start: _should_skip returns a bool and never raises."""
    if ctx.exc is not None:
        return [("condition-errors-never-escape", FALSE)]
    # ... and evaluating the condition has no side effect on the stage: its context (what the tasks will read, what the next
    # save persists) and its outputs are exactly what they were -- the evaluation context is a copy
    I = ctx.I
    stage = ctx.args["stage"]
    goals = [("returns", TRUE)]
    k = fresh_int("ck")
    for f in ("context", "outputs"):
        d = I.st.dicts[I.getattr(stage, f).did]
        h0 = z3.Array(f"stage.{f}.has", z3.IntSort(), z3.BoolSort())
        v0 = z3.Array(f"stage.{f}.vals", z3.IntSort(), VAL)
        if d.kind != "sym":
            goals.append((f"stage-{f}-untouched", FALSE))
            continue
        goals.append((f"stage-{f}-untouched", z3.And(z3.Select(d.has, k) == z3.Select(h0, k), z3.Implies(z3.Select(h0, k), z3.Select(d.vals, k) == z3.Select(v0, k)))))
    return goals


def should_skip_unit():
    from pyvc.verify import Unit
    from .common import STATUS_NAMES
    from .hcommon import make_handler

    return Unit(prop="*", name="L3/StartStage._should_skip", func=H + "start_stage.conditions:StartStageConditionsMixin._should_skip",
                params=[("stage", ("obj", "StageExecution"))],
                self_type=lambda ctx: make_handler(ctx.I, H + "start_stage.handler:StartStageHandler"),
                names=STATUS_NAMES, registry=_expr_registry(), replayable=False,
                obligations=[Obl("C20/expr/callers/_should_skip", _should_skip_post, when="any")])


# ----------------------------------------------------------------------------- reset functions (C15/reset-post, C16 current-iteration)
def _reset_post(which):
    def check(ctx):
        from pyvc.values import VAL

        I = ctx.I
        if ctx.exc is not None:
            return [("no-exception", FALSE)]
        stage = ctx.args["stage"]
        tasks = I.getattr(stage, "tasks")
        tarr = I._elem_array(tasks.lid, "status", I.typer.sort_of(("enum", WS)))
        t0 = z3.Array(f"stage.tasks@{tasks.lid}.status", z3.IntSort(), I.typer.sort_of(("enum", WS)))
        i = fresh_int("ti")
        rng = z3.And(i >= 0, i < I.ops.list_len(tasks))
        s1 = I.getattr(stage, "status").t
        goals = []
        if which == "retry":
            goals.append(("stage-not-started", s1 == status(I, "NOT_STARTED")))
            goals.append(("all-tasks-not-started", z3.Implies(rng, z3.Select(tarr, i) == status(I, "NOT_STARTED"))))
            goals.append(("times-cleared", z3.And(I.ops.is_none(I.getattr(stage, "start_time")), I.ops.is_none(I.getattr(stage, "end_time")))))
            outs = I.getattr(stage, "outputs")
            orec = I.st.dicts[outs.did]
            goals.append(("outputs-emptied", z3.BoolVal(orec.kind == "conc" and not orec.items)))
            ctxd = I.st.dicts[I.getattr(stage, "context").did]
            h0 = z3.Array("stage.context.has", z3.IntSort(), z3.BoolSort())
            v0 = z3.Array("stage.context.vals", z3.IntSort(), VAL)
            k = fresh_int("ck")
            join_keys = [I.ops.lit(n).t for n in ("_join_fired", "_completed_branches", "_activated_branches")]
            goals.append(("join-keys-cleared", z3.And(*[z3.Not(z3.Select(ctxd.has, jk)) for jk in join_keys])))
            goals.append(("rest-of-context-kept", z3.Implies(z3.And(*[k != jk for jk in join_keys]),
                                                             z3.And(z3.Select(ctxd.has, k) == z3.Select(h0, k),
                                                                    z3.Implies(z3.Select(h0, k), z3.Select(ctxd.vals, k) == z3.Select(v0, k))))))
        else:
            want = {"skipped": "SKIPPED", "succeeded": "SUCCEEDED", "terminal": "TERMINAL"}[which]
            goals.append(("stage-status", s1 == status(I, want)))
            if which == "skipped":
                goals.append(("all-tasks-skipped", z3.Implies(rng, z3.Select(tarr, i) == status(I, "SKIPPED"))))
            else:
                goals.append(("running-tasks-finished", z3.Implies(z3.And(rng, z3.Select(t0, i) == status(I, "RUNNING")), z3.Select(tarr, i) == status(I, want))))
                goals.append(("other-tasks-untouched", z3.Implies(z3.And(rng, z3.Select(t0, i) != status(I, "RUNNING")), z3.Select(tarr, i) == z3.Select(t0, i))))
        return goals
    return check


def reset_units():
    from pyvc.verify import Unit
    from .common import STATUS_NAMES

    RM = H + "jump_to_stage.reset:"
    out = []

    def touch(ctx):
        I = ctx.I
        st_ = ctx.args["stage"]
        I.getattr(st_, "context")
        tasks = I.getattr(st_, "tasks")
        I.elem_getattr(SElem(tasks.lid, (z3.Int("$probe"),)), "status")

    for which, fn, extra in (("retry", "reset_stage_for_retry", []), ("skipped", "reset_stage_to_skipped", [("end_time", ("int",))]),
                             ("succeeded", "reset_stage_to_succeeded", [("end_time", ("int",))]), ("terminal", "reset_stage_to_terminal", [("end_time", ("int",))])):
        obls = [Obl(f"C15/reset-post/{fn}", _reset_post(which), when="any")]
        if which in ("terminal", "succeeded"):
            # C06 (completed is final): closing a stage settles its RUNNING tasks only -- a task that had already completed
            # (FAILED_CONTINUE, STOPPED, CANCELED ...) keeps the status it completed with
            obls.append(Obl(f"C06/completed-task-kept/{fn}", _reset_post(which), when="any"))
        if which == "retry":
            obls.append(Obl("C02/rearm/reset_stage_for_retry", _reset_post(which), when="any"))
            obls.append(Obl("C16/current-iteration/reset-clears-outputs", _reset_post(which), when="any"))
            obls.append(Obl("C04/join-fired/reset-is-the-only-clear", _reset_post(which), when="any"))
        out.append(Unit(prop="*", name=f"L3/{fn}", func=RM + fn, params=[("stage", ("obj", "StageExecution"))] + extra, names=STATUS_NAMES,
                        registry=run_task_registry(), replayable=False, setup=touch, obligations=obls))
    return out


ALL += [split_logic_unit, should_skip_unit]


def _expand_reset():
    return reset_units()


_old_units_for = units_for


def units_for(prop: str):  # noqa: F811
    out = _old_units_for(prop)
    for u in reset_units() + send_signal_units() + orchestrator_cancel_units() + retry_units() + sibling_condition_units() + [recovery_window_unit()]:
        u.obligations = [o for o in u.obligations if o.name.startswith(prop + "/")]
        if u.obligations:
            u.prop = prop
            u.name = f"{prop}:{u.name}"
            out.append(u)
    return out


# ----------------------------------------------------------------------------- JumpToStage._handle_with_retry (C15 increment, C06 forced marks, C03 bypass writer)
def jump_handle_registry():
    from pyvc.typesys import fresh_value
    from pyvc.values import SBool, SModel, fresh_bool

    reg = jump_registry(contract_apply=True)

    def stage_list(name):
        def f(I, a, k):
            n = T._counter(I, "trav_n")
            lst = fresh_value(I.st, I.typer, ("list", ("obj", "StageExecution")), f"{name}{n}", det=True)
            I.st.emit("traversal", fn=name, args=list(a), result=lst)
            return lst
        return f

    TR = H + "jump_to_stage.traversal:"
    for fn in ("get_resettable_downstream_stages", "get_downstream_stages", "get_skipped_stages", "get_skippable_downstream_stages"):
        reg.contracts[TR + fn] = stage_list(fn)
        reg.contracts[H + "jump_to_stage.handler:" + fn] = stage_list(fn)

    def check_budget(I, a, k):
        b = fresh_bool("within_budget")
        I.st.emit("budget_check", result=b)
        return SBool(b)

    reg.contracts["*._check_jump_count"] = check_budget

    def partial(I, a, k):
        fn = a[0]
        kw = dict(k)

        def call(I2, a2, k2):
            return I2.call(fn, list(a[1:]) + list(a2), dict(kw, **k2))

        m = SModel(call, None, "partial:" + getattr(fn, "name", "?"))
        return m

    reg.externals["functools:partial"] = partial
    return reg


def _jump_post(ctx):
    """Accepted jump: exactly one atomic application whose follow-on message is StartStage(target); the target mutation
    re-arms the target and stores _jump_count = source count + 1 and _jump_bypass; unless it is a self loop the source
    mutation stores the same count; forward jumps force-mark as SKIPPED only stages that were loaded NOT_STARTED (a
    finished stage is never overwritten); _jump_bypass is set on the target only."""
    from pyvc.values import VAL, SModel
    from pyvc.ops import val_truthy

    I = ctx.I
    if ctx.exc is not None:
        return []
    aj = [e for e in ctx.st.effects if e.kind == "apply_jump"]
    bc = [e for e in ctx.st.effects if e.kind == "budget_check"]
    goals = []
    if not aj:
        return goals
    goals.append(("one-application", z3.BoolVal(len(aj) == 1)))
    e = aj[0]
    pushes_ = I.concrete_items(e.data["pushes"])
    if bc:
        goals.append(("budget-checked-first", bc[0].data["result"]))
    muts = e.data["mutations"]
    segs = I.ops.segments(muts)
    conc = [x for s in segs if isinstance(s, tuple) for x in s[1]]
    symb = [s for s in segs if not isinstance(s, tuple)]
    ex = loaded_execution(ctx)
    if len(pushes_) == 1 and I.class_of(pushes_[0]).name == "StartStage" and bc:
        # the accepted jump
        msg = ctx.extra["message"]
        stages = I.getattr(ex, "stages")
        # forced SKIPPED marks only on NOT_STARTED stages
        for n, s in enumerate(symb):
            fn = s.mapv.items[1] if hasattr(s.mapv, "items") else None
            if isinstance(fn, SModel) and "reset_stage_to_skipped" in fn.name:
                sarr = I._elem_array(s.lid, "status", I.typer.sort_of(("enum", WS)))
                goals.append((f"skip-mark{n}.only-not-started", z3.Implies(z3.And(s.g >= 0, s.g < s.hi, s.cond), I._select(sarr, s.pidx + (s.g,)) == status(I, "NOT_STARTED"))))
                skl = [t for t in ctx.st.effects if t.kind == "traversal" and t.data["fn"] == "get_skipped_stages"]
                goals.append((f"skip-mark{n}.from-skipped-set", z3.BoolVal(bool(skl) and skl[0].data["result"].lid == s.lid)))
        # the re-arm set: every stage of get_resettable_downstream_stages(target) other than source and target gets a
        # mutation, and that mutation re-arms it (NOT_STARTED) while keeping the stage's own jump budget
        rs = [t for t in ctx.st.effects if t.kind == "traversal" and t.data["fn"] == "get_resettable_downstream_stages"]
        its0 = I.st.index_terms.get(stages.lid, [])
        if rs and len(its0) >= 2:
            L = rs[0].data["result"]
            idsL = I._elem_array(L.lid, "id", z3.IntSort())
            src_id = I.getattr(SElem(stages.lid, tuple(its0[0])), "id").t
            tgt_id = I.getattr(SElem(stages.lid, tuple(its0[1])), "id").t
            gq = z3.Int("rearm_g")
            mine = [sg for sg in symb if sg.lid == L.lid and not sg.pidx and hasattr(sg.mapv, "items") and len(sg.mapv.items) == 2
                    and isinstance(sg.mapv.items[0], SStr) and z3.eq(z3.simplify(z3.substitute(sg.mapv.items[0].t, (sg.g, gq))), z3.simplify(z3.Select(idsL, gq)))]
            covered = z3.Or(*[z3.And(gq < sg.hi, z3.substitute(sg.cond, (sg.g, gq))) for sg in mine]) if mine else FALSE
            goals.append(("rearm-set.complete", z3.Implies(z3.And(gq >= 0, gq < I.ops.list_len(L), z3.Select(idsL, gq) != src_id, z3.Select(idsL, gq) != tgt_id), covered)))
            for n, sg in enumerate(mine):
                pr = T.new_symbolic(I, "StageExecution", f"probe_rearm{n}")
                d0 = I.st.dicts[I.getattr(pr, "context").did]
                h0, v0 = d0.has, d0.vals
                I.call(sg.mapv.items[1], [pr], {})
                d1 = I.st.dicts[I.getattr(pr, "context").did]
                goals.append((f"rearm{n}.not-started", I.getattr(pr, "status").t == status(I, "NOT_STARTED")))
                for bk in ("_jump_count", "_jump_history", "_max_jumps"):
                    kk = I.ops.lit(bk).t
                    goals.append((f"rearm{n}.keeps{bk}", z3.And(z3.Select(d1.has, kk) == z3.Select(h0, kk), z3.Implies(z3.Select(h0, kk), z3.Select(d1.vals, kk) == z3.Select(v0, kk)))))
        # the last concrete mutations are (source, if not a self loop) and target
        if conc:
            tgt_mut = conc[-1]
            probe = T.new_symbolic(I, "StageExecution", "probe_target")
            I.call(tgt_mut.items[1], [probe], {})
            pc_ = I.st.dicts[I.getattr(probe, "context").did]
            key = I.ops.lit("_jump_count").t
            cnt_src = [t for t in ctx.st.effects if t.kind == "load"]
            goals.append(("target-rearmed", I.getattr(probe, "status").t == status(I, "NOT_STARTED")))
            goals.append(("target-gets-bypass", z3.And(z3.Select(pc_.has, I.ops.lit("_jump_bypass").t), val_truthy(z3.Select(pc_.vals, I.ops.lit("_jump_bypass").t)))))
            goals.append(("target-count-set", z3.Select(pc_.has, key)))
            ctx.extra["target_count"] = z3.Select(pc_.vals, key)
            its = I.st.index_terms.get(stages.lid, [])
            if its:
                w = its[0]
                # the source's count as loaded (pristine arrays: the handler may since have written the same row as target)
                src_has = I._select(I._pristine(I._elem_array(stages.lid, "context.has", z3.ArraySort(z3.IntSort(), z3.BoolSort()))), w)
                src_vals = I._select(I._pristine(I._elem_array(stages.lid, "context.vals", z3.ArraySort(z3.IntSort(), VAL))), w)
                src_cnt = z3.If(z3.Select(src_has, key), VAL.vi(z3.Select(src_vals, key)), 0)
                int_typed = z3.Implies(z3.Select(src_has, key), VAL.is_VInt(z3.Select(src_vals, key)))
                goals.append(("target-count-is-source-count-plus-one", z3.Implies(int_typed, z3.Select(pc_.vals, key) == VAL.VInt(src_cnt + 1))))
            goals.append(("follow-on-is-start-of-target", I.ops.eq(I.getattr(pushes_[0], "stage_id"), tgt_mut.items[0])))
            for n, m in enumerate(conc[:-1]):
                pr = T.new_symbolic(I, "StageExecution", f"probe{n}")
                I.call(m.items[1], [pr], {})
                d = I.st.dicts[I.getattr(pr, "context").did]
                byp = I.ops.lit("_jump_bypass").t
                h0 = z3.Array(f"probe{n}.context.has", z3.IntSort(), z3.BoolSort())
                goals.append((f"mutation{n}.does-not-set-bypass", z3.Implies(z3.Select(d.has, byp), z3.Select(h0, byp))))
                goals.append((f"mutation{n}.count-equals-target-count", z3.Implies(z3.Select(d.has, key) if True else TRUE,
                              z3.Or(z3.Select(d.vals, key) == ctx.extra["target_count"],
                                    z3.And(z3.Select(h0, key), z3.Select(d.vals, key) == z3.Select(z3.Array(f"probe{n}.context.vals", z3.IntSort(), VAL), key))))))
    return goals


def jump_handle_unit():
    from pyvc.verify import Unit
    from .common import STATUS_NAMES

    def run(ctx):
        I = ctx.I
        h = _jump_handler(ctx)
        msg = T.new_symbolic(I, "JumpToStage", "message")
        ctx.extra["message"] = msg
        ctx.args["message"] = msg
        return I.call(I.getattr(h, "_handle_with_retry"), [msg], {})

    return Unit(prop="*", name="L2/JumpToStage._handle_with_retry", func=JH + "._handle_with_retry", params=[], names=STATUS_NAMES,
                registry=jump_handle_registry(), replayable=False, run=run, max_paths=20000,
                obligations=[Obl("C15/increment", _jump_post, when="any"), Obl("C06/forced-marks/JumpToStage", _jump_post, when="any"),
                             Obl("C03/bypass-writer/JumpToStage", _jump_post, when="any")])


ALL.append(jump_handle_unit)
ALL.append(join_tracking_unit)


# ---- hitl.send_signal / approve / reject: the public way a signal enters the engine (C18: persistent unless the caller says otherwise)
def _send_signal_post(default_persistent, fixed_name=None):
    def check(ctx):
        """exactly one SignalStage is queued, addressed to the given execution / stage, carrying the given name and data, and
        PERSISTENT unless the caller asked for a transient one -- so a signal sent before the stage suspends is buffered."""
        I = ctx.I
        if ctx.exc is not None:
            return [("no-exception", FALSE)]
        ps = [e for e in ctx.st.effects if e.kind == "queue_push"]
        goals = [("one-push", z3.BoolVal(len(ps) == 1))]
        if len(ps) != 1:
            return goals
        m = ps[0].data["msg"]
        goals.append(("is-signal-stage", z3.BoolVal(ps[0].data["cls"] == "SignalStage")))
        goals.append(("not-delayed", I.ops.is_none(ps[0].data["delay"]) if ps[0].data["delay"] is not SNone else TRUE))
        for f, a in (("execution_id", "execution_id"), ("stage_id", "stage_id")):
            goals.append((f"field.{f}", I.ops.eq(I.getattr(m, f), ctx.args[a])))
        if fixed_name is None:
            goals.append(("field.signal_name", I.ops.eq(I.getattr(m, "signal_name"), ctx.args["signal_name"])))
            goals.append(("field.persistent", I.ops.truthy(I.getattr(m, "persistent")) == I.ops.truthy(ctx.args["persistent"])))
        else:
            goals.append(("field.signal_name", I.ops.eq(I.getattr(m, "signal_name"), I.module_global("stabilize.hitl", fixed_name))))
            goals.append(("field.persistent", I.ops.truthy(I.getattr(m, "persistent"))))
        return goals
    return check


def _send_signal_default(ctx):
    """the default of send_signal's `persistent` parameter, read from the real signature, is True"""
    import ast as _ast

    _m, _c, node = ctx.I.index.func("stabilize.hitl:send_signal")
    kw = {a.arg: d for a, d in zip(node.args.kwonlyargs, node.args.kw_defaults)}
    d = kw.get("persistent")
    return [("default-is-persistent", z3.BoolVal(isinstance(d, _ast.Constant) and d.value is True))]


def _send_signal_run(ctx):
    from pyvc.typesys import fresh_value
    from pyvc.values import SFunc

    I = ctx.I
    ctx.args["queue"] = T.StoreModel.make_queue(I)
    for n, t in (("execution_id", ("str",)), ("stage_id", ("str",)), ("signal_name", ("str",)), ("signal_data", ("opt", ("dict", ("val",)))),
                 ("persistent", ("bool",))):
        ctx.args[n] = fresh_value(I.st, I.typer, t, n, det=True)
    m, _c, node = I.index.func("stabilize.hitl:send_signal")
    f = SFunc(node, m, None, None, None, node.name)
    return I.call_func(f, [ctx.args[n] for n in ("queue", "execution_id", "stage_id", "signal_name", "signal_data")], {"persistent": ctx.args["persistent"]})


def send_signal_units():
    from pyvc.verify import Unit
    from .common import STATUS_NAMES

    q = lambda ctx: T.StoreModel.make_queue(ctx.I)
    from .hcommon import handler_registry

    common = dict(names=STATUS_NAMES, registry=handler_registry(), replayable=False)
    return [
        Unit(prop="*", name="L2/hitl.send_signal", func="stabilize.hitl:send_signal", params=[], run=_send_signal_run,
             obligations=[Obl("C18/send/send_signal", _send_signal_post(True), when="any"), Obl("C18/send/default", _send_signal_default, when="any")], **common),
        Unit(prop="*", name="L2/hitl.approve", func="stabilize.hitl:approve",
             params=[("queue", q), ("execution_id", ("str",)), ("stage_id", ("str",)), ("data", ("opt", ("dict", ("val",))))],
             obligations=[Obl("C18/send/approve", _send_signal_post(True, "APPROVE_SIGNAL"), when="any")], **common),
        Unit(prop="*", name="L2/hitl.reject", func="stabilize.hitl:reject",
             params=[("queue", q), ("execution_id", ("str",)), ("stage_id", ("str",)), ("data", ("opt", ("dict", ("val",))))],
             obligations=[Obl("C18/send/reject", _send_signal_post(True, "REJECT_SIGNAL"), when="any")], **common),
    ]


# ---- Orchestrator.cancel: how a cancel request enters the engine (C17)
def _orch_cancel_post(ctx):
    """exactly one CancelWorkflow for this execution, carrying user and reason, leaves the call: through one committed
    transaction when a store is configured, otherwise through one plain queue push; nothing else is written."""
    I = ctx.I
    if ctx.exc is not None:
        return [("no-exception", FALSE)]
    ex = ctx.args["execution"]
    txns = P.committed_txns(ctx)
    tp = [p for t in txns for p in txn_pushes(t)]
    qp = [e for e in ctx.st.effects if e.kind == "queue_push"]
    goals = [("exactly-one-message", z3.BoolVal(len(tp) + len(qp) == 1))]
    if len(tp) + len(qp) != 1:
        return goals
    e = (tp or qp)[0]
    m = e.data["msg"]
    goals.append(("is-cancel-workflow", z3.BoolVal(e.data["cls"] == "CancelWorkflow")))
    goals.append(("addressed-to-the-execution", I.ops.eq(I.getattr(m, "execution_id"), I.getattr(ex, "id"))))
    goals.append(("carries-user", I.ops.eq(I.getattr(m, "user"), ctx.args["user"])))
    goals.append(("carries-reason", I.ops.eq(I.getattr(m, "reason"), ctx.args["reason"])))
    goals.append(("no-stage-write", z3.BoolVal(not [x for x in ctx.st.effects_of("store_stage", "update_workflow")])))
    return goals


def orchestrator_cancel_units():
    from pyvc.verify import Unit
    from .common import STATUS_NAMES
    from .hcommon import handler_registry

    def mk_self(ctx):
        I = ctx.I
        ci = I.index.find_class("Orchestrator")
        oid = I.st.new_id()
        rec = ObjRec(ci.name, ci, {}, {"name": "orchestrator"})
        I.st.objs[oid] = rec
        rec.fields["queue"] = T.StoreModel.make_queue(I)
        rec.fields["store"] = SOpt(T.StoreModel.make_repository(I), z3.Bool("no_store_configured"))
        return SObj(oid)

    return [Unit(prop="*", name="L2/Orchestrator.cancel", func="stabilize.orchestrator:Orchestrator.cancel", self_type=mk_self,
                 params=[("execution", ("obj", "Workflow")), ("user", ("str",)), ("reason", ("str",))], names=STATUS_NAMES,
                 registry=handler_registry(), replayable=False,
                 obligations=[Obl("C17/request/Orchestrator.cancel", _orch_cancel_post, when="any")])]


# ---- StabilizeHandler.retry_on_concurrency_error, the real function (the handler units use its contract): a write that lost
# every attempt is never reported as done (C07: a conflicting save fails, is retried, and if it keeps failing the error reaches
# the processor, which re-delivers the message)
def _retry_run(ctx):
    from pyvc.values import SModel, PyRaise as _PR

    I = ctx.I
    h = make_handler_obj(I)
    calls = []
    ctx.extra["calls"] = calls

    def func(I2, a, k):
        n = len(calls)
        if I2.st.choose(f"attempt{n}_loses_the_race"):
            calls.append("conflict")
            T.raise_exc(I2, "ConcurrencyError", "stabilize.errors")
        if I2.st.choose(f"attempt{n}_fails_otherwise"):
            calls.append("error")
            I2.raise_builtin("ValueError", "user error")
        calls.append("ok")
        return SNone

    ctx.args["context"] = I.ops.opaque_str("context")
    return I.call(I.getattr(h, "retry_on_concurrency_error"), [SModel(func, None, "func"), ctx.args["context"]], {})


def make_handler_obj(I):
    from .hcommon import make_handler

    return make_handler(I, H + "complete_task:CompleteTaskHandler")


def _retry_post(ctx):
    """a normal return means the LAST invocation of func returned normally; func is invoked at least once; when the last
    invocation lost the race a ConcurrencyError escapes; any other failure of func escapes unchanged (or as ConcurrencyError
    once the retry policy gave up)."""
    I = ctx.I
    calls = ctx.extra["calls"]
    goals = [("func-invoked", z3.BoolVal(len(calls) >= 1))]
    if ctx.exc is None:
        goals.append(("normal-return-only-after-a-successful-attempt", z3.BoolVal(bool(calls) and calls[-1] == "ok")))
    else:
        names = I.exc_class_names(ctx.exc)
        goals.append(("a-lost-race-escapes-as-ConcurrencyError", z3.BoolVal(calls[-1:] != ["conflict"] or "ConcurrencyError" in names)))
        goals.append(("escaping-error-is-the-attempts-or-ConcurrencyError", z3.BoolVal("ConcurrencyError" in names or (calls[-1:] == ["error"] and "ValueError" in names))))
        goals.append(("no-error-after-success", z3.BoolVal(calls[-1:] != ["ok"])))
    return goals


def retry_units():
    from pyvc.verify import Unit
    from .assumed_runtask import install
    from .common import STATUS_NAMES
    from .hcommon import handler_registry

    reg = handler_registry()
    install(reg)
    reg.contracts.pop("stabilize.handlers.base:StabilizeHandler.retry_on_concurrency_error", None)  # the real function runs here
    return [Unit(prop="*", name="L2/StabilizeHandler.retry_on_concurrency_error", func="stabilize.handlers.base:StabilizeHandler.retry_on_concurrency_error",
                 params=[], names=STATUS_NAMES, registry=reg, replayable=False, run=_retry_run,
                 obligations=[Obl("C07/retry/never-reports-a-lost-write-as-done", _retry_post, when="any"),
                              Obl("C04/retry/never-reports-a-lost-write-as-done", _retry_post, when="any")])]


# ---- the sibling fast paths of the stage starter (C04 / C11): a stage is never refused because of ITSELF
def _sibling_cond_run(fn):
    def run(ctx):
        from .hcommon import make_handler

        I = ctx.I
        h = make_handler(I, H + "start_stage.handler:StartStageHandler", None)
        stage = T.new_symbolic(I, "StageExecution", "stage")
        ctx.args["stage"] = stage
        ctx.extra["handler"] = h
        return I.call(I.getattr(h, fn), [stage], {})
    return run


def _sibling_cond_post(kind):
    def check(ctx):
        """True exactly when ANOTHER stage of the execution (a different id) has the same group / key and has left NOT_STARTED
        (deferred choice) / is RUNNING (mutex); False when the stage has no group / key.  In particular the stage itself --
        which a racing duplicate StartStage may already have moved to RUNNING -- never counts."""
        I = ctx.I
        if ctx.exc is not None:
            return [("only-load-failures-escape", z3.BoolVal("WorkflowNotFoundError" in I.exc_class_names(ctx.exc)))]
        stage = ctx.args["stage"]
        res = I.ops.truthy(ctx.result)
        field = "deferred_choice_group" if kind == "choice" else "mutex_key"
        mine = I.getattr(stage, field)
        has = I.ops.truthy(mine)
        loads = [e for e in ctx.st.effects if e.kind == "load" and e.data.get("kind") == "execution"]
        if not loads:
            return [("false-without-a-group", z3.And(z3.Not(res), z3.Not(has)))]
        ex = loads[-1].data["obj"]
        stages = I.getattr(ex, "stages")
        env = {"stage": stage, "all_stages": stages}
        other = ("exists(all_stages, lambda s: s.id != stage.id and s.deferred_choice_group == stage.deferred_choice_group and s.status != S.NOT_STARTED)"
                 if kind == "choice" else
                 "exists(all_stages, lambda s: s.id != stage.id and s.mutex_key == stage.mutex_key and s.status == S.RUNNING)")
        return [("true-iff-another-stage-holds-it", res == ctx.ev(other, env)), ("loaded-the-stages-execution", has)]
    return check


def sibling_condition_units():
    from pyvc.verify import Unit
    from .common import STATUS_NAMES

    C = H + "start_stage.conditions:StartStageConditionsMixin."
    reg = start_stage_registry()
    for n in ("_is_mutex_blocked", "_is_deferred_choice_claimed"):
        reg.contracts.pop("*." + n, None)  # the real functions run in these units
    out = []
    for fn, kind, props in (("_is_deferred_choice_claimed", "choice", ("C04", "C11")), ("_is_mutex_blocked", "mutex", ("C04", "C11"))):
        out.append(Unit(prop="*", name=f"L2/StartStage.{fn}", func=C + fn, params=[], names=STATUS_NAMES, registry=reg, replayable=False,
                        run=_sibling_cond_run(fn),
                        obligations=[Obl(f"{p}/sibling-check/{fn}", _sibling_cond_post(kind), when="any") for p in props]))
    return out


# ---- WorkflowRecovery.recover_pending_workflows: the window of the sweep and "every found workflow is examined" (C01 / C10)
def _recovery_window_post(ctx):
    """The sweep asks the store for every RUNNING / NOT_STARTED workflow started within max_recovery_age_hours (cutoff = now in ms
    minus the window in ms, never later), and examines each workflow the store returns exactly once; a failure on one workflow is
    recorded for that workflow and does not end the sweep."""
    I = ctx.I
    if ctx.exc is not None:
        return [("only-RecoveryError-escapes", z3.BoolVal("RecoveryError" in I.exc_class_names(ctx.exc)))]
    q = [e for e in ctx.st.effects if e.kind == "recovery_query"]
    goals = [("one-query", z3.BoolVal(len(q) == 1))]
    if len(q) != 1:
        return goals
    now_ms = ctx.extra["now_ms"]()
    hours = I.ops.as_real(I.getattr(ctx.self_val, "max_recovery_age_hours"))
    cutoff = I.ops.as_real(q[0].data["cutoff"])
    # int() truncates towards zero: the cutoff is within one millisecond of now - window, and never later than that + 1
    goals.append(("cutoff-is-now-minus-the-window", z3.And(cutoff <= now_ms - hours * 3600000 + 1, cutoff >= now_ms - hours * 3600000 - 1)))
    goals.append(("application-filter-passed-on", I.ops.eq(q[0].data["application"], ctx.args["application"])))
    seen = [e for e in ctx.st.effects if e.kind == "recover_one"]
    goals.append(("every-found-workflow-examined-once", z3.BoolVal([e.data["wf"].oid for e in seen] == [w.oid for w in ctx.extra["found"]])))
    return goals


def recovery_window_unit():
    from pyvc.verify import Unit
    from .assumed_runtask import new_exception
    from .common import STATUS_NAMES
    from pyvc.values import PyRaise as _PR

    reg = run_task_registry()

    def get_wfs(I, a, k):
        I.st.emit("recovery_query", application=a[1], cutoff=a[2])
        found = [T.new_symbolic(I, "Workflow", "found_a"), T.new_symbolic(I, "Workflow", "found_b")]  # two arbitrary ones stand for "each"
        I.st.ghost["found"] = found
        return I.ops.new_conc_list(found)

    def recover_one(I, a, k):
        I.st.emit("recover_one", wf=a[1])
        if I.st.choose("this_workflow_fails"):
            raise _PR(new_exception(I, "recover_error"))
        return T.new_symbolic(I, "RecoveryResult", f"result{T._counter(I, 'rr_n')}")

    reg.contracts["*._get_workflows_for_recovery"] = get_wfs
    reg.contracts["*._recover_workflow"] = recover_one

    def selfv(ctx):
        I = ctx.I
        ci = I.index.find_class("WorkflowRecovery")
        oid = I.st.new_id()
        rec = ObjRec(ci.name, ci, {}, {"name": "recovery", "symbolic": True})
        I.st.objs[oid] = rec
        rec.fields["store"] = T.StoreModel.make_repository(I)
        rec.fields["queue"] = T.StoreModel.make_queue(I)
        h = z3.Real("max_recovery_age_hours")
        I.st.assume(h >= 0)
        from pyvc.values import SFloat

        rec.fields["max_recovery_age_hours"] = SFloat(h)
        ctx.extra["now_ms"] = lambda: _first_now_ms(ctx)
        return SObj(oid)

    def post(ctx):
        ctx.extra["found"] = ctx.st.ghost.get("found", [])
        return _recovery_window_post(ctx)

    return Unit(prop="*", name="L2/WorkflowRecovery.recover_pending_workflows", func="stabilize.recovery:WorkflowRecovery.recover_pending_workflows",
                params=[("application", ("opt", ("str",)))], self_type=selfv, names=STATUS_NAMES, registry=reg, replayable=False,
                obligations=[Obl("C01/REC/window", post, when="any"), Obl("C10/recover/window", post, when="any")])


def _first_now_ms(ctx):
    """int(time.time() * 1000) for the first time.time() of the call: the real constant is named now!<n> by assumed_stdlib"""
    for p in ctx.st.pc:
        for t in _consts(p):
            if t.decl().name().startswith("now!") and t.sort() == z3.RealSort():
                return z3.ToReal(z3.ToInt(t * 1000))
    return z3.RealVal(0)


def _consts(t):
    out, stack, seen = [], [t], set()
    while stack:
        u = stack.pop()
        if u.get_id() in seen:
            continue
        seen.add(u.get_id())
        if z3.is_const(u) and u.decl().kind() == z3.Z3_OP_UNINTERPRETED:
            out.append(u)
        elif z3.is_app(u):
            stack.extend(u.children())
    return out


# ----------------------------------------------------------------------------- StartWaitingWorkflows
def _wf_list_model(I, a, k):
    """Assumed contract of WorkflowStore.retrieve_by_pipeline_config_id (dynamic SQL, not under contract): some list of
    workflows, each with a status in criteria.statuses; the status every element had when loaded is kept as a ghost."""
    from pyvc.typesys import fresh_value
    from pyvc.values import SElem

    n = T._counter(I, "wflist_n")
    lst = fresh_value(I.st, I.typer, ("list", ("obj", "Workflow")), f"by_config{n}", det=True)
    lrec = I.st.lists[lst.lid]
    I.elem_getattr(SElem(lst.lid, (z3.Int("$probe"),)), "status")
    arr0 = lrec.fields["status"]
    crit = a[2] if len(a) > 2 else k.get("criteria")
    sts = I.getattr(crit, "statuses")
    items = I.st.lists[sts.lid].items
    j = z3.Int("$wfj")
    I.st.assume(z3.ForAll([j], z3.Implies(z3.And(j >= 0, j < lrec.length), z3.Or(*[z3.Select(arr0, j) == it.t for it in items]))))
    lrec.meta["loaded"] = {"kind": "workflow_list", "how": "by_config", "status0": arr0, "criteria": [it.t for it in items]}
    I.st.emit("load", obj=lst, kind="workflow_list", how="by_config")
    I.st.assumptions.add("assumed:WorkflowStore.retrieve_by_pipeline_config_id returns only workflows whose status is in criteria.statuses (dynamic SQL, not under contract)")
    I.st.assumptions.add("list.sort(key=...) is a permutation: the list is treated as unordered afterwards (FIFO order of the promotion is not decided)")
    return lst


def _sww_post(ctx):
    """StartWaitingWorkflows on the real _handle_with_retry (a transaction per promoted workflow inside the loop):
    every workflow status write is BUFFERED -> NOT_STARTED on a workflow that was loaded BUFFERED (C06: legal by the real
    table; C02: a redelivery finds nothing to promote twice), it is in one commit with exactly one StartWorkflow for that
    workflow (C01/C05: a promoted workflow is never left without its start message), nothing that commits on its own
    runs inside that transaction (T7), and the processed mark is a transaction of its own after the loop (C09)."""
    I = ctx.I
    goals = []
    n_upd = 0
    for fe in ctx.st.effects:
        if fe.kind != "foreach":
            continue
        body = fe.data["body"]
        kinds = [b.kind for b in body]
        for n, (e, g) in enumerate((e, g) for e, g in T.flat([fe]) if e.kind == "update_workflow"):
            n_upd += 1
            wf = e.data["workflow"]
            ld = I.st.lists[wf.lid].meta.get("loaded", {}) if hasattr(wf, "lid") else {}
            new = e.data["status"].t
            goals.append((f"wf{n_upd}.written-status-is-NOT_STARTED", z3.Implies(g, new == status(I, "NOT_STARTED"))))
            ok_ld = "status0" in ld
            goals.append((f"wf{n_upd}.workflow-comes-from-the-buffered-query", z3.BoolVal(ok_ld and len(ld.get("criteria", [])) == 1)))
            if ok_ld:
                cur = z3.Select(ld["status0"], wf.idx[0])
                goals.append((f"wf{n_upd}.loaded-BUFFERED", z3.Implies(g, cur == status(I, "BUFFERED"))))
                goals.append((f"wf{n_upd}.legal-transition", z3.Implies(g, can_transition(I, cur, new))))
            tid = e.data["txn"]
            pushes = [b for b in body if b.kind == "push" and b.data["txn"] == tid]
            goals.append((f"wf{n_upd}.one-start-message-in-the-same-transaction", z3.BoolVal(len(pushes) == 1 and pushes[0].data["cls"] == "StartWorkflow")))
            if len(pushes) == 1:
                goals.append((f"wf{n_upd}.start-message-names-this-workflow", z3.Implies(g, I.ops.eq(I.getattr(pushes[0].data["msg"], "execution_id"), I.getattr(wf, "id")))))
            ib, ic = [x for x, b in enumerate(body) if b.kind == "txn_begin" and b.data["txn"] == tid], [x for x, b in enumerate(body) if b.kind == "txn_commit" and b.data["txn"] == tid]
            goals.append((f"wf{n_upd}.transaction-commits", z3.BoolVal(len(ib) == 1 and len(ic) == 1)))
            if len(ib) == 1 and len(ic) == 1:
                inside = body[ib[0] + 1:ic[0]]
                goals.append((f"wf{n_upd}.nothing-else-commits-inside", z3.BoolVal(all(b.kind in ("update_workflow", "push") for b in inside) and sum(b.kind == "update_workflow" for b in inside) == 1)))
        # a push of StartWorkflow without the status write in its transaction would start a workflow that is still BUFFERED
        for b in body:
            if b.kind in ("push", "queue_push") and b.data.get("cls") == "StartWorkflow":
                goals.append((f"push-with-status-write", z3.BoolVal(any(x.kind == "update_workflow" and x.data["txn"] == b.data.get("txn") for x in body))))
    truthy, mid = P.msg_id_truthy(ctx)
    marks = [(x, e) for x, e in enumerate(ctx.st.effects) if e.kind == "mark"]
    loops = [x for x, e in enumerate(ctx.st.effects) if e.kind == "foreach"]
    if loops:
        has = z3.Or(*[I.ops.eq(e.data["message_id"], mid) for _, e in marks]) if marks else z3.BoolVal(False)
        goals.append(("mark.after-the-loop-when-the-message-has-an-id", z3.Implies(truthy, has)))
        goals.append(("mark.not-before-a-promotion", z3.BoolVal(all(x > max(loops) for x, _ in marks))))
    goals.append(("no-stage-write", z3.BoolVal(not P.stores(ctx, committed_only=False))))
    return goals


def _sww_cover(ctx):
    """Vacuity guard: some path promotes a workflow (an update_workflow inside the loop) -- a canary that must FAIL."""
    has = any(e.kind == "update_workflow" for e, _ in T.flat(ctx.st.effects))
    return [("no-path-promotes", z3.BoolVal(not has))]


def _sww_sel(*keys):
    def check(ctx):
        return [(n, gl) for n, gl in _sww_post(ctx) if any(k in n for k in keys)]
    return check


def start_waiting_workflows():
    reg = run_task_registry()
    reg.methods[("WorkflowStore", "retrieve_by_pipeline_config_id")] = _wf_list_model
    obls = [
        Obl("C06/T3/StartWaitingWorkflows", _sww_sel("written-status", "loaded-BUFFERED", "legal-transition", "buffered-query", "no-stage-write"), when="any"),
        Obl("C05/promote/StartWaitingWorkflows", _sww_sel("start-message", "transaction-commits", "push-with-status-write"), when="any", canary=_sww_cover),
        Obl("C01/T6/StartWaitingWorkflows", _sww_sel("start-message", "transaction-commits", "nothing-else-commits-inside", "push-with-status-write"), when="any"),
        Obl("C02/guard/StartWaitingWorkflows", _sww_sel("loaded-BUFFERED", "buffered-query"), when="any"),
        Obl("C09/mark/StartWaitingWorkflows", _sww_sel("mark."), when="any"),
    ]
    return handler_unit("*", "L2/StartWaitingWorkflows", H + "start_waiting_workflows:StartWaitingWorkflowsHandler", "StartWaitingWorkflows", obls, registry=reg, method="_handle_with_retry")


ALL += [start_waiting_workflows]
