"""C08 -- see DESIGN.md section 4, C08."""
from . import handlers, sqlunits

LEVEL = "proof"
EXPLANATION = "contracts of the real SQLite store/queue functions (SQL text interpreted by pyvc.sql) and handler trace obligations, selected by the prefix C08/"
ASSUMPTIONS = ["SQLite contract of DESIGN 1.4 (statement atomicity, commit atomicity, INSERT OR IGNORE, RETURNING, rowcount)"]
TRUSTED = ["pyvc.sql statement semantics"]


def units(tier):
    return sqlunits.units_for("C08") + handlers.units_for("C08")
