"""C01 -- see DESIGN.md section 4, C01."""
from . import handlers, sqlunits

LEVEL = "other"
EXPLANATION = "trace obligations of the real handlers (layer L2) selected by the prefix C01/"
ASSUMPTIONS = []
TRUSTED = []


def units(tier):
    return sqlunits.units_for("C01") + handlers.units_for("C01")
