"""C09 -- see DESIGN.md section 4, C09."""
from . import handlers, sqlunits

LEVEL = "proof"
EXPLANATION = "trace obligations of the real handlers (layer L2) selected by the prefix C09/"
ASSUMPTIONS = []
TRUSTED = []


def units(tier):
    return sqlunits.units_for("C09") + handlers.units_for("C09")


def extras(tier, seed):
    from pyvc.bounded import run_bounded

    return [
        run_bounded('C09', 'c09_bloom.py', 'C09/bounded/bloom-no-false-negatives', tier, seed),
    ]
