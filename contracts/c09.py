"""C09 -- see DESIGN.md section 4, C09."""
from . import bloom, handlers, sqlunits

LEVEL = "proof"
EXPLANATION = ("first sentence: the processed mark is written in the commit of the handler's effects (T1 on every handler path), the "
               "mark / is-processed SQL and the duplicate check of _handle_message are under contract; second sentence: the Bloom "
               "filter is proved function by function (bit get/set against the abstract bit view, hash positions, mark_seen, "
               "maybe_seen, hydrate, reset) and the no-false-negative lemma follows from those contracts alone")
ASSUMPTIONS = ["hashlib digests are deterministic functions of the bytes and int(hexdigest, 16) >= 0",
               "<<, & and | on byte operands as checked exhaustively against CPython (2048 cases each)",
               "threading.Lock is effect-free (single-threaded units)"]
TRUSTED = ["native comparison harness replay/bounded/c09_bloom.py (kept as a cross-check of the encoder; not counted as proved)"]


def units(tier):
    return sqlunits.units_for("C09") + handlers.units_for("C09") + bloom.units_for("C09")


def extras(tier, seed):
    from pyvc.bounded import run_bounded

    return [
        run_bounded('C09', 'c09_bloom.py', 'C09/bounded/bloom-no-false-negatives', tier, seed),
    ]
