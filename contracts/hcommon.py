"""Common harness for handler trace units (layer L2)."""
import z3

from pyvc import trace as T
from pyvc.ops import FALSE, TRUE
from pyvc.values import ENUMS, ObjRec, SBool, SElem, SEnum, SNone, SInt, SObj, SOpaque, SOpt, SStr, fresh_name
from pyvc.verify import Obl, Unit

from .common import STATUS_NAMES, base_registry

WS = "WorkflowStatus"


def handler_registry():
    reg = base_registry()
    T.StoreModel(reg)
    T.install_recorder(reg)
    T.install_handler_base(reg)
    return reg


def make_handler(I, handler_qual: str, extra=None):
    m, c = handler_qual.split(":")
    ci = I.index.modules[m].classes[c]
    oid = I.st.new_id()
    rec = ObjRec(ci.name, ci, {}, {"name": "handler", "symbolic": True})
    I.st.objs[oid] = rec
    h = SObj(oid)
    rec.fields["queue"] = T.StoreModel.make_queue(I)
    rec.fields["repository"] = T.StoreModel.make_repository(I)
    rec.fields["_event_recorder"] = T.StoreModel.make_recorder(I)
    rec.fields["handler_config"] = T.new_symbolic(I, "HandlerConfig", "handler_config")
    rd = z3.Int("retry_delay")  # a timedelta: durations are integers (assumed_stdlib), non-negative
    I.st.assume(rd >= 0)
    rec.fields["retry_delay"] = SInt(rd)
    for k, v in (extra(I) if extra else {}).items():
        rec.fields[k] = v
    return h


def handler_unit(prop, name, handler_qual, message_cls, obligations, extra=None, registry=None, method="handle", setup=None,
                 allowed=("ConcurrencyError",)):
    def run(ctx):
        I = ctx.I
        h = make_handler(I, handler_qual, extra)
        msg = T.new_symbolic(I, message_cls, "message")
        ctx.extra["handler"], ctx.extra["message"] = h, msg
        ctx.args["message"] = msg
        if setup:
            setup(ctx)
        return I.call(I.getattr(h, method), [msg], {})

    return Unit(prop=prop, name=name, func=handler_qual + "." + method, params=[], names=STATUS_NAMES,
                registry=registry or handler_registry(), obligations=obligations, run=run, replayable=False)


# ----------------------------------------------------------------------------- z3 helpers over the real tables
def status(I, name: str):
    ci = I.index.find_class(WS)
    return I.enum_member(ci, name).t


def in_set(t, I, names):
    return z3.Or(*[t == status(I, n) for n in names])


def can_transition(I, cur, tgt):
    """can_transition(cur, tgt) built from the REAL VALID_TRANSITIONS constant of models/status.py."""
    tab = I.module_global("stabilize.models.status", "VALID_TRANSITIONS")
    rec = I.st.dicts[tab.did]
    disj = [cur == tgt]
    for k, v in rec.items:
        members = I.st.lists[v.lid].items
        if members:
            disj.append(z3.And(cur == k.t, z3.Or(*[tgt == m.t for m in members])))
    return z3.Or(*disj)


def is_complete(I, t):
    return I.ops.truthy(I.enum_getattr(SEnum(WS, t), "is_complete"))
