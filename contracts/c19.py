"""C19 -- see DESIGN.md section 4, C19."""
from . import handlers, sqlunits

LEVEL = "proof"
EXPLANATION = "contracts of the real SQLite store/queue functions (SQL text interpreted by pyvc.sql) and handler trace obligations, selected by the prefix C19/"
ASSUMPTIONS = ["SQLite contract of DESIGN 1.4 (statement atomicity, commit atomicity, INSERT OR IGNORE, RETURNING, rowcount)"]
TRUSTED = ["pyvc.sql statement semantics", "native comparison harness replay/bounded/c19_store_retrieve.py (bounded stand-in for the retrieve loops)"]


def units(tier):
    return sqlunits.units_for("C19") + handlers.units_for("C19")


def extras(tier, seed):
    from pyvc.bounded import run_bounded

    # the assembly loops of retrieve() / retrieve_stage() (result sets with ORDER BY) are outside the contracts: bounded stand-in
    return [run_bounded("C19", "c19_store_retrieve.py", "C19/bounded/store-then-retrieve", tier, seed),
            # cross-check of the message round-trip contracts on the real queue table (nested values; both serialisers)
            run_bounded("C19", "c19_messages.py", "C19/bounded/messages-through-the-queue", tier, seed)]
