"""C16 -- a stage sees exactly its ancestors' outputs, the nearest ancestor winning (DESIGN 4, C16)."""
from . import handlers, sqlunits

LEVEL = "other"
EXPLANATION = ("bounded stand-ins only (labelled bounded, never counted as proved): the ancestor walk, the planner merge and the "
               "reducers are compared with their specification over the stated finite domains; the proved part is C15's reset "
               "obligations (a re-armed stage has empty outputs) and C19 (what is planned is what is stored)")
ASSUMPTIONS = ["reducer values are ints (floats are not associative)", "precedence between ancestors that are not ordered by dependency is unspecified"]
TRUSTED = ["native comparison harness replay/bounded/c16_*.py"]


def units(tier):
    return sqlunits.units_for("C16") + handlers.units_for("C16")


def extras(tier, seed):
    from pyvc.bounded import run_bounded

    return [
        run_bounded("C16", "c16_ancestors.py", "C16/bounded/ancestors", tier, seed),
        run_bounded("C16", "c16_plan_merge.py", "C16/bounded/plan-merge", tier, seed),
        run_bounded("C16", "c16_reducers.py", "C16/bounded/reducers", tier, seed),
        run_bounded("C16", "c16_replan.py", "C16/bounded/replan-current-iteration", tier, seed),
    ]
