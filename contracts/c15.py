"""C15 -- jump loops are bounded and terminate (DESIGN 4, C15)."""
from . import handlers, sqlunits

LEVEL = "other"
EXPLANATION = "budget test, atomic application of a jump (one transaction on freshly loaded rows), trace obligations selected by the prefix C15/"
ASSUMPTIONS = ["_jump_count / _max_jumps, when present, are integers (engine-internal keys)"]
TRUSTED = []


def units(tier):
    return sqlunits.units_for("C15") + handlers.units_for("C15")


def extras(tier, seed):
    from pyvc.bounded import run_bounded

    return [
        run_bounded('C15', 'c15_traversal.py', 'C15/bounded/reset-set+traversal', tier, seed),
    ]
