"""C13 -- see DESIGN.md section 4, C13."""
from . import handlers, sqlunits

LEVEL = "other"
EXPLANATION = "trace obligations of the real handlers (layer L2) selected by the prefix C13/"
ASSUMPTIONS = []
TRUSTED = []


def units(tier):
    return sqlunits.units_for("C13") + handlers.units_for("C13")
