"""C10 -- see DESIGN.md section 4, C10."""
from . import handlers, sqlunits

LEVEL = "other"
EXPLANATION = "trace obligations of the real handlers (layer L2) selected by the prefix C10/"
ASSUMPTIONS = []
TRUSTED = []


def units(tier):
    return sqlunits.units_for("C10") + handlers.units_for("C10")
