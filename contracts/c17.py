"""C17 -- see DESIGN.md section 4, C17."""
from . import handlers, sqlunits

LEVEL = "other"
EXPLANATION = "trace obligations of the real handlers (layer L2) selected by the prefix C17/"
ASSUMPTIONS = []
TRUSTED = []


def units(tier):
    return sqlunits.units_for("C17") + handlers.units_for("C17")
