"""Trace properties T1-T7 (DESIGN 3.3) as obligation builders over the effect trace of one handler path.

Each builder returns a list of (suffix, z3 Bool) goals that must be valid under the path condition."""
import z3

from pyvc import trace as T
from pyvc.ops import FALSE, TRUE
from pyvc.values import SElem, SEnum, SNone, SObj, SOpt, SStr, fresh_int

from .hcommon import WS, can_transition, in_set, is_complete, status

WRITE_KINDS = ("store_stage", "push", "update_workflow")


def msg_id_truthy(ctx):
    I = ctx.I
    mid = I.getattr(ctx.extra["message"], "message_id")
    return I.ops.truthy(mid), mid


def committed_txns(ctx):
    return [t for t in T.transactions(ctx.st.effects) if t.committed]


def _has_write(txn) -> bool:
    for e in txn.effects:
        if e.kind in WRITE_KINDS:
            return True
        if e.kind == "foreach" and any(b.kind in WRITE_KINDS for b, _ in T.flat([e])):
            return True
    return False


def t1_processed_with_effects(exempt=None):
    """T1: every committed transaction containing a durable write also marks message.message_id (when truthy)."""
    def check(ctx):
        I = ctx.I
        truthy, mid = msg_id_truthy(ctx)
        goals = []
        for t in committed_txns(ctx):
            if not _has_write(t):
                continue
            if exempt is not None and exempt(ctx, t):
                continue
            marks = [e for e in t.effects if e.kind == "mark"]
            has = z3.Or(*[I.ops.eq(e.data["message_id"], mid) for e in marks]) if marks else FALSE
            goals.append((f"txn{t.tid}", z3.Implies(truthy, has)))
        return goals
    return check


def state_changing_commits(ctx):
    n = 0
    for t in committed_txns(ctx):
        if _has_write(t):
            n += 1
    for e in ctx.st.effects:
        if e.kind == "standalone" or e.kind == "queue_push":
            n += 1
    return n


def t6_single_commit(max_commits=1):
    def check(ctx):
        return [("", z3.BoolVal(state_changing_commits(ctx) <= max_commits))]
    return check


def t7_no_split(ctx):
    """T7: nothing that commits on its own happens while a store transaction is open."""
    bad = [e for e, _ in T.flat(ctx.st.effects) if e.kind in ("standalone", "queue_push", "queue_op") and e.data.get("in_txn") is not None]
    nested = [e for e in ctx.st.effects if e.kind == "nested_txn"]
    return [("", z3.BoolVal(not bad and not nested))]


def no_push_after_commit(ctx):
    """T2 (second half): after a state-changing commit nothing is pushed through the non-transactional queue.push."""
    seen_commit = False
    bad = False
    txns = {t.tid: t for t in T.transactions(ctx.st.effects)}
    for e in ctx.st.effects:
        if e.kind == "txn_commit" and _has_write(txns[e.data["txn"]]) and any(
                x.kind in ("store_stage", "update_workflow") or (x.kind == "foreach" and any(b.kind in ("store_stage", "update_workflow") for b, _ in T.flat([x])))
                for x in txns[e.data["txn"]].effects):
            seen_commit = True
        elif e.kind == "queue_push" and seen_commit:
            bad = True
        elif e.kind == "foreach" and seen_commit and any(b.kind == "queue_push" for b, _ in T.flat([e])):
            bad = True
    return [("", z3.BoolVal(not bad))]


def stores(ctx, committed_only=True):
    """[(effect, guard)] of store_stage effects (transactional in committed txns, and standalone)."""
    out = []
    ok = {t.tid for t in T.transactions(ctx.st.effects) if t.committed}
    for e, g in T.flat(ctx.st.effects):
        if e.kind == "store_stage" and (not committed_only or e.data["txn"] in ok):
            out.append((e, g))
        if e.kind == "standalone" and e.data["op"] == "store_stage":
            out.append((e, g))
    return out


def t3_legal_write(rearm=False, allow=None, pre=None):
    """T3: every stored stage / task status is a legal transition from the status that was loaded."""
    def check(ctx):
        I = ctx.I
        goals = []
        for n, (e, g) in enumerate(stores(ctx)):
            ld = e.data.get("loaded") or {}
            snap = e.data["snap"]
            if "status" not in ld:
                continue  # object not loaded from the store on this path (new synthetic stage): an insert
            cur, new = ld["status"].t, snap["status"].t
            legal = can_transition(I, cur, new)
            if pre is not None:
                g = z3.And(g, pre(ctx, e))
            if allow is not None:
                legal = z3.Or(legal, allow(ctx, e, cur, new))
            goals.append((f"store{n}.stage", z3.Implies(g, legal)))
            if "task_status" in snap and "task_status" in ld and snap["tasks"].lid == ld.get("tasks_lid"):
                i = fresh_int("ti")
                tl = can_transition(I, z3.Select(ld["task_status"], i), z3.Select(snap["task_status"], i))
                if allow is not None:
                    tl = z3.Or(tl, allow(ctx, e, z3.Select(ld["task_status"], i), z3.Select(snap["task_status"], i)))
                goals.append((f"store{n}.tasks", z3.Implies(z3.And(g, i >= 0, i < snap["task_len"]), tl)))
        for n, (e, g) in enumerate((e, g) for e, g in T.flat(ctx.st.effects) if e.kind == "update_workflow"):
            ld = e.data.get("loaded") or {}
            if "status" in ld:
                legal = can_transition(I, ld["status"].t, e.data["status"].t)
                if allow is not None:
                    legal = z3.Or(legal, allow(ctx, e, ld["status"].t, e.data["status"].t))
                goals.append((f"wf{n}", z3.Implies(g, legal)))
        return goals
    return check


def establishes_stage_task_inv(ctx):
    """StageTaskInv, the writer's side (the result helpers of RunTask rely on it as the validity of a loaded row): a stage
    row is never stored with a status other than RUNNING while one of its tasks is stored RUNNING -- whoever finishes,
    cancels or suspends a stage settles its running task in the same write."""
    I = ctx.I
    goals = []
    for n, (e, g) in enumerate(stores(ctx)):
        snap = e.data["snap"]
        if "task_status" not in snap:
            continue
        i = fresh_int("ti")
        running = status(I, "RUNNING")
        goals.append((f"store{n}.no-running-task-under-a-stage-that-is-not-running",
                      z3.Implies(z3.And(g, i >= 0, i < snap["task_len"], z3.Select(snap["task_status"], i) == running), snap["status"].t == running)))
    return goals


def stage_status_never_redirect(ctx):
    I = ctx.I
    goals = []
    for n, (e, g) in enumerate(stores(ctx, committed_only=False)):
        ld = e.data.get("loaded") or {}
        pre = (ld["status"].t != status(I, "REDIRECT")) if "status" in ld else TRUE  # StageStatusInv of the loaded row
        goals.append((f"store{n}", z3.Implies(z3.And(g, pre), e.data["snap"]["status"].t != status(I, "REDIRECT"))))
    return goals


def version_from_load(ctx):
    """C07 (and the claim CAS of C04): the version a store presents to the optimistic guard is the one the row had when
    the written object was loaded, advanced only by this object's own successful stores -- never a version copied from
    another read, which would turn the guard into a blind overwrite."""
    goals = []
    n = 0
    for e, g in T.flat(ctx.st.effects):
        if e.kind in ("store_stage", "standalone") and "ver_presented" in e.data:
            goals.append((f"store{n}", z3.Implies(g, e.data["ver_presented"] == e.data["ver_legit"])))
            n += 1
    return goals


def only_marks_when(guard_false):
    """Re-entrancy guard: on paths where `guard_false(ctx)` may hold there is no store, push, event or execution --
    stated contrapositively: if the path has such an effect, the guard is true."""
    def check(ctx):
        gf = guard_false(ctx)
        if gf is None:
            return []
        acts = [e for e, _ in T.flat(ctx.st.effects) if e.kind in ("store_stage", "push", "update_workflow", "standalone", "queue_push", "event", "task_execute")
                and not (e.kind == "push" and e.data.get("cls", "").startswith("Invalid"))]
        if not acts:
            return [("", TRUE)]
        return [("", z3.Not(gf))]
    return check


def t4_events_inside(kinds, entity="task"):
    """T4: each completion event lies inside the open transaction that stores the entity, after the store."""
    def check(ctx):
        goals = []
        open_tid = None
        stored_in: dict = {}
        for e in ctx.st.effects:
            if e.kind == "store_stage":
                stored_in.setdefault(e.data["txn"], []).append(e)
            if e.kind == "event" and e.data["kind"] in kinds:
                tid = e.data.get("in_txn")
                ok = tid is not None and bool(stored_in.get(tid))
                goals.append((e.data["kind"], z3.BoolVal(ok)))
        return goals
    return check


def events_committed_iff(kinds):
    """No completion event is recorded in a transaction that rolls back without the rollback undoing it: with the
    event appended through the transaction's connection (C13 mechanism) this is 'inside a transaction'."""
    return t4_events_inside(kinds)


def pushes(ctx, cls=None, committed_only=True):
    ok = {t.tid for t in T.transactions(ctx.st.effects) if t.committed}
    out = []
    for e, g in T.flat(ctx.st.effects):
        if e.kind == "push" and (not committed_only or e.data["txn"] in ok) and (cls is None or e.data["cls"] == cls):
            out.append((e, g))
    return out


def found_task(ctx, stage):
    """The task element selected by _find_task on this path: the explicit index terms noted on the tasks list."""
    I = ctx.I
    tasks = I.getattr(stage, "tasks")
    return tasks, I.st.index_terms.get(tasks.lid, [])
