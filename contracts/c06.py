"""C06 -- see DESIGN.md section 4, C06."""
from . import handlers, sqlunits

LEVEL = "proof"
EXPLANATION = "trace obligations of the real handlers (layer L2) selected by the prefix C06/"
ASSUMPTIONS = []
TRUSTED = []


def units(tier):
    return sqlunits.units_for("C06") + handlers.units_for("C06")
