"""C18 -- see DESIGN.md section 4, C18."""
from . import handlers, sqlunits

LEVEL = "other"
EXPLANATION = "trace obligations of the real handlers (layer L2) selected by the prefix C18/"
ASSUMPTIONS = []
TRUSTED = ["native comparison harness replay/bounded/c16_plan_merge.py (bounded stand-in: planning keeps the stage's own list-valued "
           "context keys, such as the signal mailbox _buffered_signals, entry for entry)"]


def units(tier):
    return sqlunits.units_for("C18") + handlers.units_for("C18")


def extras(tier, seed):
    from pyvc.bounded import run_bounded

    return [run_bounded("C18", "c16_plan_merge.py", "C18/bounded/planning-keeps-the-signal-mailbox", tier, seed)]
