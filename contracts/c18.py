"""C18 -- see DESIGN.md section 4, C18."""
from . import handlers, sqlunits

LEVEL = "other"
EXPLANATION = "trace obligations of the real handlers (layer L2) selected by the prefix C18/"
ASSUMPTIONS = []
TRUSTED = []


def units(tier):
    return sqlunits.units_for("C18") + handlers.units_for("C18")
