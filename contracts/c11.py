"""C11 -- see DESIGN.md section 4, C11."""
from . import handlers, sqlunits

LEVEL = "proof"
EXPLANATION = "trace obligations of the real handlers (layer L2) selected by the prefix C11/"
ASSUMPTIONS = []
TRUSTED = []


def units(tier):
    return sqlunits.units_for("C11") + handlers.units_for("C11")
