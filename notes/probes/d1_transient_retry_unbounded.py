import sys, logging
sys.path.insert(0, "/repo")
logging.disable(logging.CRITICAL)
from stabilize import TaskResult, TransientError, SqliteQueue, SqliteWorkflowStore
from stabilize.models.stage import StageExecution
from stabilize.models.status import WorkflowStatus
from stabilize.models.task import TaskExecution
from stabilize.models.workflow import Workflow
from stabilize.tasks.interface import Task
from tests.conftest import setup_stabilize

class AlwaysTransient(Task):
    n = 0
    seen = []
    def execute(self, stage):
        AlwaysTransient.n += 1
        raise TransientError("nope", retry_after=0.0)

repo = SqliteWorkflowStore("sqlite:///:memory:", create_tables=True)
q = SqliteQueue("sqlite:///:memory:", table_name="queue_messages"); q._create_table(); q.clear()
processor, runner, _ = setup_stabilize(repo, q, extra_tasks={"at": AlwaysTransient})
# observe attempts seen by handler
from stabilize.handlers.run_task import error as err
orig = err.handle_exception
def spy(stage, task_model, task, message, exception, *a, **k):
    AlwaysTransient.seen.append((message.attempts, message.max_attempts))
    return orig(stage, task_model, task, message, exception, *a, **k)
import stabilize.handlers.run_task.handler as h
h.handle_exception = spy
wf = Workflow.create(application="t", name="p", stages=[StageExecution(ref_id="s", type="test", name="s",
   tasks=[TaskExecution.create(name="t", implementing_class="at", stage_start=True, stage_end=True)])])
repo.store(wf); runner.start(wf)
import time
t0=time.time()
try:
    processor.process_all(timeout=40.0)
except Exception as e:
    print("exc", e)
r = repo.retrieve(wf.id)
print("status", r.status, "stage", r.stages[0].status, "executions", AlwaysTransient.n, "elapsed", round(time.time()-t0,1))
print("attempts seen", AlwaysTransient.seen[:15])
