from _common import *
from stabilize.queue.sqlite.serialization import deserialize_message
class JumpOnce(Task):
    n = 0
    def execute(self, stage):
        JumpOnce.n += 1
        if JumpOnce.n == 1:
            return TaskResult.jump_to("a")
        return TaskResult.success()
repo,q,p,r = fresh({"j": JumpOnce})
wf = Workflow.create(application="t", name="p", stages=[st("a","j")])
repo.store(wf); r.start(wf)
conn = q._get_connection()
def rows(): return [(row["id"], row["message_type"], row["payload"]) for row in conn.execute("select id,message_type,payload from queue_messages order by id")]
def deliver(pred):
    for id_, typ, payload in rows():
        if pred(typ):
            m = deserialize_message(typ, payload); m.message_id = str(id_); m.attempts = 1
            p._handle_message(m); q.ack(m); return typ
    return None
log=[]
# in-order until the jump txn has committed (queue holds JumpToStage + CompleteTask)
for _ in range(50):
    types=[t for _,t,_ in rows()]
    if "JumpToStage" in types: break
    log.append(deliver(lambda t: True))
print("before jump:", log, "pending:", [t for _,t,_ in rows()])
# adversarial order: JumpToStage, then everything EXCEPT the stale CompleteTask until the task runs again
log2=[deliver(lambda t: t=="JumpToStage")]
for _ in range(10):
    types=[t for _,t,_ in rows()]
    if "RunTask" in types: break
    log2.append(deliver(lambda t: t!="CompleteTask"))
print("after jump:", log2, "pending:", [t for _,t,_ in rows()])
log3=[deliver(lambda t: t=="CompleteTask")]   # stale CompleteTask(REDIRECT) overtakes RunTask
for _ in range(20):
    x = deliver(lambda t: True)
    if x is None: break
    log3.append(x)
print("rest:", log3)
w = repo.retrieve(wf.id)
print("final:", w.status, [(s.ref_id, s.status.name, [t.status.name for t in s.tasks]) for s in w.stages], "queue", q.size(), "executions", JumpOnce.n)
