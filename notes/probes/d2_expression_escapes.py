"""D2: exceptions other than ExpressionError escaping evaluate_expression. Run: cd /repo && /venv/bin/python <this>"""
import sys; sys.path.insert(0, "src")
from stabilize.expressions import evaluate_expression, ExpressionError
for e, c in [("-x", {"x": None}), ("-'a'", {}), ("x[[1]]", {"x": {}}), ("x[y]", {"x": {}, "y": {}}), ("not " * 3000 + "x", {})]:
    try:
        print(repr(e[:20]), "->", evaluate_expression(e, c))
    except ExpressionError:
        print(repr(e[:20]), "ExpressionError (fine)")
    except BaseException as ex:
        print(repr(e[:20]), "ESCAPE", type(ex).__name__)
