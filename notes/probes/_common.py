"""Design-time probe helpers (not part of the verifier). Run with /venv/bin/python from /repo."""
import sys, logging, os, tempfile
DB = "sqlite:///" + os.path.join(tempfile.mkdtemp(prefix="stab_probe_"), "p.db")
sys.path.insert(0, "/repo")
logging.disable(logging.CRITICAL)
from stabilize import TaskResult, SqliteQueue, SqliteWorkflowStore
from stabilize.models.stage import StageExecution
from stabilize.models.status import WorkflowStatus
from stabilize.models.task import TaskExecution
from stabilize.models.workflow import Workflow
from stabilize.tasks.interface import Task, SkippableTask
from tests.conftest import setup_stabilize

def fresh(extra):
    from stabilize.persistence.connection import ConnectionManager, SingletonMeta
    SingletonMeta.reset(ConnectionManager)
    repo = SqliteWorkflowStore(DB, create_tables=True)
    q = SqliteQueue(DB, table_name="queue_messages"); q._create_table(); q.clear()
    p, r, _ = setup_stabilize(repo, q, extra_tasks=extra)
    return repo, q, p, r

def st(ref, impl, reqs=(), ctx=None, n=1):
    return StageExecution(ref_id=ref, type="test", name=ref, context=ctx or {}, requisite_stage_ref_ids=set(reqs),
        tasks=[TaskExecution.create(name=f"t{i}", implementing_class=impl, stage_start=(i==0), stage_end=(i==n-1)) for i in range(n)])

