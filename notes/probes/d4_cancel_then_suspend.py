from _common import *
from stabilize import QueueProcessor
state = {}
class SuspendAfterCancel(Task):
    def execute(self, stage):
        if not state.get("done"):
            state["done"] = True
            # a second worker handles a cancel of this workflow while we are executing
            state["runner"].cancel(state["wf"], user="op", reason="test")
            p2 = state["p2"]
            for _ in range(10):
                try:
                    if not p2.process_one(): break
                except Exception as e:
                    print("inner exc", e); break
        return TaskResult.suspend()
repo,q,p,r = fresh({"sac": SuspendAfterCancel})
# install status audit trigger
conn = repo._get_connection()
conn.execute("CREATE TABLE audit(seq INTEGER PRIMARY KEY AUTOINCREMENT, tbl TEXT, id TEXT, old TEXT, new TEXT)")
conn.execute("CREATE TRIGGER t_s AFTER UPDATE OF status ON stage_executions BEGIN INSERT INTO audit(tbl,id,old,new) VALUES('stage', NEW.ref_id, OLD.status, NEW.status); END")
conn.execute("CREATE TRIGGER t_t AFTER UPDATE OF status ON task_executions BEGIN INSERT INTO audit(tbl,id,old,new) VALUES('task', NEW.name, OLD.status, NEW.status); END")
conn.commit()
wf = Workflow.create(application="t", name="p", stages=[st("a","sac")])
repo.store(wf)
state.update(runner=r, wf=wf, p2=p)
r.start(wf)
try:
    p.process_all(timeout=8)
except Exception as e:
    print("outer exc", type(e).__name__, e)
w = repo.retrieve(wf.id)
print("final:", w.status, w.is_canceled, [(s.ref_id, s.status.name, [t.status.name for t in s.tasks]) for s in w.stages], "queue", q.size())
for row in conn.execute("select tbl,id,old,new from audit where old!=new order by seq"): print(tuple(row))
