from _common import *
# 1. SkippableTask disabled
class Skip(SkippableTask):
    def is_enabled(self, stage): return False
    def do_execute(self, stage): return TaskResult.success()
    def execute(self, stage): return TaskResult.success()
repo,q,p,r = fresh({"skip": Skip})
wf = Workflow.create(application="t", name="p", stages=[st("a","skip"), st("b","success",["a"])])
repo.store(wf); r.start(wf); p.process_all(timeout=5)
w = repo.retrieve(wf.id)
print("1 skippable:", w.status, [(s.ref_id, s.status.name, [t.status.name for t in s.tasks]) for s in w.stages], "queue", q.size())

# 2. failPipeline False -> STOPPED -> workflow?
repo,q,p,r = fresh({})
wf = Workflow.create(application="t", name="p", stages=[st("a","fail", ctx={"failPipeline": False}), st("b","success")])
repo.store(wf); r.start(wf); p.process_all(timeout=5)
w = repo.retrieve(wf.id)
print("2 stopped:", w.status, [(s.ref_id, s.status.name) for s in w.stages], "queue", q.size())
